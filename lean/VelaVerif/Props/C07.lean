import VelaVerif.Lemmas.MlwDecode
import VelaVerif.Lemmas.MlwFrame
import VelaVerif.Lemmas.Reorder
import VelaVerif.Lemmas.ReorderLength
import VelaVerif.Lemmas.MlwSpec
import VelaVerif.Gen.Core
import VelaVerif.Gen.Mlw
/-!
# C07 — weight compression is lossless, hardware-ordered and memory-safe

Property theorems only.  Models: `Model/MlwDecode.lean` (reference stream decoder, `mlw_decode.c`),
`Model/Reorder.lean` (`reorder` of `mlw_encode.c`), `Model/MlwFrame.lean` (end of `mlw_encode`);
Spec: `Spec/Mlw.lean`; helpers: `Lemmas/{MlwDecode,MlwFrame,Reorder,MlwSpec}.lean`.

Level: translation validation + proved parts.  What is proved here: the decoder is total and never
over-reads silently, the stream end rule yields a multiple of 16 bytes, every traversal (depth-first,
part-kernel-first, depthwise) is a bijection onto the volume plus zero padding for every valid configuration, the Spec checker used by
`harness/check_C07.py` decides the Spec.  The encoder itself (palette search, GRC parameter
search, chunk interleaving) is validated per run, not proved.
-/
namespace VelaVerif.Props.C07
open VelaVerif VelaVerif.Mlw VelaVerif.Reorder VelaVerif.MlwSpec

/-! ## constants of the code under test -/

/-- The stream-format constants of `mlw_common.h`, the IFM block depths of `reorder` (mlw_encode.c) and
    `ArchitectureFeatures.SubKernelMax`, as regenerated from the tree under test, are the ones the
    model and the Spec are written with. -/
theorem codec_constants_match :
    Gen.Mlw.zdivDisable = zdivDisable ∧ Gen.Mlw.zdivEos = zdivEos ∧ Gen.Mlw.wdivUncompressed = wdivUncompressed ∧
    Gen.Mlw.ifmBlockDepthSmall = ifmBlockDepthSmall ∧ Gen.Mlw.ifmBlockDepthLarge = ifmBlockDepthLarge ∧
    Gen.Mlw.subKernelMaxH = 8 ∧ Gen.Mlw.subKernelMaxW = 8 := by decide

/-! ## the reference decoder -/

/-- The decoder terminates on every byte string with the fuel it gives itself (the two
    `do … while` loops of `mlw_decode.c` always make progress), and an accepted stream was read
    inside the buffer. -/
theorem decoder_total (bytes : List Nat) :
    decode bytes ≠ .error .fuel ∧ ∀ d, decode bytes = .ok d → d.bitsRead ≤ 8 * bytes.length := by
  unfold decode
  have h := decodeBits_total (bytesToBits bytes)
  rw [bytesToBits_length] at h
  exact h

/-- … and it never reads past the end without reporting it: a read of more bits than are left
    is `underrun` (where the C code prints "underrun" and exits), a successful read consumed
    exactly the requested bits of the buffer. -/
theorem decoder_never_overreads (n : Nat) (b : Bits) :
    (b.rest.length < n → Mlw.get n b = .error .underrun) ∧
    (∀ v b', Mlw.get n b = .ok (v, b') → b'.rest.length + n = b.rest.length ∧ b'.pos = b.pos + n) := by
  refine ⟨get_underrun, ?_⟩
  intro v b' h
  have := get_ok h
  unfold Adv at this
  have h2 : b'.rest.length + n = b.rest.length := by
    unfold Mlw.get at h
    cases h3 : takeBits n b.rest with
    | none => simp [h3] at h
    | some p =>
      obtain ⟨v2, r2⟩ := p
      simp [h3] at h
      obtain ⟨_, rfl⟩ := h
      exact takeBits_length n b.rest v2 r2 h3
  omega

/-- non-vacuity: the 16 bytes `mlw_codec.encode([5])` returns decode to `[5]` (one slice ending at bit 56) -/
example : (decode [6, 0, 64, 21, 164, 0, 0, 255, 255, 255, 255, 255, 255, 255, 255, 255]).toOption.map
    (fun d => (d.weights, d.slices.length, d.sliceEnd)) = some ([5], 1, 56) := by decide +kernel

/-- … and a stream with zero runs (`mlw_codec.encode` of a 17-element sparse sequence) -/
example : (decode [17, 0, 96, 33, 164, 39, 6, 224, 13, 218, 255, 255, 255, 255, 255, 255]).toOption.map
    (fun d => d.weights) = some [5, 0, 0, 0, 0, 0, 0, 0, 0, 0, -3, 0, 0, 0, 0, 0, 1] := by decide +kernel

/-- non-vacuity of the error side: a truncated stream is reported, not over-read -/
example : (match decode [6, 0, 64, 21] with | .error e => some e | .ok _ => none) = some DecErr.underrun := by
  decide +kernel

/-! ## header fields (what the encoder writes is what the decoder reads) -/

/-- `header_roundtrip`: the slice header fields `encode_slice` writes after ZDIV (SLICELEN − 1 in 15 bits,
    WDIV, WTRUNC, NEWPAL) are read back unchanged by the decoder, which consumes exactly those 20 bits. -/
theorem header_roundtrip (nvalues wdiv : Nat) (trunc newPal : Bool) (rest : List Bool) (pos : Nat)
    (hn1 : 1 ≤ nvalues) (hn2 : nvalues ≤ 32768) (hw : wdiv < 8) :
    readSliceHeader ⟨putSliceHeader nvalues wdiv trunc newPal ++ rest, pos⟩ =
      .ok ((nvalues, wdiv, trunc, newPal), ⟨rest, pos + 20⟩) :=
  header_roundtrip' nvalues wdiv trunc newPal rest pos hn1 hn2 hw

/-- `palette_roundtrip`: the palette section (DIROFS, PALSIZE − 1, PALBITS − 2, entries) of a palette
    with 0 or 2..32 entries of 2..9 bits is read back unchanged; a palette of one entry cannot be
    expressed (the encoder pads it to two). -/
theorem palette_roundtrip (dirofs palbits : Nat) (lut : List Nat) (rest : List Bool) (pos : Nat)
    (hd : dirofs < 32) (hl : lut.length = 0 ∨ (2 ≤ lut.length ∧ lut.length ≤ 32))
    (hb1 : 2 ≤ palbits) (hb2 : palbits ≤ 9) (hv : ∀ v ∈ lut, v < 2 ^ palbits) :
    readPalette ⟨putPaletteHeader dirofs palbits lut ++ rest, pos⟩ =
      .ok ({ directOffset := dirofs, palsize := lut.length, palbits := palbits, palette := lut },
           ⟨rest, pos + 13 + lut.length * palbits⟩) :=
  palette_roundtrip' dirofs palbits lut rest pos hd hl hb1 hb2 hv

/-- a field wider than its value is not needed: the low `n` bits are what survives (`bitbuf_put` masks) -/
theorem field_roundtrip (n v : Nat) (rest : List Bool) :
    takeBits n (putBits n v ++ rest) = some (v % 2 ^ n, rest) := takeBits_putBits n v rest

/-! ## the end of a stream -/

/-- `frame_multiple_of_16`: wherever the last slice ends, the end-of-stream marker, the byte
    alignment and the `0xff` padding bring the stream to a multiple of 128 bits (16 bytes); at most
    one 16-byte word is added and every added bit is 1. -/
theorem frame_multiple_of_16 (pos : Nat) :
    (pos + (frameBits pos).length) % 128 = 0 ∧ frameBytes pos % 16 = 0 ∧
    3 ≤ (frameBits pos).length ∧ (frameBits pos).length ≤ 130 ∧ ∀ x ∈ frameBits pos, x = true := by
  obtain ⟨h1, h2, h3, h4⟩ := frameBits_spec pos
  refine ⟨h1, ?_, h3, h2, h4⟩
  unfold frameBytes
  omega

example : (frameBits 37).length = 91 ∧ frameBytes 37 = 16 := by decide

/-- The stream of an empty weight sequence is the frame alone: 16 bytes of `0xff`, which the
    reference decoder accepts and decodes to no weight at all (what `mlw_codec.encode([])` returns since
    the repair; before it the encoder emitted a slice of 32768 values the decoder ran off the end of). -/
theorem empty_sequence_stream :
    frameBits 0 = List.replicate 128 true ∧ frameBytes 0 = 16 ∧
    (decode (List.replicate 16 255)).toOption.map (fun d => (d.weights, d.slices.length, d.sliceEnd)) = some ([], 0, 0) := by
  decide +kernel

/-! ## the hardware traversal order -/

/-- `reorder_covers`: for depth-first, part-kernel-first and depthwise traversal, any volume shape, any
    block depths that are whole numbers of micro-blocks and any decomposition sizes (hence any
    dilation), every in-range source coordinate `(ofm_z, wy, wx, ifm_z)` is emitted exactly once and
    every other emitted value is padding: the traversal is a bijection onto the volume plus zeros. -/
theorem reorder_covers (p : Params) (v : ValidConfig p) :
    reorder p = some (traverse p) ∧ Covers p (traverse p) := by
  refine ⟨?_, fun c hc => count_traverse v hc, fun c hc => traverse_sound v hc⟩
  unfold reorder Params.stepsPositive
  simp [v.iuPos, v.ouPos, v.obdPos, v.dhPos, v.dwPos]

/-- consequently the reordered stream is the source volume permuted with zeros inserted: each source
    element is read exactly once and nothing outside the volume is read -/
theorem reorder_reads_each_weight_once (p : Params) (v : ValidConfig p) (c : Coord) :
    (p.inRange c = true → (traverse p).count (some c) = 1) ∧
    (p.inRange c = false → (traverse p).count (some c) = 0) := by
  refine ⟨fun h => count_traverse v h, fun h => ?_⟩
  rw [List.count_eq_zero]
  intro hm
  rw [traverse_sound v hm] at h
  cases h

/-- `reorder_length`: the number of values handed to the entropy coder (`padded_length`), all traversals:
    OFM depth padded to micro-blocks × kernel elements after decomposition and padding × IFM factor
    (1 for depthwise, IFM depth padded to micro-blocks for part-kernel-first, to the 16/32 block for depth-first). -/
theorem reorder_length (p : Params) (v : ValidConfig p) : (traverse p).length = paddedLength p :=
  length_traverse v

/-- depth-first: `round_up(ofm_depth, ofm_ublock) · kh · kw · round_up(ifm_depth, 16 or 32)` -/
theorem reorder_length_depth_first (p : Params) (v : ValidConfig p) (hdw : p.isDepthwise = false)
    (hpk : p.isPartkernel = false) :
    (traverse p).length = roundUp p.ofmDepth p.ofmUblockDepth * (p.kh * p.kw) * roundUp p.ifmDepth p.ifmBlockDepth := by
  rw [length_traverse v, kernelElems_df v hdw hpk]
  simp [ifmFactor, hdw, hpk]

/-- the padding is exactly the length beyond the volume: `length = volume + number of padding zeros` -/
example : paddedLength { ifmUblockDepth := 8, ofmUblockDepth := 8, ofmDepth := 5, kh := 3, kw := 3, ifmDepth := 20,
                         ofmBlockDepth := 16, isDepthwise := false, isPartkernel := true, ifmBitdepth := 8,
                         decompH := 4, decompW := 4 } = 8 * 12 * 24 := by decide

/-- the executable checker the harness enumerates small scopes with (`reordercovers`) decides `Covers` -/
theorem covers_decides (p : Params) (cs : List (Option Coord)) : covers p cs = true ↔ Covers p cs :=
  covers_iff p cs

/-- The parameters `weight_compressor.encode_weights` derives for any traversal on any of the
    accelerators of the regenerated table, any IFM bit depth, dilation 1 or 2 and an OFM block depth
    that is a whole number of OFM micro-blocks form a `ValidConfig` (a depthwise volume has `ifm_depth = 1`). -/
theorem accelerator_params_valid (a : Gen.AccRow) (ha : a ∈ Gen.accelerators)
    (od kh kw id_ k bits dilX dilY : Nat) (dw pk : Bool) (hk : 0 < k) (hx : dilX = 1 ∨ dilX = 2)
    (hy : dilY = 1 ∨ dilY = 2) (hdw : dw = true → id_ = 1) :
    ValidConfig { ifmUblockDepth := a.ifmUblock.depth, ofmUblockDepth := a.ofmUblock.depth, ofmDepth := od,
                  kh := kh, kw := kw, ifmDepth := id_, ofmBlockDepth := k * a.ofmUblock.depth,
                  isDepthwise := dw, isPartkernel := pk, ifmBitdepth := bits,
                  decompH := Gen.Mlw.subKernelMaxH / dilY, decompW := Gen.Mlw.subKernelMaxW / dilX } := by
  have table : ∀ a ∈ Gen.accelerators, 0 < a.ifmUblock.depth ∧ 0 < a.ofmUblock.depth ∧
      a.ifmUblock.depth ∣ ifmBlockDepthSmall ∧ a.ifmUblock.depth ∣ ifmBlockDepthLarge := by decide
  obtain ⟨h1, h2, h3, h4⟩ := table a ha
  have hdec : ∀ d, d = 1 ∨ d = 2 → 0 < Gen.Mlw.subKernelMaxH / d ∧ 0 < Gen.Mlw.subKernelMaxW / d := by
    rintro d (rfl | rfl) <;> decide
  refine { iuPos := h1, ouPos := h2, obdPos := Nat.mul_pos hk h2, dhPos := (hdec dilY hy).1,
           dwPos := (hdec dilX hx).2, ouDvd := Nat.dvd_mul_left _ _, iuDvd := ?_, depthwiseIfm := hdw }
  show a.ifmUblock.depth ∣ Params.ifmBlockDepth _
  unfold Params.ifmBlockDepth
  split
  · exact h3
  · exact h4

/-- non-vacuity: a part-kernel-first 3×3 kernel, 5 output and 20 input channels on an 8/8 micro-block
    machine with dilation 2 (decomposition 4×4) -/
example : Covers { ifmUblockDepth := 8, ofmUblockDepth := 8, ofmDepth := 5, kh := 3, kw := 3, ifmDepth := 20,
                   ofmBlockDepth := 16, isDepthwise := false, isPartkernel := true, ifmBitdepth := 8,
                   decompH := 4, decompW := 4 }
    (traverse { ifmUblockDepth := 8, ofmUblockDepth := 8, ofmDepth := 5, kh := 3, kw := 3, ifmDepth := 20,
                ofmBlockDepth := 16, isDepthwise := false, isPartkernel := true, ifmBitdepth := 8,
                decompH := 4, decompW := 4 }) :=
  (reorder_covers _ ⟨by decide, by decide, by decide, by decide, by decide, ⟨2, rfl⟩, ⟨2, rfl⟩, by decide⟩).2

/-- the hypothesis on the block depth is needed: with an OFM block depth that is not a whole number
    of micro-blocks, channels of the next block are emitted twice -/
theorem reorder_block_depth_hypothesis_needed_witness :
    (traverse { ifmUblockDepth := 2, ofmUblockDepth := 2, ofmDepth := 4, kh := 1, kw := 1, ifmDepth := 1,
                ofmBlockDepth := 3, isDepthwise := false, isPartkernel := false, ifmBitdepth := 8,
                decompH := 8, decompW := 8 }).count (some ⟨3, 0, 0, 0⟩) = 2 := by decide +kernel

/-! ## the checker applied to real streams -/

/-- the range predicate the check asks about every probe (`mlwvalid`) decides `WeightsInRange` -/
theorem range_checker_decides (src : List Int) : weightsInRange src = true ↔ WeightsInRange src :=
  weightsInRange_iff src

/-- an `ok` verdict of `checkStream` (what `mlwseq` / `mlwcheck` print for a real stream) means:
    the reference decoder returns the expected weights followed only by zeros, the length is a
    multiple of 16, and nothing but the end-of-stream frame follows the last slice -/
theorem checker_sound (stream : List Nat) (expected : List Int) (k : Nat) (d : Decoded)
    (h : checkStream stream expected = .ok k d) : Lossless stream expected ∧ Framed stream :=
  checkStream_ok h

end VelaVerif.Props.C07
