import VelaVerif.Lemmas.PyRt
import VelaVerif.Model.Scaling
import VelaVerif.Gen.SrcScaling
/-!
# C09 (source tie) — the integer parts of `scaling.reduced_quantise_scale` and
`scaling.quantise_pooling_scale` equal the hand model `Model/Scaling.lean`

`Gen/SrcScaling.lean` is regenerated from the source text of `ethosu/vela/scaling.py` on every run.  The
floating-point calls (`quantise_scale(scale)`, `math.frexp(..)`) are *opaque*: their results are extra
parameters of the translated functions, and the theorems are stated for the values the model assigns
to them (the doubles → integers step is C09's own subject, validated there against the real code).
-/
namespace VelaVerif.Props.C09Src
open VelaVerif VelaVerif.PyRt VelaVerif.Scaling
open VelaVerif.Gen.SrcScaling

/-- error kinds of the translated source vs. `Scaling.Err` -/
def errRel : PyRt.Err → Scaling.Err → Prop
  | .value, .value => True
  | .zerodiv, .zerodiv => True
  | .assert_, .assert => True
  | _, _ => False

/-- `quantise_scale`: everything after `significand, exponent = math.frexp(scale)` and
    `significand_q31 = int(round_away_zero(significand * (1 << 31)))`, for the values the model assigns to
    the two opaque results (`frexp` exponent `e + 53`, Q31 significand `sigQ31 m` of a normalised `m·2^e`) -/
theorem src_quantise_scale_eq_model (m : Nat) (e : Int) (sc : Num) :
    quantise_scale sc (.py (e + 53)) (.py (sigQ31 m : Nat)) =
      .ok (.py (quantiseNorm m e).1, .py (quantiseNorm m e).2) := by
  unfold quantiseNorm
  generalize ((sigQ31 m : Nat) : Int) = q
  by_cases hs : 0 ≤ (e + 53 - 31) * -1 ∧ (e + 53 - 31) * -1 < 64
  · py_exec [quantise_scale, if_pos, if_neg, hs]
  · py_exec [quantise_scale, if_pos, if_neg, hs]

/-- `reduced_quantise_scale`: everything after `multiplier, shift = quantise_scale(scale)`, for every
    pair the model's `quantiseScale` can return -/
theorem src_reduced_quantise_scale_eq_model (x : Dbl) (m s : Int) (sc : Num)
    (hq : quantiseScale x = .ok (m, s)) :
    ∃ r1 r2, reducedQuantiseScale x = .ok (r1, r2) ∧
      reduced_quantise_scale sc (.py m) (.py s) = .ok (.py r1, .py r2) := by
  unfold reducedQuantiseScale
  rw [hq]
  have h2 : ∀ v : Int, v >>> 16 = v / 65536 := fun v => by rw [Int.shiftRight_eq_div_pow]; rfl
  simp only [h2]
  by_cases hm : m < 2147418112 <;> by_cases hs : 0 ≤ s - 16 ∧ s - 16 < 64
  all_goals
    py_exec [reduced_quantise_scale, if_pos, if_neg, hm, hs]
    first
      | exact ⟨_, _, rfl, rfl⟩
      | (refine ⟨_, _, rfl, ?_⟩; py_finish)

/-- outcome of the translated pair-returning function vs. the model's -/
def AgreesPair (s : M (Num × Num)) (m : Except Scaling.Err (Int × Int)) : Prop :=
  match s, m with
  | .ok p, .ok q => p.1.v = q.1 ∧ p.2.v = q.2
  | .error e, .error f => errRel e f
  | _, _ => False

/-- `quantise_pooling_scale(nr_kernel_elements, rescale_bits)`: everything after
    `_, k = math.frexp(nr_kernel_elements - 1)`, with `k` the bit length the model assigns to it
    (`|nr_kernel_elements - 1| < 2^53`, where `frexp` of the integer is exact) -/
theorem src_quantise_pooling_scale_eq_model (n rb : Int) (hx : (n - 1).natAbs < 2 ^ 53) :
    AgreesPair (quantise_pooling_scale (.py n) (.py rb) (.py (bitLength (n - 1).natAbs : Nat)))
      (quantisePoolingScale n rb) := by
  unfold quantisePoolingScale
  have hx' : ¬ (n - 1).natAbs ≥ 2 ^ 53 := by omega
  have hk : (0 : Int) ≤ (bitLength (n - 1).natAbs : Nat) := Int.natCast_nonneg _
  simp only [hx', if_false]
  generalize ((bitLength (n - 1).natAbs : Nat) : Int) = k at *
  py_exec [quantise_pooling_scale, errRel]
  unfold AgreesPair
  py_finish

end VelaVerif.Props.C09Src
