import VelaVerif.Lemmas.StridedSliceRef
/-!
# C01 — STRIDED_SLICE: what the reference semantics of the slice specification guarantees (round 5)

`Spec/StridedSliceRef.lean` is the transcription of the TensorFlow Lite reference (validated against NumPy's basic indexing
by the `ssref` stream of `harness/c01_ssmask.py`). The theorems below state, for **every** specification and shape, the two
properties that the seeded change C01-r5m2 and the defect repaired by patch C01-45 violate in the compiler:

* `new_axis_consumes_no_input_dimension`: the effective dimensions that are not inserted by a new-axis position are exactly
  the input dimensions, in order — so a position behind a new axis addresses input dimension `position - #new axes before`,
  and its negative values count from the end of *that* dimension (`negative_begin_counts_from_its_own_dimension`);
* `inputWindow_inside`: the window a unit-stride slice reads has one entry per input dimension and lies inside the tensor
  (out-of-range begin / end values are clamped, never carried into the window).

The real `TFLiteSemantic.constraint_slice_ranges` is compared with `inputWindow` on every generated specification (stream
`sswin`); nothing here is a statement about the Python code.
-/
namespace VelaVerif.Props.C01StridedSlice
open VelaVerif.StridedSliceRef

/-- Every input dimension is addressed by exactly one effective dimension, in order; the dimensions inserted by new-axis
    positions consume none. -/
theorem new_axis_consumes_no_input_dimension (s : Spec) (shape : List Nat) (ax : List Axis) (h : axes s shape = .ok ax) :
    (ax.filter (fun a => !a.isNew)).map (·.dim) = shape := by
  unfold axes at h
  split at h
  · cases h
  · split at h
    · cases h
    · exact build_dims _ _ _ _ _ _ _ _ h

/-- one effective dimension with unit stride that yields at least one element (and, when shrunk, reads an existing element):
    the elements it takes are `startIdx … startIdx + count - 1`, all inside the dimension -/
theorem axis_window_inside (a : Axis) (off : Bool) (hs : a.stride = 1) (hc : a.count off ≠ 0)
    (hsh : a.shrink = true → 0 ≤ a.startIdx ∧ a.startIdx < (a.dim : Int)) :
    0 ≤ a.startIdx ∧ a.startIdx < a.startIdx + (a.count off : Int) ∧ a.startIdx + (a.count off : Int) ≤ (a.dim : Int) := by
  have hstart : 0 ≤ a.startIdx ∧ a.startIdx ≤ (a.dim : Int) := by
    unfold Axis.startIdx
    simp only [hs]
    have := clamp_bounds (if a.start < 0 then a.start + (a.dim : Int) else a.start) 0 (a.dim : Int) (by omega)
    split <;> simp_all <;> omega
  have hstop : a.stopIdx off ≤ (a.dim : Int) ∨ (a.shrink = true ∧ a.stopIdx off = a.startIdx + 1) := by
    unfold Axis.stopIdx
    simp only [hs]
    cases hshr : a.shrink with
    | true => right; simp
    | false =>
      left
      simp only [Bool.false_eq_true, if_false]
      split
      · simp
      · rename_i hm
        have hb := fun v => clamp_bounds v 0 (a.dim : Int) (by omega)
        simp only [show (1 : Int) > 0 by omega, if_true]
        exact (hb _).2
  have hcount : (a.count off : Int) = a.stopIdx off - a.startIdx ∧ a.stopIdx off - a.startIdx > 0 := by
    unfold Axis.count at hc ⊢
    simp only [hs] at hc ⊢
    simp only [show (1 : Int) > 0 by omega, if_true, Int.add_sub_cancel, Int.ediv_one] at hc ⊢
    omega
  rcases hstop with h | ⟨hsr, h⟩
  · omega
  · have := hsh hsr
    omega

/-- a negative begin value counts from the end of the dimension **its position addresses** (the `dim` of the effective
    dimension the position was paired with by `build`), not from any other one -/
theorem negative_begin_counts_from_its_own_dimension (a : Axis) (hm : a.beginMask = false) (hs : a.stride > 0)
    (hneg : a.start < 0) (hin : -(a.dim : Int) ≤ a.start) : a.startIdx = a.start + (a.dim : Int) := by
  unfold Axis.startIdx clamp
  simp only [hneg, hs, hm, if_true, Bool.false_eq_true, if_false]
  split
  · omega
  · split <;> omega


/-- **The read window has one entry per input dimension and lies inside the tensor**, whatever new-axis / shrink positions,
    masks, negative or out-of-range values the specification carries. -/
theorem inputWindow_inside (s : Spec) (shape : List Nat) (w : List (Int × Int)) (h : inputWindow s shape = some w) :
    w.length = shape.length ∧
    ∀ p ∈ w.zip shape, 0 ≤ p.1.1 ∧ p.1.1 < p.1.2 ∧ p.1.2 ≤ (p.2 : Int) := by
  unfold inputWindow at h
  split at h
  · cases h
  · rename_i ax hax
    split at h
    · cases h
    · rename_i hgood
      have hdims := new_axis_consumes_no_input_dimension s shape ax hax
      cases h
      refine ⟨by rw [← hdims]; simp, ?_⟩
      rw [← hdims, zip_map_same]
      intro p hp
      obtain ⟨a, ha, rfl⟩ := List.mem_map.mp hp
      have hmem : a ∈ ax := (List.mem_filter.mp ha).1
      simp only [List.any_eq_true, not_exists, not_and, Bool.not_eq_true] at hgood
      have hg := hgood a hmem
      simp only [Bool.or_eq_false_iff, decide_eq_false_iff_not, Bool.and_eq_false_imp, ne_eq] at hg
      obtain ⟨⟨hst, hcnt⟩, hshr⟩ := hg
      have hst' : a.stride = 1 := Decidable.not_not.mp hst
      have hcnt' : a.count s.offset ≠ 0 := by simpa using hcnt
      refine axis_window_inside a s.offset hst' hcnt' ?_
      intro hs
      have := hshr hs
      omega

-- the demonstration of seeded change C01-r5m2: x [8,6,4], begin [0,0,-3,0], end [0,8,-1,4], new_axis_mask 1 -> [1,8,2,4]
def demo : Spec := { begin := [0, 0, -3, 0], end_ := [0, 8, -1, 4], strides := [1, 1, 1, 1], newAxisMask := 1 }
example : inputWindow demo [8, 6, 4] = some [(0, 8), (3, 5), (0, 4)] := by decide
example : (resolve demo [8, 6, 4]).toOption.map (·.outShape) = some [1, 8, 2, 4] := by decide
-- shrink position behind a new axis, masks, a value that is clamped, a specification shorter than the rank
example : inputWindow { begin := [5, -1, -9], end_ := [0, 0, 100], strides := [1, 1, 1], newAxisMask := 1, shrinkAxisMask := 2 } [4, 6, 3]
    = some [(3, 4), (0, 6), (0, 3)] := by decide
example : inputWindow { begin := [1], end_ := [0], strides := [1], endMask := 1 } [4, 6] = some [(1, 4), (0, 6)] := by decide
-- strides other than 1 and empty slices have no window
example : inputWindow { begin := [0], end_ := [4], strides := [2] } [4] = none := by decide
example : inputWindow { begin := [3], end_ := [1], strides := [1] } [4] = none := by decide

end VelaVerif.Props.C01StridedSlice
