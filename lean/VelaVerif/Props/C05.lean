import VelaVerif.Lemmas.AllocSpec
import VelaVerif.Model.Alloc
namespace VelaVerif.Props.C05
open VelaVerif.Spec.Alloc

theorem spec_checker_sound_complete (ps : List Placed) (total : Nat) :
    ok ps total = true ↔ Ok ps total := ok_iff ps total

end VelaVerif.Props.C05
