import VelaVerif.Lemmas.AllocSpec
import VelaVerif.Lemmas.AllocGreedy
import VelaVerif.Lemmas.AllocLinear
import VelaVerif.Lemmas.AllocHc
import VelaVerif.Lemmas.AllocHcErr
import VelaVerif.Lemmas.AllocVerify
import VelaVerif.Lemmas.AllocHcTotal
import VelaVerif.Lemmas.LiveRangeAlign
/-!
# C05 — tensor allocators never overlap live buffers and report their true footprint

Property theorems only.  Model: `Model/Alloc.lean` (hand transcription of `greedy_allocation.py`,
`hillclimb_allocation.py`, `tensor_allocation.py`), Spec: `Spec/Alloc.lean`, helper lemmas:
`Lemmas/AllocSpec.lean`, `Lemmas/AllocGreedy.lean`, `Lemmas/AllocLinear.lean`, `Lemmas/AllocHc.lean`.
All statements are for arbitrary lists (any number of ranges, any times, sizes, alignments).
-/
namespace VelaVerif.Props.C05
open VelaVerif.Alloc VelaVerif.Spec.Alloc

/-! ## The Spec checker that judges the implementation's outputs -/

/-- The executable verdict `Spec.Alloc.ok` (applied by the harness to the addresses and total
    returned by the real allocators) holds exactly when the property holds. -/
theorem spec_checker_sound_complete (ps : List Placed) (total : Nat) :
    ok ps total = true ↔ Ok ps total := ok_iff ps total

theorem spec_noOverlap_checker (ps : List Placed) : noOverlapB ps = true ↔ NoOverlap ps :=
  noOverlapB_iff ps

theorem spec_aligned_checker (ps : List Placed) : alignedB ps = true ↔ Aligned ps := alignedB_iff ps

theorem spec_total_checker (ps : List Placed) (total : Nat) :
    (total == highestEnd ps) = true ↔ IsHighestEnd ps total := by
  rw [beq_iff_eq]; exact highestEnd_iff ps total

theorem spec_peak_checker (ps : List Placed) (total : Nat) :
    coversPeakB ps total = true ↔ CoversPeak ps total := coversPeakB_iff ps total

/-- "alive at a common time step" is symmetric, so `NoOverlap` does not depend on the order in
    which the buffers are listed. -/
theorem spec_noOverlap_perm {ps qs : List Placed} (h : ps.Perm qs) : NoOverlap ps ↔ NoOverlap qs :=
  List.Perm.pairwise_iff (fun h => noConflict_symm h) h

/-- Footprint ≥ peak for *any* allocation that is overlap free, shares nothing and stays below
    `total` (used for HillClimb below). -/
theorem spec_disjoint_covers_peak (ps : List Placed) (total : Nat) (hcls : ∀ p ∈ ps, p.cls = 0)
    (hno : NoOverlap ps) (hT : ∀ p ∈ ps, p.addr + p.size ≤ total) : CoversPeak ps total :=
  coversPeak_of_noOverlap ps total hcls hno hT

/-! ## `verify_allocation` (the check Vela itself runs after Greedy and HillClimb) -/

/-- **verifyAllocation_sound / complete**: the transcription of `tensor_allocation.verify_allocation`
    (time-slot loop over "new" ranges, first overlapping tensor pair, `equivalent` exemption) raises
    no error **iff** every CPU tensor is aligned and the placements satisfy the Spec's `NoOverlap` —
    for ranges with one tensor each, positive sizes and a positive alignment. -/
theorem verifyAllocation_sound_complete (lrs : List (VLr × VTens)) (alignment : Nat)
    (hal : 0 < alignment) (hne : lrs ≠ []) (hone : ∀ p ∈ lrs, p.1.tens = [p.2])
    (hsz : ∀ p ∈ lrs, 0 < p.1.size) :
    verifyAllocation (lrs.map Prod.fst) alignment = .ok () ↔
      (∀ p ∈ lrs, p.2.cpu = true → alignment ∣ p.2.addr) ∧
      NoOverlap (lrs.map (fun p => vPlaced p.1 p.2)) :=
  verifyAllocation_iff lrs alignment hal hne hone hsz

/-- the test-suite example: two ranges alive together at overlapping addresses are rejected -/
example : verifyAllocation [⟨4, 9, 10000, [⟨16, 1, false⟩]⟩, ⟨7, 13, 2000, [⟨32, 2, false⟩]⟩] 16 =
    .error .alloc := rfl
example : verifyAllocation [⟨4, 9, 10000, [⟨16, 1, false⟩]⟩, ⟨7, 13, 2000, [⟨160000, 2, false⟩]⟩] 16 =
    .ok () := rfl

/-! ## Greedy -/

/-- every range is placed exactly once -/
theorem greedy_places_all (lrs : List LR) (pl : List (LR × Nat)) (total : Nat)
    (h : greedy lrs = .ok (pl, total)) : (pl.map Prod.fst).Perm lrs := by
  unfold greedy at h
  split at h
  · cases h
  · injection h with h
    have h1 := congrArg Prod.fst h
    have h2 := congrArg Prod.snd h
    simp only at h1 h2
    rw [← h1, greedyLoop_map_fst]
    exact isort_perm _ _

/-- **greedy_disjoint**: any two ranges alive at a common time step get disjoint byte intervals,
    for every list of ranges with positive sizes (alignment 0 is rejected by the model as by the
    code: ZeroDivisionError). -/
theorem greedy_disjoint (lrs : List LR) (pl : List (LR × Nat)) (total : Nat)
    (h : greedy lrs = .ok (pl, total)) (hsz : ∀ lr ∈ lrs, 0 < lr.size) :
    NoOverlap (pl.map toPlaced) := by
  unfold greedy at h
  split at h
  · cases h
  · rename_i hal
    injection h with h
    have h1 := congrArg Prod.fst h
    have h2 := congrArg Prod.snd h
    simp only at h1 h2
    rw [← h1]
    refine (greedyLoop_ok (isort greedyLe lrs) [] 0 ?_ ?_ List.Pairwise.nil (by simp)).2
    · exact (isort_pairwise greedyLe greedyLe_trans greedyLe_total lrs).imp
        (fun {a b} hab => greedyLe_start a b hab)
    · intro lr hlr
      rw [mem_isort] at hlr
      refine ⟨hsz lr hlr, ?_⟩
      rw [Bool.not_eq_true, List.any_eq_false] at hal
      have := hal lr hlr
      simp only [beq_iff_eq] at this
      omega

/-- **greedy_aligned** -/
theorem greedy_aligned (lrs : List LR) (pl : List (LR × Nat)) (total : Nat)
    (h : greedy lrs = .ok (pl, total)) : Aligned (pl.map toPlaced) := by
  unfold greedy at h
  split at h
  · cases h
  · injection h with h
    have h1 := congrArg Prod.fst h
    have h2 := congrArg Prod.snd h
    simp only at h1 h2
    intro p hp
    obtain ⟨q, hq, rfl⟩ := List.mem_map.1 hp
    rw [← h1] at hq
    exact greedyLoop_aligned _ _ _ q hq

/-- **greedy_total**: the reported total is `max (addr + round_up(size, align))`. -/
theorem greedy_total (lrs : List LR) (pl : List (LR × Nat)) (total : Nat)
    (h : greedy lrs = .ok (pl, total)) : total = paddedEnd (pl.map toPlaced) := by
  unfold greedy at h
  split at h
  · cases h
  · injection h with h
    have h1 := congrArg Prod.fst h
    have h2 := congrArg Prod.snd h
    simp only at h1 h2
    rw [← h1, ← h2, greedyLoop_total]
    omega

/-- … hence never below the highest end address (an over-report only) … -/
theorem greedy_total_ge_highestEnd (lrs : List LR) (pl : List (LR × Nat)) (total : Nat)
    (h : greedy lrs = .ok (pl, total)) : highestEnd (pl.map toPlaced) ≤ total := by
  rw [greedy_total lrs pl total h]
  rcases le_paddedEnd (pl.map toPlaced) with hle | ⟨p, hp, hz⟩
  · exact hle
  · exfalso
    obtain ⟨q, hq, rfl⟩ := List.mem_map.1 hp
    have hperm := greedy_places_all lrs pl total h
    have hmem : q.1 ∈ lrs := hperm.mem_iff.1 (List.mem_map_of_mem hq)
    unfold greedy at h
    split at h
    · cases h
    · rename_i hal
      rw [Bool.not_eq_true, List.any_eq_false] at hal
      have := hal q.1 hmem
      simp only [beq_iff_eq] at this
      exact this hz

/-- … and exactly the highest end address when every size is a multiple of its alignment
    (what `Tensor.storage_size()` guarantees for the default 16-byte alignment). -/
theorem greedy_total_exact (lrs : List LR) (pl : List (LR × Nat)) (total : Nat)
    (h : greedy lrs = .ok (pl, total)) (hmul : ∀ lr ∈ lrs, 0 < lr.align ∧ lr.align ∣ lr.size) :
    IsHighestEnd (pl.map toPlaced) total := by
  rw [← highestEnd_iff, greedy_total lrs pl total h, paddedEnd_eq]
  congr 1
  rw [List.map_map]
  apply List.map_congr_left
  intro q hq
  have hperm := greedy_places_all lrs pl total h
  have hmem : q.1 ∈ lrs := hperm.mem_iff.1 (List.mem_map_of_mem hq)
  obtain ⟨h1, h2⟩ := hmul q.1 hmem
  simp only [Function.comp, pad, toPlaced, spec_roundUp_eq, roundUp_of_dvd _ _ h1 h2]

/-- The whole property for Greedy under that hypothesis. -/
theorem greedy_ok (lrs : List LR) (pl : List (LR × Nat)) (total : Nat)
    (h : greedy lrs = .ok (pl, total)) (hsz : ∀ lr ∈ lrs, 0 < lr.size)
    (hmul : ∀ lr ∈ lrs, 0 < lr.align ∧ lr.align ∣ lr.size) : Ok (pl.map toPlaced) total :=
  ⟨greedy_disjoint lrs pl total h hsz, greedy_aligned lrs pl total h, greedy_total_exact lrs pl total h hmul⟩

/-- The literal "total equals the highest end address" is false of the unchanged code whenever a
    size is not a multiple of its alignment: one range, size 16, alignment 64 (known finding
    `total==max(addr+round_up(size,align))`). -/
theorem greedy_total_witness :
    greedy [⟨0, 0, 16, 64, 0, 0⟩] = .ok ([(⟨0, 0, 16, 64, 0, 0⟩, 0)], 64) ∧
    highestEnd ([((⟨0, 0, 16, 64, 0, 0⟩ : LR), 0)].map toPlaced) = 16 := ⟨rfl, by decide⟩

/-- Without `0 < size` Greedy does overlap (zero-sized entries reset `current_offset`): the
    hypothesis of `greedy_disjoint` is needed.  (`storage_size()` never returns 0.) -/
theorem greedy_size0_witness :
    ∃ pl total, greedy [⟨0, 9, 16, 16, 0, 0⟩, ⟨0, 1, 16, 16, 1, 1⟩, ⟨1, 9, 0, 16, 2, 2⟩,
        ⟨1, 9, 16, 16, 3, 3⟩] = .ok (pl, total) ∧
      noOverlapB (pl.map toPlaced) = false := by
  refine ⟨_, _, rfl, ?_⟩
  decide

/-! ## LinearAlloc -/

/-- **linear_disjoint**: distinct ranges get disjoint byte intervals *regardless of their live
    times*, unless they were declared equivalent (equal weight-compression config or equal
    equivalence id — summarised by any class assignment `cls` satisfying `LinHyp`), in which case
    they share one address. -/
theorem linear_disjoint (sizes : List Nat) (tens : List LTens) (cls : Nat → Nat) (gran : Nat)
    (hg : 0 < gran) (hyp : LinHyp sizes tens cls) (addrs : List (Nat × Nat)) (total : Nat)
    (h : linear sizes tens gran = .ok (addrs, total)) (times : Nat → Nat × Nat) :
    NoOverlap (addrs.map (linPlaced sizes times cls gran)) := by
  obtain ⟨alloc, fresh, inv⟩ := linear_inv sizes tens cls gran hyp addrs total h
  exact List.Pairwise.imp (R := fun a b => Spec.Alloc.Disjoint a b ∨ Shared a b) (S := NoConflict)
    (fun h _ => h) (linInv_noOverlap sizes tens cls gran hg _ fresh inv times)

/-- **linear_aligned**: every address is a multiple of the allocation granularity. -/
theorem linear_aligned (sizes : List Nat) (tens : List LTens) (cls : Nat → Nat) (gran : Nat)
    (hyp : LinHyp sizes tens cls) (addrs : List (Nat × Nat)) (total : Nat)
    (h : linear sizes tens gran = .ok (addrs, total)) (times : Nat → Nat × Nat) :
    Aligned (addrs.map (linPlaced sizes times cls gran)) := by
  obtain ⟨alloc, fresh, inv⟩ := linear_inv sizes tens cls gran hyp addrs total h
  intro p hp
  obtain ⟨e, he, rfl⟩ := List.mem_map.1 hp
  exact inv.gran_addr e he

/-- **linear_total**: the total is `max (addr + round_up(size, granularity))` (the sum of the
    padded sizes of the ranges that received a region of their own). -/
theorem linear_total (sizes : List Nat) (tens : List LTens) (cls : Nat → Nat) (gran : Nat)
    (hyp : LinHyp sizes tens cls) (addrs : List (Nat × Nat)) (total : Nat)
    (h : linear sizes tens gran = .ok (addrs, total)) (times : Nat → Nat × Nat) :
    total = paddedEnd (addrs.map (linPlaced sizes times cls gran)) := by
  obtain ⟨alloc, fresh, inv⟩ := linear_inv sizes tens cls gran hyp addrs total h
  exact linInv_total sizes tens cls gran _ fresh inv times

/-- same padding witness for LinearAlloc: one range of 16 bytes, granularity 64 → total 64 -/
theorem linear_total_witness :
    linear [16] [⟨0, 0, 0, false, 0⟩] 64 = .ok ([(0, 0)], 64) := rfl

/-! ## HillClimb -/

/-- **hcAllocateLr_fits**: at the address `allocate_lr` returns, no allocated neighbour overlaps
    `[a, a+size)`, and the address honours the alignment (it is 0 or a `round_up(_, align)`). -/
theorem hcAllocateLr_fits (infos : Array Info) (dyn : Array Dyn) (id a : Nat) (p : Option Nat)
    (h : hcAllocateLr infos dyn id = .ok (a, p)) :
    (∀ j ∈ (getInfo infos id).nbrs, ∀ a2, (getDyn dyn j).addr = some a2 →
      (getDyn dyn j).endAddr ≤ a ∨
      ¬(a2 < a + (getInfo infos id).lr.size ∧ a < (getDyn dyn j).endAddr)) ∧
    (getInfo infos id).lr.align ∣ a :=
  VelaVerif.Alloc.hcAllocateLr_fits infos dyn id a p h

/-- **`allocate_lr` terminates**: the `while not fits` loop ends within `len(neighbours) + 1`
    sweeps (measure: allocated neighbours whose rounded end lies above the address), for every
    state of the other ranges. -/
theorem hcAllocateLr_terminates (infos : Array Info) (dyn : Array Dyn) (id : Nat) :
    hcAllocateLr infos dyn id ≠ .error .lrfuel := hcAllocateLr_no_fuel_error infos dyn id

/-- **allocate_indices is correct for every index list** (any permutation, any list at all, complete
    or aborted by the early `break`): afterwards the allocated ranges that overlap in time are
    pairwise disjoint, aligned, and `end_address = address + size`.  This is what makes the final
    result independent of the random swaps. -/
theorem hc_allocate_indices_disjoint (lrs : List LR) (hw : WellIds lrs) (dyn : Array Dyn)
    (hsz : dyn.size = lrs.length) (ixs : List Nat) (best : Nat) (dyn' : Array Dyn) (s' : Nat)
    (h : hcAllocateIndices (mkInfos lrs) dyn ixs best = .ok (dyn', s')) : HcInv lrs dyn' :=
  hcAllocateIndices_inv lrs hw dyn hsz ixs best dyn' s' h

/-- **hc_result_disjoint — for every `draws` list**, every iteration limit and memory limit: the
    addresses finally returned are one per range and any two ranges alive at a common time step
    occupy disjoint byte intervals. -/
theorem hc_result_disjoint (lrs : List LR) (hw : WellIds lrs) (maxIter : Option Nat) (memLimit : Nat)
    (draws : List Nat) (res : HcResult) (h : hcAllocate lrs maxIter memLimit draws = .ok res) :
    res.addrs.length = lrs.length ∧ NoOverlap (hcPlaced lrs res.addrs) := by
  obtain ⟨dyn, inv, hm⟩ := hcAllocate_snap lrs hw maxIter memLimit draws res h
  obtain ⟨h1, h2, _⟩ := hcInv_spec lrs dyn inv res.addrs hm
  exact ⟨h1, h2⟩

/-- **hc_aligned** -/
theorem hc_aligned (lrs : List LR) (hw : WellIds lrs) (maxIter : Option Nat) (memLimit : Nat)
    (draws : List Nat) (res : HcResult) (h : hcAllocate lrs maxIter memLimit draws = .ok res) :
    Aligned (hcPlaced lrs res.addrs) := by
  obtain ⟨dyn, inv, hm⟩ := hcAllocate_snap lrs hw maxIter memLimit draws res h
  exact (hcInv_spec lrs dyn inv res.addrs hm).2.2

/-- **hc_total**: the total computed by `hillclimb_allocate_live_ranges` is exactly the highest
    end address (no padding). -/
theorem hc_total (lrs : List LR) (addrs : List Nat) :
    IsHighestEnd (hcPlaced lrs addrs) (hcTotal lrs addrs) := by
  rw [← highestEnd_iff]; exact hcTotal_eq lrs addrs

/-- The whole property for HillClimb, for every draws list. -/
theorem hc_ok (lrs : List LR) (hw : WellIds lrs) (maxIter : Option Nat) (memLimit : Nat)
    (draws : List Nat) (res : HcResult) (h : hcAllocate lrs maxIter memLimit draws = .ok res) :
    Ok (hcPlaced lrs res.addrs) (hcTotal lrs res.addrs) :=
  ⟨(hc_result_disjoint lrs hw maxIter memLimit draws res h).2,
   hc_aligned lrs hw maxIter memLimit draws res h, hc_total lrs res.addrs⟩

/-- **hc_peak**: the footprint is never below the sum of simultaneously live sizes, at any time;
    in particular never below `min_required_size`. -/
theorem hc_peak (lrs : List LR) (hw : WellIds lrs) (maxIter : Option Nat) (memLimit : Nat)
    (draws : List Nat) (res : HcResult) (h : hcAllocate lrs maxIter memLimit draws = .ok res) :
    CoversPeak (hcPlaced lrs res.addrs) (hcTotal lrs res.addrs) ∧
    minRequired lrs ≤ hcTotal lrs res.addrs := by
  obtain ⟨hlen, hno⟩ := hc_result_disjoint lrs hw maxIter memLimit draws res h
  have hcov : CoversPeak (hcPlaced lrs res.addrs) (hcTotal lrs res.addrs) := by
    apply coversPeak_of_noOverlap _ _ _ hno
    · exact (hc_total lrs res.addrs).1
    · intro p hp
      unfold hcPlaced at hp
      obtain ⟨q, _, rfl⟩ := List.mem_map.1 hp
      rfl
  refine ⟨hcov, minRequired_le lrs _ ?_⟩
  intro t
  rw [← liveSum_hcPlaced lrs res.addrs hlen t]
  exact hcov t

/-- **hc_terminates**: with `searchFuel = max(maxIter, 500) + 500·best₀ + 1` iterations the
    `search` loop always ends by its own condition — for every draws list, whatever the
    reorderings and allocations do (potential `500·best + max(maxIter, last+500) − i` drops in
    every iteration: `last` only moves when `best` strictly decreases). -/
theorem hc_search_terminates (infos : Array Info) (minReq memLimit maxIter : Nat) (dyn : Array Dyn)
    (indices : List Nat) (best : Nat) (draws : List Nat) :
    hcSearch infos minReq memLimit maxIter (searchFuel maxIter best) dyn indices indices best 0 0
      (snapshot dyn) draws ≠ .ok none := by
  apply hcSearch_terminates
  unfold searchFuel
  simp only [VelaVerif.Gen.AllocConst.hcMinIterationsImprove]
  omega

/-- … so the model never reports fuel exhaustion, neither of the search loop nor of the
    `allocate_lr` loop: every `Err` the model returns is a Python exception, an exhausted oracle
    list, or one of the two residual markers `chain` / `unalloc` (see `design.d/C05.md`). -/
theorem hc_terminates (lrs : List LR) (maxIter : Option Nat) (memLimit : Nat) (draws : List Nat) :
    hcAllocate lrs maxIter memLimit draws ≠ .error .fuel ∧
    hcAllocate lrs maxIter memLimit draws ≠ .error .lrfuel :=
  hcAllocate_no_fuel lrs maxIter memLimit draws

/-- … and the number of executed iterations is at most that bound. -/
theorem hc_iterations_bound (infos : Array Info) (minReq memLimit maxIter : Nat) (dyn : Array Dyn)
    (indices : List Nat) (best : Nat) (draws : List Nat) (r : SearchResult)
    (h : hcSearch infos minReq memLimit maxIter (searchFuel maxIter best) dyn indices indices best 0 0
      (snapshot dyn) draws = .ok (some r)) :
    r.iters ≤ max maxIter 500 + 500 * best + 1 := by
  have := hcSearch_iters _ _ _ _ _ _ _ _ _ _ _ _ _ _ h
  unfold searchFuel at this
  simp only [VelaVerif.Gen.AllocConst.hcMinIterationsImprove] at this
  omega

/-- **hc_outcomes / hc_no_randint_error**: on valid input — ids are positions, at least one range,
    alignments > 0, `n · max(size + align) ≤ 2^63` — and for every draws list, iteration limit and
    memory limit, the model of `allocate_live_ranges` returns addresses (which then satisfy
    `hc_ok`/`hc_peak`); the only other model outcome is that the supplied oracle list is too short
    (not a Python outcome).  In particular no `random.randint` is ever called on an empty range
    (`attempt_bottleneck_fix` returns without reordering when `turn_list` holds fewer than two
    turns), and all three Python loops terminate: the `search` loop (`hc_search_terminates`), the
    `while not fits` loop of `allocate_lr` (`hcAllocateLr_terminates`) and the predecessor walk of
    `add_predecessor_turns` (stale predecessors always point to a range allocated in a later run,
    or earlier in the same run, so the walk never revisits a range); `indices[turn]` never raises
    IndexError (`indices` stays a permutation, every stale `turn` is `< n`) and no `-1` address is
    ever returned (only complete allocations are stored). -/
theorem hc_outcomes (lrs : List LR) (hw : WellIds lrs) (hne : lrs ≠ []) (C : Nat)
    (hC : ∀ lr ∈ lrs, lr.size + lr.align ≤ C ∧ 0 < lr.align) (hbound : lrs.length * C ≤ 2 ^ 63)
    (maxIter : Option Nat) (memLimit : Nat) (draws : List Nat) :
    (∃ res, hcAllocate lrs maxIter memLimit draws = .ok res) ∨
    hcAllocate lrs maxIter memLimit draws = .error .draws := by
  have h := hcAllocate_outcomes lrs hw hne C hC hbound maxIter memLimit draws
  cases hr : hcAllocate lrs maxIter memLimit draws with
  | ok res => exact Or.inl ⟨res, rfl⟩
  | error e =>
    rw [hr] at h
    right; rw [h]

/-- … in particular never Python's ValueError -/
theorem hc_no_randint_error (lrs : List LR) (hw : WellIds lrs) (hne : lrs ≠ []) (C : Nat)
    (hC : ∀ lr ∈ lrs, lr.size + lr.align ≤ C ∧ 0 < lr.align) (hbound : lrs.length * C ≤ 2 ^ 63)
    (maxIter : Option Nat) (memLimit : Nat) (draws : List Nat) :
    hcAllocate lrs maxIter memLimit draws ≠ .error .value := by
  intro h
  rcases hc_outcomes lrs hw hne C hC hbound maxIter memLimit draws with ⟨res, hr⟩ | hr
  · rw [hr] at h; cases h
  · rw [hr] at h; cases h

/-- **hc_perm**: every reordering step (`attempt_bottleneck_fix`, one or two swaps) keeps `indices` a
    permutation of `0..n-1`, in every state the search loop can be in (`FixPre`). -/
theorem hc_perm (lrs : List LR) (hw : WellIds lrs) (dyn : Array Dyn) (run : Nat → Nat)
    (pre : FixPre lrs.length dyn run) (indices : List Nat) (hperm : indices.Perm (List.range lrs.length))
    (stuck : Nat) (draws : List Nat) (ind' : List Nat) (d' : List Nat)
    (h : hcFix (mkInfos lrs) dyn indices stuck draws = .ok (ind', d')) :
    ind'.Perm (List.range lrs.length) :=
  (sat_of_eq (hcFix_sat lrs hw dyn run pre indices hperm stuck draws)).2 _ h

/- Before the repair (`fixed:` entry in known_findings.txt) `hc_no_randint_error` was false:
   `attempt_bottleneck_fix` reached `random.randint(0, len(turn_list) - 2)` with a single entry in
   `turn_list` (stale `turn` numbers left by an aborted `allocate_indices` coincide) and died with
   ValueError; the model of that code returned `Err.value` on
     hcAllocate [⟨1,1,80,64,0,0⟩, ⟨4,4,48,128,1,1⟩, ⟨3,3,32,128,2,2⟩, ⟨2,4,80,32,3,3⟩, ⟨1,2,32,128,4,4⟩]
       none (2^32) [15, 1, 0, 80, 0, 0, 17, 0, 1, 23, 0, 0, 56, 0]
   (former theorem `hc_no_randint_error_witness`, `decide +kernel`).  On the same input the repaired
   model skips the reordering in the fifth iteration and goes on (the 14 draws then run out): -/
example :
    (match hcAllocate [⟨1, 1, 80, 64, 0, 0⟩, ⟨4, 4, 48, 128, 1, 1⟩, ⟨3, 3, 32, 128, 2, 2⟩,
        ⟨2, 4, 80, 32, 3, 3⟩, ⟨1, 2, 32, 128, 4, 4⟩] none (2 ^ 32)
        [15, 1, 0, 80, 0, 0, 17, 0, 1, 23, 0, 0, 56, 0] with
      | .error .draws => true
      | _ => false) = true := by decide +kernel

/-! ## Non-vacuity -/

/-- four ranges, the fourth reuses the gap left by the expired first one -/
example : greedy [⟨0, 1, 32, 16, 0, 0⟩, ⟨0, 5, 48, 16, 1, 1⟩, ⟨2, 5, 16, 16, 2, 2⟩, ⟨3, 5, 16, 16, 3, 3⟩] =
    .ok ([(⟨0, 5, 48, 16, 1, 1⟩, 0), (⟨0, 1, 32, 16, 0, 0⟩, 48), (⟨2, 5, 16, 16, 2, 2⟩, 48),
          (⟨3, 5, 16, 16, 3, 3⟩, 64)], 80) := rfl

/-- two ranges sharing a weight-compression config, one on its own -/
example : linear [32, 32, 16] [⟨0, 7, 1, false, 10⟩, ⟨1, 7, 1, false, 11⟩, ⟨2, 0, 0, false, 12⟩] 16 =
    .ok ([(0, 0), (1, 0), (2, 32)], 48) := rfl

example : LinHyp [32, 32, 16] [⟨0, 7, 1, false, 10⟩, ⟨1, 7, 1, false, 11⟩, ⟨2, 0, 0, false, 12⟩]
    (fun i => if i < 2 then 1 else 0) := by
  constructor
  intro x hx y hy
  simp only [List.mem_cons, List.not_mem_nil, or_false] at hx hy
  rcases hx with rfl | rfl | rfl <;> rcases hy with rfl | rfl | rfl <;> simp [Match]

/-- a hill-climb instance that needs a swap: the heuristic order gives 96 bytes, one swap (draws
    17, 0, 1) reaches the optimum 80 = `min_required_size` -/
example : (match hcAllocate [⟨1, 2, 32, 16, 0, 0⟩, ⟨2, 2, 48, 16, 1, 1⟩, ⟨0, 1, 16, 16, 2, 2⟩,
      ⟨0, 0, 48, 16, 3, 3⟩] none (2 ^ 32) [17, 0, 1] with
    | .ok r => r.addrs == [48, 0, 0, 16] && r.iters == 1 && r.drawsLeft.isEmpty
    | _ => false) = true := by decide +kernel

example : WellIds [⟨1, 2, 32, 16, 0, 0⟩, ⟨2, 2, 48, 16, 1, 1⟩, ⟨0, 1, 16, 16, 2, 2⟩, ⟨0, 0, 48, 16, 3, 3⟩] := by
  intro i hi
  simp only [List.length_cons, List.length_nil] at hi
  match i, hi with
  | 0, _ => rfl
  | 1, _ => rfl
  | 2, _ => rfl
  | 3, _ => rfl

/-- the hypotheses of `hc_outcomes` are met by that instance (`C = 64`) -/
example : ∀ lr ∈ ([⟨1, 2, 32, 16, 0, 0⟩, ⟨2, 2, 48, 16, 1, 1⟩, ⟨0, 1, 16, 16, 2, 2⟩, ⟨0, 0, 48, 16, 3, 3⟩] : List LR),
    lr.size + lr.align ≤ 64 ∧ 0 < lr.align := by decide

example : hcTotal [⟨1, 2, 32, 16, 0, 0⟩, ⟨2, 2, 48, 16, 1, 1⟩, ⟨0, 1, 16, 16, 2, 2⟩, ⟨0, 0, 48, 16, 3, 3⟩]
    [48, 0, 0, 16] = 80 := by decide

/-! ## Alignment requests reaching the allocators (`LiveRange.set_alignment`, `get_or_create_range`)

The allocators honour the alignment stored in the live range; these theorems say that the stored
alignment honours *every* request made for that range (first request creates it, later ones go
through `set_alignment`). -/

open VelaVerif.LiveRangeAlign in
/-- the stored alignment is at least every requested alignment -/
theorem alignment_ge_every_request (first : Nat) (rest : List Nat) :
    first ≤ finalAlignment first rest ∧ ∀ r ∈ rest, r ≤ finalAlignment first rest :=
  ⟨foldl_ge_acc rest first, fun r h => foldl_ge_mem rest first r h⟩

open VelaVerif.LiveRangeAlign in
/-- for power-of-two requests (what `--cpu-tensor-alignment` and the NPU quantum are) the stored
    alignment is a multiple of every request, so an address aligned to it honours all of them -/
theorem alignment_requests_honoured (first : Nat) (rest : List Nat)
    (hp : ∀ r ∈ first :: rest, ∃ i, r = 2 ^ i) :
    ∀ r ∈ first :: rest, r ∣ finalAlignment first rest := by
  intro r hr
  have hfin : finalAlignment first rest ∈ first :: rest := by
    rcases foldl_mem rest first with h | h
    · unfold finalAlignment; rw [h]; exact List.mem_cons_self ..
    · exact List.mem_cons_of_mem _ h
  obtain ⟨j, hj⟩ := hp _ hfin
  obtain ⟨i, hi⟩ := hp r hr
  have hle : r ≤ finalAlignment first rest := by
    rcases List.mem_cons.mp hr with rfl | hm
    · exact (alignment_ge_every_request _ rest).1
    · exact (alignment_ge_every_request first rest).2 r hm
  rw [hi, hj] at hle ⊢
  have : i ≤ j := by
    rcases Nat.lt_or_ge j i with hlt | hge
    · exact absurd hle (Nat.not_le.mpr (Nat.pow_lt_pow_right (by decide) hlt))
    · exact hge
  exact Nat.pow_dvd_pow 2 this

example : VelaVerif.LiveRangeAlign.finalAlignment 16 [128, 16, 64] = 128 := by decide
example : VelaVerif.LiveRangeAlign.honoursAll 128 [16, 128, 16, 64] = true := by decide

end VelaVerif.Props.C05
