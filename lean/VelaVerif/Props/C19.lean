import VelaVerif.Lemmas.FpMath
import VelaVerif.Lemmas.Lut
import VelaVerif.Lemmas.FpMathExp
import VelaVerif.Lemmas.LutHardswish
import VelaVerif.Gen.FpMathTables
import VelaVerif.Lemmas.SoftmaxTable
import VelaVerif.Lemmas.RsqrtTable
/-!
# C19 — lookup tables and compile-time fixed-point maths match their reference functions

Property theorems only.  Model: `Model/FpMath.lean`, `Model/Lut.lean` (hand transcription of
`fp_math.py` and of the integer LUT generators); reference: `Spec/Gemmlowp.lean` (gemmlowp / TFLite
with C semantics: `Int.tdiv`, two's-complement casts and masks); helper lemmas: `Lemmas/FpMath.lean`,
`Lemmas/Lut.lean`.  The constants quoted from the source (`Gen/FpMathTables.lean`) are regenerated on
every run, so the `decide`s over them are re-checked against the live code.
-/
namespace VelaVerif.Props.C19
open VelaVerif VelaVerif.FpMath VelaVerif.Lut

/-! ## the fixed-point primitives equal the gemmlowp reference on their whole domain -/

/-- `saturating_rounding_mul32` = gemmlowp `SaturatingRoundingDoublingHighMul<int32>` for **all** int32
    operands, including `INT_MIN × INT_MIN`: the Python floor division plus its "compensate for floor"
    step is exactly C's truncating division, and the result always fits int32 again. -/
theorem srdhm32_eq (a b : Int) (ha : inI32 a = true) (hb : inI32 b = true) :
    saturatingRoundingMul32 a b = .ok (Gemmlowp.srdhm32 a b) :=
  FpMath.srdhm32_eq a b ha hb

/-- … and it rejects (assert) everything outside int32 instead of computing something. -/
theorem srdhm32_rejects (a b : Int) (h : inI32 a = false ∨ inI32 b = false) :
    saturatingRoundingMul32 a b = .error .assert_ := by
  unfold saturatingRoundingMul32 chk32
  rcases h with h | h
  · simp [h]; rfl
  · cases ha : inI32 a <;> simp [h] <;> rfl

/-- `saturating_rounding_mul16` = gemmlowp `SaturatingRoundingDoublingHighMul<int16>`, all int16 operands -/
theorem srdhm16_eq (a b : Int) (ha : inI16 a = true) (hb : inI16 b = true) :
    saturatingRoundingMul16 a b = .ok (Gemmlowp.srdhm16 a b) :=
  FpMath.srdhm16_eq a b ha hb

/-- `saturating_mul16` = TFLite `SaturatingDoublingHighMul(int16, int16)`, all int16 operands -/
theorem sat_mul16_eq (a b : Int) (ha : inI16 a = true) (hb : inI16 b = true) :
    saturatingMul16 a b = .ok (Gemmlowp.sdhm16 a b) :=
  FpMath.sat_mul16_eq a b ha hb

/-- `rounding_divide_by_pot` = gemmlowp `RoundingDivideByPOT<int32>` for every int32 `x`, `0 ≤ exponent ≤ 31` -/
theorem rdbp_eq (x : Int) (e : Nat) (hx : inI32 x = true) (he : e ≤ 31) :
    roundingDivideByPot x e = .ok (Gemmlowp.roundingDivideByPOT x e) :=
  FpMath.rdbp_eq x e hx he

/-- and the reference (hence the Python) is "divide by 2^e, round to nearest, ties away from zero" -/
theorem rdbp_is_round_half_away (x : Int) (e : Nat) (he : e ≤ 31) :
    Gemmlowp.roundingDivideByPOT x e = Gemmlowp.roundHalfAwayDiv x e :=
  FpMath.rdbp_is_round_half_away x e he

/-- `shift_left32` / `shift_left16` = gemmlowp saturating `ShiftLeft`, any offset ≥ 0; the result is in range -/
theorem shift_left_sat (a : Int) (o : Nat) :
    (inI32 a = true → shiftLeft32 a o = .ok (Gemmlowp.shiftLeft32 a o) ∧ inI32 (Gemmlowp.shiftLeft32 a o) = true) ∧
    (inI16 a = true → shiftLeft16 a o = .ok (Gemmlowp.shiftLeft16 a o)) :=
  ⟨fun h => ⟨FpMath.shift_left32_eq a o h, FpMath.shift_left32_sat a o⟩, fun h => FpMath.shift_left16_eq a o h⟩

/-- a negative offset is rejected, never shifted the other way -/
theorem shift_left_rejects_negative (a o : Int) (h : o < 0) : shiftLeft32 a o = .error .assert_ :=
  FpMath.shift_left32_neg a o h

/-- `saturating_rounding_multiply_by_pot` = gemmlowp `SaturatingRoundingMultiplyByPOT<e>` for `0 ≤ e ≤ 31` -/
theorem srmbp_eq (x : Int) (e : Nat) (hx : inI32 x = true) (he : e ≤ 31) :
    saturatingRoundingMultiplyByPot x e = .ok (Gemmlowp.saturatingRoundingMultiplyByPOT x e) := by
  rw [FpMath.srmbp_eq x e hx he]
  unfold Gemmlowp.saturatingRoundingMultiplyByPOT
  by_cases h0 : e = 0
  · subst h0; simp
  · have h1 : (e : Int) > 0 := by omega
    simp [h0]

/-- `rescale` = gemmlowp `Rescale<dst>(FixedPoint<int32, src>)` in both directions -/
theorem rescale_eq (src dst x : Int) (hs : inI32 src = true) (hd : inI32 dst = true) (hx : inI32 x = true)
    (h1 : -31 ≤ src - dst) (h2 : src - dst ≤ 31) :
    rescale src dst x = .ok (Gemmlowp.rescale src dst x) :=
  FpMath.rescale_eq src dst x hs hd hx h1 h2

/-- `downscale_multiplier_int32_to_int16` never raises on an int32 argument, yields an int16 value, and it is
    the rounded high half, saturated -/
theorem downscale_ok (a : Int) (ha : inI32 a = true) :
    ∃ v, downscaleMultiplierInt32ToInt16 a = .ok v ∧ inI16 v = true ∧
      v = (if a ≥ 2147450879 then 32767 else (a + 32768) / 65536) :=
  FpMath.downscale_ok a ha

/-- `multiply_by_quantized_multiplier(x, scale, shift)` = TFLite `MultiplyByQuantizedMultiplier(x, scale, 31 - shift)`
    for every int32 multiplier, every shift `quantise_scale` can return except 63 (`0 ≤ shift ≤ 62`: right shifts up to
    31, the reference's domain) and every `x` whose pre-shifted value `x · 2^left` fits int32 (C: undefined otherwise;
    Python: the int32 assert fires, see `mbqm_rejects`). -/
theorem mbqm_eq (x scale shift : Int) (hs : inI32 scale = true) (hsh1 : 0 ≤ shift) (hsh2 : shift ≤ 62)
    (hfit : inI32 (x * 2 ^ (if 31 - shift > 0 then (31 - shift).toNat else 0)) = true) :
    multiplyByQuantizedMultiplier x scale shift =
      .ok (Gemmlowp.multiplyByQuantizedMultiplier x scale (31 - shift)) :=
  FpMath.mbqm_eq x scale shift hs hsh1 hsh2 hfit

/-- when the pre-shifted operand does not fit, the Python asserts instead of wrapping -/
theorem mbqm_rejects (x scale shift : Int)
    (hfit : inI32 (x * 2 ^ (if 31 - shift > 0 then (31 - shift).toNat else 0)) = false) :
    multiplyByQuantizedMultiplier x scale shift = .error .assert_ := by
  unfold multiplyByQuantizedMultiplier
  simp only []
  by_cases hpos : 31 - shift > 0
  · simp only [hpos, if_true] at hfit ⊢
    unfold saturatingRoundingMul32 chk32
    simp [hfit]; rfl
  · simp only [hpos, if_false] at hfit ⊢
    have e : x * 2 ^ (0:Int).toNat = x := by simp
    have e' : x * 2 ^ 0 = x := by simp
    rw [e]
    rw [e'] at hfit
    unfold saturatingRoundingMul32 chk32
    simp [hfit]; rfl


/-- `exp_on_interval_between_negative_one_quarter_and_0_excl` = the gemmlowp function of the same name on its
    whole domain `-2^29 ≤ a < 0` (Q0.31): no assert of the Python fires, no int32 addition of the C code wraps
    (the largest value reached is 2147483155 < 2^31, with 492 units of slack in the interval bound). -/
theorem exp_on_interval_eq (a : Int) (h1 : -536870912 ≤ a) (h2 : a < 0) :
    expOnIntervalBetweenNegativeOneQuarterAnd0Excl a = .ok (Gemmlowp.expOnInterval a) :=
  FpMath.expint_eq a h1 h2

/-- `exp_on_negative_values` = gemmlowp `exp_on_negative_values<int32, 5 integer bits>` for **every** int32 `a ≤ 0`:
    masking, rescale, the degree-4 polynomial and all seven barrel-shifter stages. -/
theorem exp_on_negative_eq (a : Int) (ha : inI32 a = true) (h0 : a ≤ 0) :
    expOnNegativeValues a = .ok (Gemmlowp.expOnNegativeValues a) :=
  FpMath.expneg_eq a ha h0

/-- positive arguments are rejected -/
theorem exp_on_negative_rejects_positive (a : Int) (h : a > 0) : ∃ e, expOnNegativeValues a = .error e := by
  unfold expOnNegativeValues chk32
  by_cases hi : inI32 a = true
  · have : ¬ (a ≤ 0) := by omega
    exact ⟨.assert_, by simp [hi, this]; rfl⟩
  · exact ⟨.assert_, by simp [hi]; rfl⟩

/-! ## look-up tables -/

/-- `convert_lrelu_to_lut`: for every int32 multiplier pair, shifts in `[0, 62]` and zero points such that the
    pre-shifted operand fits int32 (always the case for zero points inside the 8-bit range and shifts ≥ 9, see
    `lrelu_fit_of_range`), **each of the 256 entries equals the TFLite reference LeakyRelu kernel** evaluated at that
    code, and lies in `[qmin, qmax]`. -/
theorem lrelu_lut_spec (signed : Bool) (zpIn zpOut idScale idShift aScale aShift : Int)
    (h1 : inI32 idScale = true) (h2 : inI32 aScale = true)
    (hi : 0 ≤ idShift ∧ idShift ≤ 62) (ha : 0 ≤ aShift ∧ aShift ≤ 62)
    (hfit : ∀ x ∈ codes signed, inI32 ((x - zpIn) * 2 ^ leftOf (if x < zpIn then aShift else idShift)) = true) :
    lreluLut signed zpIn zpOut idScale idShift 1 aScale aShift =
      .ok ((codes signed).map
        (Gemmlowp.leakyReluRef (qmin signed) (qmax signed) zpIn zpOut idScale (31 - idShift) aScale (31 - aShift))) ∧
    ∀ v ∈ (codes signed).map
        (Gemmlowp.leakyReluRef (qmin signed) (qmax signed) zpIn zpOut idScale (31 - idShift) aScale (31 - aShift)),
      qmin signed ≤ v ∧ v ≤ qmax signed := by
  constructor
  · exact mapM_ok _ _ _ (fun x hx => lrelu_entry_eq signed zpIn zpOut idScale idShift aScale aShift x h1 h2 hi ha (hfit x hx))
  · intro v hv
    simp only [List.mem_map] at hv
    obtain ⟨x, _, rfl⟩ := hv
    have := qmin_le_qmax signed
    unfold Gemmlowp.leakyReluRef
    simp only []
    omega

/-- the side condition of `lrelu_lut_spec` holds whenever the input zero point is an 8-bit code of the same type
    and both shifts are at least 9 (rescale factor below 2^22) -/
theorem lrelu_fit_of_range (signed : Bool) (zpIn idShift aShift : Int)
    (hz : qmin signed ≤ zpIn ∧ zpIn ≤ qmax signed) (hi : 9 ≤ idShift) (ha : 9 ≤ aShift) :
    ∀ x ∈ codes signed, inI32 ((x - zpIn) * 2 ^ leftOf (if x < zpIn then aShift else idShift)) = true := by
  intro x hx
  have hc := codes_mem signed x hx
  apply fit_of_small
  · cases signed <;> simp [qmin, qmax] at hc hz <;> omega
  · unfold leftOf; split <;> split <;> omega

/-- `convert_hardswish_to_lut` (8-bit): for int32 `quantise_scale` multipliers, zero points of the tensor type,
    output shift in `[31, 46]` (TFLite requires output exponent ≤ 0), relu shift in `[0, 46]`, and either an output
    zero point ≤ 127 or an output shift ≥ 32, **each of the 256 entries equals the TFLite(-Micro) reference HardSwish
    kernel** (with its int16 intermediates, C casts and all) and lies in `[qmin, qmax]`.  The excluded corner
    (`uint8`, zero point > 127, output shift exactly 31) is where the *reference* wraps its int16 `output_value`,
    see `hardswish_ref_wraps_witness`. -/
theorem hardswish_lut_spec (signed : Bool) (zpIn zpOut outScale outShift reluScale reluShift : Int)
    (hos : inI32 outScale = true) (hrs : inI32 reluScale = true)
    (hzi : qmin signed ≤ zpIn ∧ zpIn ≤ qmax signed) (hzo : -128 ≤ zpOut ∧ zpOut ≤ 255)
    (hosh : 31 ≤ outShift ∧ outShift ≤ 46) (hrsh : 0 ≤ reluShift ∧ reluShift ≤ 46)
    (hw : zpOut ≤ 127 ∨ 32 ≤ outShift) :
    ∃ os16 rs16, downscaleMultiplierInt32ToInt16 outScale = .ok os16 ∧
      downscaleMultiplierInt32ToInt16 reluScale = .ok rs16 ∧
      hardswishLut signed zpIn zpOut outScale outShift reluScale reluShift =
        .ok ((codes signed).map (Gemmlowp.hardSwishRef (qmin signed) (qmax signed) zpIn zpOut
              os16 (31 - outShift) rs16 (31 - reluShift))) ∧
      ∀ v ∈ (codes signed).map (Gemmlowp.hardSwishRef (qmin signed) (qmax signed) zpIn zpOut
              os16 (31 - outShift) rs16 (31 - reluShift)), qmin signed ≤ v ∧ v ≤ qmax signed := by
  obtain ⟨os16, rs16, h1, h2, h3⟩ :=
    hardswish_table_eq signed zpIn zpOut outScale outShift reluScale reluShift hos hrs hzi hzo hosh hrsh hw
  refine ⟨os16, rs16, h1, h2, h3, ?_⟩
  intro v hv
  simp only [List.mem_map] at hv
  obtain ⟨x, _, rfl⟩ := hv
  exact hardSwishRef_range _ _ _ _ _ _ _ _ _ (qmin_le_qmax signed)

/-- In the excluded corner the TFLite reference computes `int16 output_value += zero_point` past 32767 and wraps
    (entry 0 after the clamp), while the Python — unbounded ints — saturates to 255: uint8, zero points 0 / 255,
    both 16-bit multipliers 32767, output shift 31, relu shift 20, code 255. -/
theorem hardswish_ref_wraps_witness :
    hardswishEntry false 0 255 32767 31 32767 20 255 = .ok 255 ∧
    Gemmlowp.hardSwishRef 0 255 0 255 32767 (31 - 31) 32767 (31 - 20) 255 = 0 := by decide

/-- constant folding of Quantize (`optimise_quantize`, int8→int8 / int16→int16): every folded constant equals the
    TFLite reference `Requantize` value and lies in `[quant_min, quant_max]` -/
theorem quantize_fold_eq (quantMin quantMax zpIn zpOut mult shift : Int) (vals : List Int)
    (hq : quantMin ≤ quantMax) (h1 : inI32 mult = true) (hs : 0 ≤ shift ∧ shift ≤ 62)
    (hfit : ∀ v ∈ vals, inI32 ((v - zpIn) * 2 ^ leftOf shift) = true) :
    quantizeFold quantMin quantMax zpIn zpOut mult shift vals =
      .ok (vals.map (Gemmlowp.requantizeRef quantMin quantMax zpIn zpOut mult (31 - shift))) ∧
    ∀ r ∈ vals.map (Gemmlowp.requantizeRef quantMin quantMax zpIn zpOut mult (31 - shift)), quantMin ≤ r ∧ r ≤ quantMax := by
  constructor
  · exact mapM_ok _ _ _ (fun v hv => quantize_entry_eq quantMin quantMax zpIn zpOut mult shift v h1 hs (hfit v hv))
  · intro r hr
    simp only [List.mem_map] at hr
    obtain ⟨v, _, rfl⟩ := hr
    unfold Gemmlowp.requantizeRef
    simp only []
    omega

/-- `convert_to_lut8` / `create_lut_8bit_op` for **any** real function (abstracted as the rounded value `g`):
    256 entries, every entry saturated into `[qmin, qmax]`, and a monotone `g` gives a monotone table -/
theorem lut8_saturated (signed : Bool) (g : Int → Int) :
    (lut8 signed g).length = 256 ∧
    (∀ v ∈ lut8 signed g, qmin signed ≤ v ∧ v ≤ qmax signed) ∧
    ((∀ a b, a ≤ b → g a ≤ g b) → (lut8 signed g).Pairwise (· ≤ ·)) := by
  refine ⟨by simp [lut8, codes_length], ?_, ?_⟩
  · intro v hv
    simp only [lut8, List.mem_map] at hv
    obtain ⟨x, _, rfl⟩ := hv
    exact clamp_range _ _ _ (qmin_le_qmax signed)
  · intro hmono
    unfold lut8
    rw [List.pairwise_map]
    refine List.Pairwise.imp ?_ (codes_pairwise signed)
    intro a b hab
    have := hmono a b (by omega)
    unfold clamp
    omega

/-! ## the int8 RSQRT table (`create_lut_rsqrt_int8_op`) -/

/-- the 256 constants `RSQRT_LUT` quoted in `lut.py` ("generated by printing the output from the reference") **are** the
    reference's values: entry `n` (`1 ≤ n ≤ 255`) = `MultiplyByQuantizedMultiplier(1, inv_sqrt_multiplier, inv_sqrt_shift + 20)`
    with `GetInvSqrtQuantizedMultiplierExp(n, -1, …)` (five fixed-point Newton–Raphson steps), recomputed here for every
    entry of the table regenerated from the live source; every constant fits int32; entry 0 is 0. -/
theorem rsqrt_constants_match :
    Gen.rsqrtLut.length = 256 ∧ Gen.rsqrtLut[0]? = some 0 ∧ (∀ v ∈ Gen.rsqrtLut, inI32 v = true) ∧
    ∀ n : Nat, n < 256 → n ≠ 0 → Gen.rsqrtLut[n]? = some (RsqrtRef.rsqrtData (n : Int)) := by decide +kernel

/-- `create_lut_rsqrt_int8_op` for **every input zero point of the int8 range**, every int32 output multiplier and Vela
    shift in `[11, 42]` (scale `1/(√s_in·s_out)` between 2^-12 and 2^20) and every output zero point: **each entry at a
    code `x ≥ zp_in` (real input ≥ 0) equals the TFLite reference `Rsqrt` int8 kernel** — in particular real input 0 maps to
    the maximum 127 whatever the zero point (since /repo commit 18935f5; before it only for zero point −128, see
    `rsqrt_zero_input_witness`) — the entries at codes below the zero point, where the reference kernel fails its
    "Rsqrt is only defined for positive values" check, are 127, and all 256 entries lie in `[-128, 127]`. -/
theorem rsqrt_lut_spec (zpIn zpOut mult shift : Int) (hz : -128 ≤ zpIn ∧ zpIn ≤ 127) (hm : inI32 mult = true)
    (hs : 11 ≤ shift ∧ shift ≤ 42) :
    rsqrtLut Gen.rsqrtLut zpIn zpOut mult shift =
      .ok ((codes true).map (fun x => if x < zpIn then 127 else RsqrtRef.rsqrtRef zpIn zpOut mult (31 - shift) x)) ∧
    ∀ v ∈ (codes true).map (fun x => if x < zpIn then 127 else RsqrtRef.rsqrtRef zpIn zpOut mult (31 - shift) x),
      -128 ≤ v ∧ v ≤ 127 := by
  obtain ⟨_, _, hI, htbl⟩ := rsqrt_constants_match
  constructor
  · refine mapM_ok _ _ _ (fun x hx => ?_)
    have hr : -128 ≤ x ∧ x ≤ 127 := by
      have := codes_mem true x hx; simpa [qmin, qmax] using this
    by_cases hlt : x < zpIn
    · simp only [hlt, if_true]
      exact rsqrt_entry_below Gen.rsqrtLut zpIn zpOut mult shift x hlt
    · simp only [hlt, if_false]
      exact rsqrt_entry_eq Gen.rsqrtLut htbl hI zpIn zpOut mult shift x hm hs hz ⟨by omega, hr.2⟩
  · intro v hv
    simp only [List.mem_map] at hv
    obtain ⟨x, _, rfl⟩ := hv
    split
    · omega
    · unfold RsqrtRef.rsqrtRef
      simp only []
      split <;> omega

/-- Documents the code BEFORE /repo commit 18935f5 (`Lut.rsqrtEntryOld`), i.e. the finding
    `rsqrt-lut-zero-input-entry-not-max-unless-zp-in-is-minus-128` that the commit repaired — **not** the current code,
    for which `rsqrt_lut_spec` covers every zero point.  With an input zero point other than −128 the old entry for real
    input 0 (`x = zp_in`) was not the reference's: the reference returns the maximum 127 ("any value close to 0 represents
    the max output value"), the old code looked up `RSQRT_LUT[0] = 0` and yielded the output zero point (only index −128
    was forced to 127); the current model returns 127.  int8, zero points 0 / 5, multiplier 2^30, shift 20, code 0. -/
theorem rsqrt_zero_input_witness :
    rsqrtEntryOld Gen.rsqrtLut 0 5 1073741824 20 0 = .ok 5 ∧ RsqrtRef.rsqrtRef 0 5 1073741824 (31 - 20) 0 = 127 ∧
    rsqrtEntry Gen.rsqrtLut 0 5 1073741824 20 0 = .ok 127 := by decide

/-! ## the exp table of the 8-bit SOFTMAX (`SoftMax.generate_exp_table`) -/

/-- `generate_exp_table` = TFLite `PreprocessSoftmaxScaling` + `CalculateInputRadius` + per element
    `exp_on_negative_values(MultiplyByQuantizedMultiplierGreaterThanOne(input_diff))`, **for every double
    `prod = double(beta)·double(input_scale)·2^26 = q·2^(26−k) > 1`** (`2^52 ≤ q < 2^53`: every normal double), saturating or
    not, and all 256 table indices: the `min` with `2^31 − 1`, `quantise_scale` vs `QuantizeMultiplierGreaterThanOne`,
    `diff_min`, the shifted difference fits int32 (no assert, no C overflow) and the two exponentials agree.
    No excluded corner: when the significand of `real_beta` rounds up to the multiplier `2^31` the code (since /repo
    commit 20248de) renormalises to `(2^30, shift − 1)` exactly as `QuantizeMultiplier` does; the proof splits on
    `(q + 2^21) / 2^22 = 2^31` inside the non-saturating branch.  What the code did before that commit is
    `softmax_exp_table_m31_witness`. -/
theorem softmax_exp_table_spec (q : Nat) (k : Int) (h1 : 2 ^ 52 ≤ q) (h2 : q < 2 ^ 53)
    (hgt : k - 26 < 0 ∨ q > 2 ^ (k - 26).toNat) :
    ∃ t, SoftmaxRef.expTableOfReal (SoftmaxRef.scaledClamped q k).1 (SoftmaxRef.scaledClamped q k).2 = some t ∧
      SoftmaxTable.generateExpTable (.fin false q (26 - k)) = .ok t := by
  by_cases hc : k - 26 ≤ 0 ∨ q > (2 ^ 31 - 1) * 2 ^ (k - 26).toNat
  · obtain ⟨hm, hs⟩ := SoftmaxTable.clamped q k h1 hc
    refine ⟨SoftmaxRef.expTable 2147483647 31, ?_, ?_⟩
    · unfold SoftmaxRef.expTableOfReal
      rw [hs]
      show (match SoftmaxRef.quantizeMultiplierGreaterThanOne ((2 ^ 31 - 1) * 2 ^ 22) 22 with
        | none => none | some (mult, ls) => some (SoftmaxRef.expTable mult ls)) = _
      rw [SoftmaxTable.ref_max]
    · apply SoftmaxTable.generate_of_pair _ 2147483647 31 _ (by decide) (by decide)
      rw [hm, SoftmaxTable.quantise_max]
      rfl
  · have hk : 0 < k - 26 := by omega
    have hle : q ≤ (2 ^ 31 - 1) * 2 ^ (k - 26).toNat := by omega
    have hgt' : q > 2 ^ (k - 26).toNat := by omega
    by_cases hcarry : (q + 2 ^ 21) / 2 ^ 22 = 2 ^ 31
    · obtain ⟨_, _, href⟩ := SoftmaxTable.unclamped_carry q k h1 h2 hk hle hgt' hcarry
      refine ⟨SoftmaxRef.expTable 1073741824 (80 - k).toNat, ?_, ?_⟩
      · unfold SoftmaxRef.expTableOfReal
        rw [href]
      · exact SoftmaxTable.generate_carry q k h1 h2 hk hle hgt' hcarry
    · obtain ⟨_, hq, href⟩ := SoftmaxTable.unclamped q k h1 h2 hk hle hgt' hcarry
      refine ⟨SoftmaxRef.expTable (((q + 2 ^ 21) / 2 ^ 22 : Nat) : Int) (79 - k).toNat, ?_, ?_⟩
      · unfold SoftmaxRef.expTableOfReal
        rw [href]
      · exact SoftmaxTable.generate_of_pair _ _ _ hq (by omega) (by omega)

/-- Documents the code BEFORE /repo commit 20248de (`SoftmaxTable.generateExpTableOld`), i.e. the finding
    `softmax-exp-table-multiplier-2^31-rejected` that the commit repaired — **not** the current code, for which
    `softmax_exp_table_spec` holds in this corner too.  Whenever the significand of `real_beta` is within `2^-32` of 1,
    `quantise_scale` returns the unnormalised multiplier `2^31`; the old code passed it on and the first computed entry
    tripped the int32 assert of `saturating_rounding_mul32`, while `QuantizeMultiplier` yields `(2^30, shift + 1)` and a
    table; the current model returns exactly that table.  General in `q, k`;
    non-vacuous: `q = 2^53 − 2^6`, `k = 58` (beta 10610063·2^-23, input scale 13264529·2^-29). -/
theorem softmax_exp_table_m31_witness (q : Nat) (k : Int) (h1 : 2 ^ 52 ≤ q) (h2 : q < 2 ^ 53)
    (hk : 0 < k - 26) (hle : q ≤ (2 ^ 31 - 1) * 2 ^ (k - 26).toNat) (hgt : q > 2 ^ (k - 26).toNat)
    (hcarry : (q + 2 ^ 21) / 2 ^ 22 = 2 ^ 31) :
    SoftmaxTable.generateExpTableOld (.fin false q (26 - k)) = .error (.fp .assert_) ∧
    SoftmaxRef.expTableOfReal (SoftmaxRef.scaledClamped q k).1 (SoftmaxRef.scaledClamped q k).2 =
      some (SoftmaxRef.expTable 1073741824 (80 - k).toNat) ∧
    SoftmaxTable.generateExpTable (.fin false q (26 - k)) = .ok (SoftmaxRef.expTable 1073741824 (80 - k).toNat) := by
  obtain ⟨_, hq, href⟩ := SoftmaxTable.unclamped_carry q k h1 h2 hk hle hgt hcarry
  refine ⟨?_, ?_, SoftmaxTable.generate_carry q k h1 h2 hk hle hgt hcarry⟩
  · unfold SoftmaxTable.generateExpTableOld
    rw [hq]
    have e : (31 : Int) - (31 - (((79 - k).toNat : Nat) : Int)) = ((79 - k).toNat : Nat) := by omega
    simp only [e]
    exact SoftmaxTable.tableFrom_m31 _
  · unfold SoftmaxRef.expTableOfReal
    rw [href]

/-- every entry of the reference table (hence, by `softmax_exp_table_spec`, of the generated one) is a Q0.31 value in
    `[0, 2^31 − 1]`, there are 256 of them, the entries whose difference lies below `diff_min` are 0 and the last entry
    (`input_diff = 0`) is `exp(0) = 2^31 − 1` — for every multiplier and left shift -/
theorem softmax_exp_table_range (mult : Int) (ls : Nat) :
    (SoftmaxRef.expTable mult ls).length = 256 ∧
    (∀ v ∈ SoftmaxRef.expTable mult ls, 0 ≤ v ∧ v ≤ 2147483647) ∧
    (∀ x : Nat, x < 256 → (x : Int) - 255 < -(SoftmaxRef.calculateInputRadius 5 ls) →
      (SoftmaxRef.expTable mult ls)[x]? = some 0) ∧
    (SoftmaxRef.expTable mult ls)[255]? = some 2147483647 := by
  refine ⟨by simp [SoftmaxRef.expTable], ?_, ?_, ?_⟩
  · intro v hv
    simp only [SoftmaxRef.expTable, List.mem_map] at hv
    obtain ⟨x, _, rfl⟩ := hv
    unfold SoftmaxRef.expEntry
    split
    · exact SoftmaxTable.expOnNegativeValues_range _ (FpMath.srdhm32_range _ _)
    · decide
  · intro x hx hlt
    unfold SoftmaxRef.expTable
    rw [List.getElem?_map, List.getElem?_range hx]
    unfold SoftmaxRef.expEntry
    have : ¬ ((x : Int) - 255 ≥ -(SoftmaxRef.calculateInputRadius 5 ls)) := by omega
    simp only [Option.map_some, this, if_false]
  · unfold SoftmaxRef.expTable
    rw [List.getElem?_map, List.getElem?_range (by decide)]
    unfold SoftmaxRef.expEntry
    have hR : 0 ≤ SoftmaxRef.calculateInputRadius 5 ls := by
      unfold SoftmaxRef.calculateInputRadius
      exact Int.ediv_nonneg (by decide) (by have := FpMath.two_pow_pos ls; omega)
    have : (((255 : Nat) : Int) - 255 ≥ -(SoftmaxRef.calculateInputRadius 5 ls)) := by omega
    simp only [Option.map_some, this, if_true]
    have e0 : (((255 : Nat) : Int) - 255) * 2 ^ ls = 0 := by simp
    rw [e0]
    have : Gemmlowp.srdhm32 (Gemmlowp.cast32 0) mult = 0 := by
      have hc0 : Gemmlowp.cast32 0 = 0 := by decide
      rw [hc0]
      unfold Gemmlowp.srdhm32
      have hf : ((0:Int) == Gemmlowp.int32Min) = false := by decide
      simp only [Int.zero_mul, hf, Bool.and_false, Bool.false_eq_true, if_false]
      decide
    rw [this]
    decide

/- Full statement wanted: the table is non-decreasing in the index, for every multiplier in `[0, 2^31 − 1]` and every
   left shift.  Proved here **given** that gemmlowp's `exp_on_negative_values` is non-decreasing on int32 `a ≤ b ≤ 0`
   (hypothesis `hmono`).  That hypothesis holds — an exhaustive C evaluation of all 2^31 + 1 arguments finds no descent
   (design.d/C19.md) — but it is not proved in Lean: it needs an error analysis of the degree-4 polynomial and of the
   seven barrel-shifter roundings.  Everything else (the rescaling `SaturatingRoundingDoublingHighMul(d·2^ls, mult)` is
   monotone in `d`, entries below `diff_min` are 0 ≤ every exponential) is proved. -/
theorem softmax_exp_table_monotone_partial (mult : Int) (ls : Nat) (hm1 : 0 ≤ mult) (hm2 : mult ≤ 2147483647)
    (hmono : ∀ a b : Int, -2147483648 ≤ a → a ≤ b → b ≤ 0 →
      Gemmlowp.expOnNegativeValues a ≤ Gemmlowp.expOnNegativeValues b) :
    (SoftmaxRef.expTable mult ls).Pairwise (· ≤ ·) := by
  unfold SoftmaxRef.expTable
  rw [List.pairwise_map]
  refine List.Pairwise.imp_of_mem ?_ (List.pairwise_lt_range (n := 256))
  intro a b _ hb hab
  exact SoftmaxTable.entry_mono mult ls hm1 hm2 hmono a b (List.mem_range.1 hb) hab

/-! ## constants quoted from the live source equal the gemmlowp constants -/

/-- the polynomial constants and the seven barrel-shifter multipliers `exp(-2^k)` (Q0.31) in `fp_math.py`
    are the ones of gemmlowp's `exp_on_negative_values`, and the model uses the same -/
theorem exp_constants_match :
    Gen.srcExpBarrel = Gemmlowp.expBarrel ∧ Gen.srcExpBarrel = expBarrelStages ∧
    Gen.srcExpConstantTerm = 1895147668 ∧ Gen.srcExpConstant1Over3 = 715827883 ∧
    Gen.srcExpConstantTerm = expConstantTerm ∧ Gen.srcExpConstant1Over3 = expConstant1Over3 ∧
    Gen.srcExpOffset = 28 ∧ Gen.srcExpOneQuarter = 2 ^ 24 ∧ Gen.srcExpMask = 2 ^ 24 - 1 ∧
    Gen.srcExpFractionalBits = 26 ∧ Gen.srcExpIntegerBits = 5 := by decide

/-! ## non-vacuity -/
example : inI32 (-2147483648) = true ∧ saturatingRoundingMul32 (-2147483648) (-2147483648) = .ok 2147483647 := by decide
example : saturatingRoundingMul32 (-2147483648) 2147483647 = .ok (-2147483647) := by decide
example : saturatingRoundingMul32 (-5) 3 = .ok 0 ∧ saturatingRoundingMul32 (-1610612737) 1 = .ok (-1) := by decide
example : roundingDivideByPot (-5) 1 = .ok (-3) ∧ roundingDivideByPot 5 1 = .ok 3 ∧ roundingDivideByPot (-6) 2 = .ok (-2) := by decide
example : multiplyByQuantizedMultiplier (-100) 1073741824 30 = .ok (-100) := by decide
example : inI32 ((-100) * 2 ^ (if (31:Int) - 30 > 0 then ((31:Int) - 30).toNat else 0)) = true := by decide
example : multiplyByQuantizedMultiplier 100 1073741824 5 = .error .assert_ := by decide
example : expOnNegativeValues (-67108864) = .ok 790015308 ∧ expOnNegativeValues 0 = .ok 2147483647 ∧
    expOnNegativeValues (-2147483648) = .ok 0 := by decide
-- lrelu: int8, zero points 3 / -8, identity 0.4 (1717986854, 32), alpha 0.04 (1374389504, 35): hypotheses hold, table is not constant
example : (qmin true ≤ (3:Int) ∧ (3:Int) ≤ qmax true) ∧ inI32 1717986854 = true ∧ inI32 1374389504 = true := by decide
example : lreluEntry true 3 (-8) 1717986854 32 1 1374389504 35 (-128) = .ok (-13) ∧
    lreluEntry true 3 (-8) 1717986854 32 1 1374389504 35 127 = .ok 42 := by decide
example : quantizeFold (-128) 127 3 (-5) 1073741824 29 [-128, 0, 127] = .ok [-128, -11, 127] := by decide
-- hardswish: int8, ifm scale 0.05 (relu shift 29 < 31: the branch that crashes in the unpatched code), ofm scale 0.04
example : hardswishEntry true (-3) 5 25600 38 18204 29 127 = .ok 107 ∧ hardswishEntry true (-3) 5 25600 38 18204 29 (-30) = .ok (-3) := by decide
-- rsqrt: input zero point 3 (not -128), output zero point -128, multiplier 2^30, shift 26: codes below, at and above the zero point
example : rsqrtEntry Gen.rsqrtLut 3 (-128) 1073741824 26 (-5) = .ok 127 ∧ rsqrtEntry Gen.rsqrtLut 3 (-128) 1073741824 26 3 = .ok 127 ∧
    rsqrtEntry Gen.rsqrtLut 3 (-128) 1073741824 26 7 = .ok (-120) ∧ RsqrtRef.rsqrtRef 3 (-128) 1073741824 (31 - 26) 7 = -120 := by decide +kernel

-- softmax exp table: beta 1.0, input scale 1/256 -> prod = 2^18 = 2^52·2^(26−60): hypotheses hold, multiplier 2^30, shift 19
example : (60:Int) - 26 < 0 ∨ (2:Nat) ^ 52 > 2 ^ ((60:Int) - 26).toNat := by decide
example : SoftmaxRef.quantizeMultiplierGreaterThanOne (SoftmaxRef.scaledClamped (2 ^ 52) 60).1 (SoftmaxRef.scaledClamped (2 ^ 52) 60).2
    = some (1073741824, 19) := by decide
example : SoftmaxRef.expEntry 1073741824 19 (-(SoftmaxRef.calculateInputRadius 5 19)) (-255) = 793107307 ∧
    SoftmaxRef.expEntry 1073741824 19 (-(SoftmaxRef.calculateInputRadius 5 19)) (-1) = 2139110984 := by decide
-- the carry corner (multiplier rounds up to 2^31; renormalised since 20248de) is inhabited: q = 2^53 − 2^6, k = 58 (beta 10610063·2^-23, input scale 13264529·2^-29)
example : (2:Nat) ^ 52 ≤ 2 ^ 53 - 2 ^ 6 ∧ 2 ^ 53 - 2 ^ 6 < (2:Nat) ^ 53 ∧ (0:Int) < 58 - 26 ∧
    2 ^ 53 - 2 ^ 6 ≤ (2 ^ 31 - 1) * 2 ^ ((58:Int) - 26).toNat ∧ 2 ^ 53 - 2 ^ 6 > 2 ^ ((58:Int) - 26).toNat ∧
    (2 ^ 53 - 2 ^ 6 + 2 ^ 21) / 2 ^ 22 = 2 ^ 31 := by decide

end VelaVerif.Props.C19
