import VelaVerif.Model.SchedMem
import VelaVerif.Spec.SchedMem
/-! placeholder: theorems follow -/
namespace VelaVerif.Props.C12Sched
end VelaVerif.Props.C12Sched
