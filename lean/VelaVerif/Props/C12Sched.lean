import VelaVerif.Lemmas.SchedMem
import VelaVerif.Lemmas.SchedLive
import VelaVerif.Lemmas.SchedFast
import VelaVerif.Lemmas.SchedFastAssert
import VelaVerif.Lemmas.SchedFastTotal
import VelaVerif.Spec.SchedMem
/-!
# C12 / C02 — what the scheduler assumes a schedule needs is what the schedule really needs

`Model/SchedMem.lean` transcribes the memory bookkeeping of `scheduler.py` / `cascade_builder.py` (equal to the real
`CascadeBuilder` / `Scheduler` on every call of every compiled network of the cascade-heavy corpus, `harness/sched_lib.py`).
The theorems say, for **every** input of the modelled functions (any operations, any stripes the search could propose,
any non-local usage, any limit):

* (c) `buffer_map_consistent`, `accepted_buffers_sufficient` — the buffer recorded for a (producer, consumer) pair of an
  accepted cascade is `rolling_buffer_shape` of the stripes of the cost map the cascade was built from, hence sufficient in
  the sense of `Spec.SchedMem.BufferSufficient` (the hypotheses of C10's `rolling_sufficient`);
  `buffer_map_stale_witness`: a cache that outlives one call does not have this property (serves C10 / C02);
* (a) `cascade_estimate_closed_form`, `dedicated_sram_cascade_within_limit` — what `CascadeInfo.mem_usage` stands for, and
  the hard limit in Dedicated-SRAM mode; `cascade_liverange_usage`, `cascade_estimate_covers_liverange_peak` — the live ranges
  `Model/LiveRange.lean` extracts for the operations of an accepted cascade need no more than the builder attributed to it
  (serves "reported memory is sufficient" of C12 and the Dedicated-SRAM clause of C02); `optimize_accepts_within_limit`,
  `schedule_estimate_covers_every_operation` — the acceptance test of `optimize_sub_schedule`;
* (d) `snapshot_is_temporal_usage` — every entry of the memory snapshot is the bytes in use at that tick;
* (b) `fast_storage_within_limit`, `fast_storage_assertion_holds`, `fast_storage_total` — `use_fast_storage_for_feature_maps`
  returns, and what it keeps in fast storage fits the limit together with what it cannot move, for every live-range set
  (the Dedicated-SRAM clause of C02 at the level of live ranges); `forced_to_fast_allowed`;
* `stripe_input_matches_rolling_hypothesis`, `weight_buffers_within_limit`, `operator_buffering_fits`,
  `build_cascades_never_out_of_fuel`.
-/
namespace VelaVerif.Props.C12Sched
open VelaVerif VelaVerif.SchedMem VelaVerif.Cascade

/-- **buffer_map_consistent (c).**  `build_cascades` starts with an empty `BufferMap`.  For every cascade it returns and every
    entry `(j, shape)` of `CascadeInfo.buffers`: `j` is the index of an operation `c` of the builder whose predecessor `p`
    (index `j - 1`) is its producer, neither side needs its feature map in full, and `shape` is
    `rolling_buffer_shape(cost[p].stripe, cost[c].stripe_input, ifm_box_overread(c))` for the cost map `ref` **of this call**.
    (Any cost maps, any limit; `UniqueIdx`: two operations of `sched_ops` have different `index`.) -/
theorem buffer_map_consistent (b : Builder) (ref fb : CostMap) (limit : Int) (st : BState) (hu : UniqueIdx b.ops)
    (h : buildCascades b ref fb limit = .ok st) :
    ∀ ci ∈ st.cascades, ∀ e ∈ ci.buffers, ∃ p c pc cc,
      p ∈ b.ops ∧ c ∈ b.ops ∧ p.index + 1 = c.index ∧ c.index = e.1 ∧
      ref.lookup p.index = some pc ∧ ref.lookup c.index = some cc ∧ e.2.n = 1 ∧
      rollingBufferShape pc.stripe.h pc.stripe.w pc.stripe.c cc.stripeInput.h cc.stripeInput.w c.overread = .ok (e.2.h, e.2.w, e.2.c) := by
  intro ci hci e he
  have hinv := buildCascadesFrom_inv [] b ref fb limit st hu (by intro p _ c _ v hv; simp at hv) h
  obtain ⟨p, c, hp, hc, hidx, hj, h1, h2, sz, hcb⟩ := (hinv.good ci hci).bufs e he
  obtain ⟨pc, cc, bh, bw, bd, hpc, hcc, hr, hv⟩ := computeBuffer_rolling h1 h2 hcb
  refine ⟨p, c, pc, cc, hp, hc, hidx, hj, hpc, hcc, ?_, ?_⟩
  · have := congrArg (·.1.n) hv; simpa using this
  · have e1 := congrArg (·.1.h) hv; have e2 := congrArg (·.1.w) hv; have e3 := congrArg (·.1.c) hv
    simp only at e1 e2 e3
    rw [e1, e2, e3]; exact hr

/-- the same for a builder that is handed a cache: if every cached entry agrees with the cost map of the call, so does every
    buffer of every cascade of the result (the invariant `get_buffer` maintains) -/
theorem buffer_map_consistent_from (bm0 : BufferMap) (b : Builder) (ref fb : CostMap) (limit : Int) (st : BState)
    (hu : UniqueIdx b.ops) (h0 : bm0.Consistent b.ops ref) (h : buildCascadesFrom bm0 b ref fb limit = .ok st) :
    st.bm.Consistent b.ops ref ∧ ∀ ci ∈ st.cascades, BufsOf b.ops ref ci.buffers := by
  have hinv := buildCascadesFrom_inv bm0 b ref fb limit st hu h0 h
  exact ⟨hinv.bm, fun ci hci => (hinv.good ci hci).bufs⟩

/-- `rolling_buffer_shape` satisfies the Spec: tall enough for one producer stripe, one consumer stripe and the over-read,
    a multiple of the consumer stripe, as wide as the wider side, channels in bricks of 16 -/
theorem rollingBufferShape_sufficient (pH pW pD cH cW over bh bw bd : Nat)
    (hr : rollingBufferShape pH pW pD cH cW over = .ok (bh, bw, bd)) :
    Spec.SchedMem.BufferSufficient pH pW pD cH cW over bh bw bd := by
  unfold rollingBufferShape at hr
  split at hr
  · cases hr
  · rename_i hc
    simp only [Except.ok.injEq, Prod.mk.injEq] at hr
    obtain ⟨rfl, rfl, rfl⟩ := hr
    unfold Cascade.roundUp
    refine ⟨?_, Nat.dvd_mul_left _ _, by omega, by omega, ?_, Nat.dvd_mul_left _ _⟩
    · have h2 := Nat.div_add_mod (pH + cH + (over - 1) + cH - 1) cH
      have h3 := Nat.mod_lt (pH + cH + (over - 1) + cH - 1) (by omega : cH > 0)
      have e : (pH + cH + (over - 1) + cH - 1) / cH * cH = cH * ((pH + cH + (over - 1) + cH - 1) / cH) := Nat.mul_comm _ _
      omega
    · omega

/-- **accepted_buffers_sufficient (c, in the terms of the Spec).**  Every rolling buffer of every cascade `build_cascades`
    accepts is sufficient for the stripes of the schedule it accepted it for. -/
theorem accepted_buffers_sufficient (b : Builder) (ref fb : CostMap) (limit : Int) (st : BState) (hu : UniqueIdx b.ops)
    (h : buildCascades b ref fb limit = .ok st) :
    ∀ ci ∈ st.cascades, ∀ e ∈ ci.buffers, ∃ p c pc cc,
      p ∈ b.ops ∧ c ∈ b.ops ∧ p.index + 1 = c.index ∧ c.index = e.1 ∧ ref.lookup p.index = some pc ∧ ref.lookup c.index = some cc ∧
      Spec.SchedMem.BufferSufficient pc.stripe.h pc.stripe.w pc.stripe.c cc.stripeInput.h cc.stripeInput.w c.overread e.2.h e.2.w e.2.c := by
  intro ci hci e he
  obtain ⟨p, c, pc, cc, hp, hc, hidx, hj, hpc, hcc, _, hr⟩ := buffer_map_consistent b ref fb limit st hu h ci hci e he
  exact ⟨p, c, pc, cc, hp, hc, hidx, hj, hpc, hcc, rollingBufferShape_sufficient _ _ _ _ _ _ _ _ _ hr⟩

/-- the model's inner loop never runs out of fuel (`err:fuel` is not a Python outcome): each iteration moves to an operation of
    the builder with a larger index, and the fuel is the number of operations + 1 -/
theorem build_cascades_never_out_of_fuel (bm0 : BufferMap) (b : Builder) (ref fb : CostMap) (limit : Int) :
    buildCascadesFrom bm0 b ref fb limit ≠ .error .fuel :=
  fun h => buildCascadesFrom_fuel bm0 b ref fb limit _ h rfl

/-! ### The invariant a longer-lived cache breaks

Two convolutions 32×32, 8 → 32 → 8 channels.  `refA`: 2-row stripes (consumer reads 4 rows), `refB`: 8-row stripes (consumer
reads 10 rows).  A cache filled by a call with `refA` and reused by a call with `refB` (what hoisting `BufferMap()` from
`build_cascades` into the builder does) returns the 8-row buffer of the first call: the cascade is accepted with a smaller
estimate, and its buffer is lower than one producer stripe plus one consumer stripe. -/

def wOp0 : SOp :=
  { index := 0, ifm := ⟨⟨1, 32, 32, 8⟩, 1, false⟩, ifm2 := none, ofm := ⟨⟨1, 32, 32, 32⟩, 1, true⟩, reqFullIfm := true, reqFullOfm := false,
    binaryEw := false, ofmCanReuseIfm := false, cascadableStatic := true, dependants := [1], overread := 0 }
def wOp1 : SOp :=
  { index := 1, ifm := ⟨⟨1, 32, 32, 32⟩, 1, true⟩, ifm2 := none, ofm := ⟨⟨1, 32, 32, 8⟩, 1, false⟩, reqFullIfm := false, reqFullOfm := true,
    binaryEw := false, ofmCanReuseIfm := false, cascadableStatic := true, dependants := [], overread := 0 }
def wBuilder : Builder := { ops := [wOp0, wOp1], spilling := false, nonLocal := [] }
def wRefA : CostMap := [(0, ⟨⟨1, 2, 32, 32⟩, ⟨1, 4, 32, 8⟩, [], 0⟩), (1, ⟨⟨1, 2, 32, 8⟩, ⟨1, 4, 32, 32⟩, [], 0⟩)]
def wRefB : CostMap := [(0, ⟨⟨1, 8, 32, 32⟩, ⟨1, 10, 32, 8⟩, [], 0⟩), (1, ⟨⟨1, 8, 32, 8⟩, ⟨1, 10, 32, 32⟩, [], 0⟩)]
def wFb : CostMap := [(0, ⟨⟨1, 32, 32, 32⟩, ⟨1, 32, 32, 8⟩, [], 0⟩), (1, ⟨⟨1, 32, 32, 8⟩, ⟨1, 32, 32, 32⟩, [], 0⟩)]

def cascadesOf (r : Except Err BState) : Option (List CascadeInfo) :=
  match r with | .ok st => some st.cascades | .error _ => none
def cacheOf (r : Except Err BState) : BufferMap :=
  match r with | .ok st => st.bm | .error _ => []

/-- the code as it is: each call computes the buffer of its own stripes (8 rows for `refA`, 20 rows for `refB`) -/
example : cascadesOf (buildCascades wBuilder wRefA wFb 0) = some [⟨0, 1, [(1, ⟨1, 8, 32, 32⟩)], 24576⟩] ∧
    cascadesOf (buildCascades wBuilder wRefB wFb 0) = some [⟨0, 1, [(1, ⟨1, 20, 32, 32⟩)], 36864⟩] := by decide

/-- **buffer_map_stale_witness.**  With the cache of the `refA` call, the `refB` call accepts the cascade with the 8-row buffer
    and the estimate of the first call; the buffer is not `rolling_buffer_shape` of the current stripes and violates the Spec
    (8 < 8 + 10). -/
theorem buffer_map_stale_witness :
    cascadesOf (buildCascadesFrom (cacheOf (buildCascades wBuilder wRefA wFb 0)) wBuilder wRefB wFb 0)
      = some [⟨0, 1, [(1, ⟨1, 8, 32, 32⟩)], 24576⟩] ∧
    ¬ Spec.SchedMem.BufferSufficient 8 32 32 10 32 0 8 32 32 ∧
    ¬ (cacheOf (buildCascades wBuilder wRefA wFb 0)).Consistent wBuilder.ops wRefB := by
  refine ⟨by decide, ?_, ?_⟩
  · intro h; have := h.1; omega
  · intro h
    have := h wOp0 (by simp [wBuilder]) wOp1 (by simp [wBuilder]) (⟨1, 8, 32, 32⟩, 8192) (by decide)
    have e : computeBuffer (some wOp0) (some wOp1) wRefB = .ok (⟨1, 20, 32, 32⟩, 20480) := by rfl
    rw [e] at this
    simp at this

/-! ## (a) what `CascadeInfo.mem_usage` stands for -/

/-- **cascade_estimate_closed_form (a, builder side).**  For every cascade `build_cascades` returns there is the chain
    `l` of its operations (consecutive indices `start … end`, each pair joined by a rolling buffer) such that
    `mem_usage + non_local(first)` is
    * Dedicated SRAM (`spilling`): the weight buffers of all operations + the rolling buffers between them,
    * otherwise: the first operation's IFM in full + those buffers + the last operation's OFM in full + the non-local
      usage of the first operation;
    and in Dedicated-SRAM mode that sum does not exceed the limit the builder was given (`dedicated_sram_cascade_within_limit`). -/
theorem cascade_estimate_closed_form (b : Builder) (ref fb : CostMap) (limit : Int) (st : BState) (hu : UniqueIdx b.ops)
    (h : buildCascades b ref fb limit = .ok st) :
    ∀ ci ∈ st.cascades, ∃ (l : List SOp) (first : SOp),
      RChain b.ops l ∧ l.head? = some first ∧ l.length > 1 ∧ first.index = ci.start ∧ ci.end_ = ci.start + (l.length - 1) ∧
      ci.memUsage + b.nl ci.start =
        (if b.spilling then (chainBuffers ref l : Int)
         else ((first.ifm.sizeInBytes + chainBuffers ref l + lastOfm l : Nat) : Int) + b.nl first.index) := by
  intro ci hci
  have hinv := buildCascadesFrom_inv [] b ref fb limit st hu (by intro p _ c _ v hv; simp at hv) h
  obtain ⟨l, first, h1, h2, h3, h4, h5, h6, _⟩ := (hinv.good ci hci).ex
  refine ⟨l, first, h1, h2, h3, h4, h5, ?_⟩
  rw [h6]; unfold cascadeSizeOf
  split <;> simp_all

theorem dedicated_sram_cascade_within_limit (b : Builder) (ref fb : CostMap) (limit : Int) (st : BState) (hu : UniqueIdx b.ops)
    (hs : b.spilling = true) (h : buildCascades b ref fb limit = .ok st) :
    ∀ ci ∈ st.cascades, ci.memUsage + b.nl ci.start ≤ limit := by
  intro ci hci
  have hinv := buildCascadesFrom_inv [] b ref fb limit st hu (by intro p _ c _ v hv; simp at hv) h
  obtain ⟨l, first, _, _, _, _, _, _, h7⟩ := (hinv.good ci hci).ex
  exact h7 hs

/-- **optimize_accepts_within_limit.**  The schedule `optimize_sub_schedule` returns (if any) is one whose
    `estimate_schedule_memory_usage` does not exceed the memory limit — for every list of proposals the search could make. -/
theorem optimize_accepts_within_limit (b : Builder) (fb : CostMap) (limit : Int) (proposals : List CostMap)
    (best : Proposal) (seen : List Proposal) (h : optimizeSubSchedule b fb limit proposals = .ok (some best, seen)) :
    best.usage ≤ limit :=
  optimizeLoop_within b fb limit proposals 0 0 none [] _ (by intro p hp; cases hp) h best rfl

/-- **schedule_estimate_covers_every_operation.**  `estimate_schedule_memory_usage` is at least what it attributes to each
    operation of the schedule: `cascade mem_usage + non_local(op)` for a member of a cascade, `ifm + ofm + weight buffers +
    non_local(op)` otherwise.  With `optimize_accepts_within_limit`: every operation of an accepted proposal is within the limit. -/
theorem schedule_estimate_covers_every_operation (ops : List SOp) (cost : CostMap) (cascades : List CascadeInfo)
    (nonLocal : List (Nat × Int)) (u : Int) (h : estimateScheduleMemoryUsage ops cost cascades nonLocal = .ok u) :
    0 ≤ u ∧ ∀ op ∈ ops, ∀ v, opEstimate cost cascades nonLocal op = .ok (some v) → v ≤ u :=
  estimate_fold_ge cost cascades nonLocal ops 0 u h

/-! ## (a) the bridge to the live ranges

`Linked ref none l (x0, steps)` relates the chain `l` of the builder to the tensors the live-range extraction sees for the
same operations: `x0` the IFM tensor of the first operation, per operation its OFM tensor, its buffered weight tensors
(`sum storage_size()` = the weight buffers of the cost map) and the size `extract_live_ranges_from_schedule` gives the rolling
buffer of its IFM (`cascade_info.buffers[op].elements() * dtype size` = the size the builder computed for the pair).
`cascadeSchedule k x0 steps` is the `Model/LiveRange.lean` schedule of exactly these operations, all members of cascade `k`
(`Lemmas/SchedLive.lean`); `extractNpu` is the model of `extract_live_ranges_from_schedule`, equal to the real function on
every compiled network (design.d/LiveRange.md); `graphUsage g t` is the sum of the sizes of the ranges of `g` alive at `t`. -/

/-- **cascade_liverange_usage.**  The live ranges extracted for a cascade on its own: all its operations get the time index
    the walk starts with, and the bytes in use at that index are: the first IFM (if it lies in the target memory) + the weight
    buffers + the *rolling buffer sizes* of the intermediate feature maps (not their full sizes: `set_buffer_size` replaces the
    size of the range the producer created) + the last OFM (if it lies in the target memory). -/
theorem cascade_liverange_usage (k ct : Nat) (hk : k ≠ 0) (x0 : LiveRange.Tensor) (steps : List Step) (hg : GoodTensors x0 steps) :
    ∃ res, LiveRange.extractNpu (cascadeSchedule k x0 steps) LiveRange.Graph.empty ct = .ok res ∧
      res.times = steps.map (fun _ => ct) ∧ graphUsage res.graph ct = chainUsage true x0 steps :=
  extract_cascade k ct hk x0 steps hg

/-- **cascade_estimate_covers_liverange_peak (a).**  For every cascade `build_cascades` accepts there is the chain `l` of its
    operations such that, for every live-range view `(x0, steps)` of that chain (`Linked`) with distinct feature-map tensors
    (`GoodTensors`) whose first IFM and last OFM are no larger than the builder's `ifm_size_in_bytes()` / `ofm_size_in_bytes()`
    (Dedicated SRAM: lie outside the target memory), the live ranges `Model/LiveRange.lean` extracts for these operations need,
    at the cascade's time index, no more than the builder attributed to the cascade:
    `usage + non_local(first) ≤ mem_usage + non_local(first)` (Dedicated SRAM: `usage ≤ mem_usage + non_local(first) ≤ limit`).
    Scope: the cascade on its own.  What else is alive at that index in the whole schedule is the non-local usage; that the
    value the scheduler adds for it (`memory_snapshot[t] - op_mem_usage` of the Min schedule, resp. `snapshot[t] - mem_usage` in
    `optimize_sub_schedule`) covers it is validated on the real values of every compilation (`smest`), not proved. -/
theorem cascade_estimate_covers_liverange_peak (b : Builder) (ref fb : CostMap) (limit : Int) (st : BState) (hu : UniqueIdx b.ops)
    (h : buildCascades b ref fb limit = .ok st) :
    ∀ ci ∈ st.cascades, ∃ (l : List SOp) (first : SOp),
      RChain b.ops l ∧ l.head? = some first ∧ first.index = ci.start ∧ ci.end_ = ci.start + (l.length - 1) ∧
      ∀ (k ct : Nat) (x0 : LiveRange.Tensor) (steps : List Step), k ≠ 0 → GoodTensors x0 steps → Linked ref none l steps →
        (if b.spilling then x0.inTarget = false ∧ finalBytes x0 steps = 0
         else (x0.inTarget = true → x0.size ≤ first.ifm.sizeInBytes) ∧ finalBytes x0 steps ≤ lastOfm l) →
        ∃ res, LiveRange.extractNpu (cascadeSchedule k x0 steps) LiveRange.Graph.empty ct = .ok res ∧
          (∀ tk ∈ res.times, tk = ct) ∧
          (graphUsage res.graph ct : Int) + (if b.spilling then 0 else b.nl ci.start) ≤ ci.memUsage + b.nl ci.start ∧
          (b.spilling = true → (graphUsage res.graph ct : Int) ≤ limit) := by
  intro ci hci
  obtain ⟨l, first, h1, h2, h3, h4, h5, h6⟩ := cascade_estimate_closed_form b ref fb limit st hu h ci hci
  refine ⟨l, first, h1, h2, h4, h5, ?_⟩
  intro k ct x0 steps hk hg hl hsz
  obtain ⟨res, hr, ht, hu'⟩ := extract_cascade k ct hk x0 steps hg
  have hne : l ≠ [] := by intro e; simp [e] at h3
  have hcu := chainUsage_first ref l steps x0 hne hl
  refine ⟨res, hr, ?_, ?_, ?_⟩
  · intro tk htk; rw [ht] at htk; simp at htk; exact htk.2.symm
  · rw [h6, hu', hcu, h4]
    by_cases hs : b.spilling
    · simp only [hs, ↓reduceIte] at hsz ⊢
      simp [hsz.1, hsz.2]
    · simp only [hs, Bool.false_eq_true, ↓reduceIte] at hsz ⊢
      have : (if x0.inTarget = true then x0.size else 0) ≤ first.ifm.sizeInBytes := by
        split
        · next hh => exact hsz.1 hh
        · omega
      have := hsz.2
      omega
  · intro hs
    have hlim := dedicated_sram_cascade_within_limit b ref fb limit st hu hs h ci hci
    rw [h6, hu', hcu] at *
    simp only [hs, ↓reduceIte] at hsz hlim ⊢
    simp only [hsz.1, hsz.2, Bool.false_eq_true, ↓reduceIte] at hlim ⊢
    omega

/-! Non-vacuity: the two convolutions of the witness above with 8-row stripes; feature maps of 8192 / 32768 / 8192 bytes.  The
live ranges of the cascade need 8192 + 20480 (rolling buffer, not the 32768 bytes of the whole map) + 8192 = 36864 bytes, which
is exactly `mem_usage`. -/

def nvX0 : LiveRange.Tensor :=
  { id := 0, eqId := 0, purpose := .other, inTarget := true, size := 8192, shapeEmpty := false, writeProtected := false,
    format := 0, dtype := 0, consumers := 1, producers := 1, isVariable := false, preBuffer := false }
def nvX1 : LiveRange.Tensor := { nvX0 with id := 1, eqId := 1, size := 32768 }
def nvX2 : LiveRange.Tensor := { nvX0 with id := 2, eqId := 2, size := 8192 }
def nvSteps : List Step := [⟨[], nvX1, 0⟩, ⟨[], nvX2, 20480⟩]

example : GoodTensors nvX0 nvSteps :=
  ⟨by decide, rfl, by intro s hs; simp [nvSteps] at hs; rcases hs with rfl | rfl <;> exact ⟨rfl, by simp⟩⟩

example : Linked wRefB none [wOp0, wOp1] nvSteps :=
  .cons none wOp0 [wOp1] _ _ rfl (by intro p h; cases h) (.cons (some wOp0) wOp1 [] _ _ rfl (by intro p h; cases h; rfl) (.nil _))

example : chainUsage true nvX0 nvSteps = 36864 ∧ finalBytes nvX0 nvSteps = 8192 ∧ lastOfm [wOp0, wOp1] = 8192 := by decide

/-! ## (d) the memory snapshot -/

/-- **snapshot_is_temporal_usage (d).**  `update_op_memory_snapshot` stores `get_temporal_memory_usage` of the ranges it
    extracts.  For every list of ranges (any times, sizes, memory areas) and every `current_time`: when the function
    returns (its assertion `end_time <= get_endtime() + 1` holds) and no tick holds 2 GiB or more (`np.int32` array), the
    snapshot has `current_time + 2` entries and entry `t` is the sum of the sizes of the ranges of the target area alive at
    `t` — `Spec.SchedMem.SnapshotCorrect`.  (Serves "reported memory is sufficient" of C12: the reported peak, the
    non-local usage and every slack the scheduler computes are read from this array.) -/
theorem snapshot_is_temporal_usage (lrs : List TLR) (ct : Nat) (u : List Int)
    (hb : ∀ t, Spec.SchedMem.usageAt (lrs.filterMap TLR.toRng) t < 2147483648) (h : temporalUsage lrs ct = .ok u) :
    u.length = ct + 2 ∧ Spec.SchedMem.SnapshotCorrect (lrs.filterMap TLR.toRng) u := by
  have hb' : ∀ t, tlrUsage lrs t < 2147483648 := by intro t; rw [← usageAt_toRng]; exact hb t
  obtain ⟨hl, hv⟩ := temporalUsage_val lrs ct u hb' h
  refine ⟨hl, ?_⟩
  intro t ht
  have := hv t (by omega)
  rw [usageAt_toRng, ← this]
  simp [val, List.getD, ht]

/-- the peak the scheduler compares with the SRAM target is the largest number of bytes in use -/
theorem peakUsage_ge (u : List Int) (t : Nat) (ht : t < u.length) : u[t] ≤ peakUsage u := by
  have gen : ∀ (l : List Int) (acc : Int), acc ≤ l.foldl max acc ∧ ∀ (i : Nat) (hi : i < l.length), l[i] ≤ l.foldl max acc := by
    intro l
    induction l with
    | nil => intro acc; exact ⟨Int.le_refl _, by intro i hi; simp at hi⟩
    | cons a r ih =>
      intro acc
      simp only [List.foldl_cons]
      have := ih (max acc a)
      refine ⟨Int.le_trans (Int.le_max_left _ _) this.1, ?_⟩
      intro i hi
      cases i with
      | zero => exact Int.le_trans (Int.le_max_right _ _) this.1
      | succ j => simpa using this.2 j (by simpa using hi)
  cases u with
  | nil => simp at ht
  | cons x xs =>
    unfold peakUsage
    cases t with
    | zero => exact (gen xs x).1
    | succ j => simpa using (gen xs x).2 j (by simpa using ht)

/-- **snapshot_wraps_witness.**  Without the bound the entries are not the bytes in use: two ranges of 2147483632 and 32
    bytes alive together give a negative entry (`np.int32`). -/
theorem snapshot_wraps_witness :
    temporalUsage [⟨0, 2, 2147483632, true⟩, ⟨0, 2, 32, true⟩] 0 = .ok [-2147483632, -2147483632] := by rfl

/-! ## (b) what stays in fast storage fits the limit (the Dedicated-SRAM clause of C02 at the level of live ranges) -/

/-- **fast_storage_within_limit (b).**  `use_fast_storage_for_feature_maps(schedule, staging_limit)` after the extraction of
    the live ranges, for **every** set of ranges (any times, sizes, which of them the scheduler may move — `scratched_fms` —,
    any access scores) and every limit: whenever the function returns (its final assertion included), then at every tick
    `t < current_time + 2` the ranges of fast storage that remain — those it may not move plus the movable ones `evict` was not
    called for — need at most `max(limit, what the immovable ones need on their own)` (`Spec.SchedMem.FastStorageFits`):
    in Dedicated-SRAM configurations, where the limit is `arena_cache_size`, the feature maps the scheduler itself puts into
    the SRAM cache never push its usage above the configured size.
    Hypotheses: the identities of the ranges are distinct, every movable range belongs to the target area (both hold for
    `lr_graph.lrs` of a graph extracted for one area; checked on every real call by the harness), no tick holds 2 GiB.
    That the function does not end in its final assertion instead is `fast_storage_assertion_holds` below. -/
theorem fast_storage_within_limit (lrs : List FLR) (ct : Nat) (limit : Int) (r : FSResult)
    (hids : (lrs.map (·.id)).Nodup) (harea : ∀ lr ∈ lrs, lr.scratched = true → lr.inArea = true)
    (hb : ∀ t, Spec.SchedMem.usageAt ((lrs.map (·.tlr)).filterMap TLR.toRng) t < 2147483648)
    (h : useFastStorage lrs ct limit = .ok r) :
    Spec.SchedMem.FastStorageFits (frngs lrs r.st.evicted) limit (ct + 2) :=
  useFastStorage_fits lrs ct limit r hids harea (by intro t; rw [← usageAt_toRng]; exact hb t) h

/-- **fast_storage_assertion_holds.**  The final assertion of `use_fast_storage_for_feature_maps` ("Allocation exceeds staging
    limit", as stated since repair C13-36: `usage <= max(staging_limit, fixed)`) holds for **every** set of ranges with distinct
    identities, every limit and all access scores: once `get_temporal_memory_usage` has returned, the function never ends in an
    AssertionError.  (The other outcomes the model has — IndexError / ValueError of a range outside the usage array or an empty
    slice — do not occur for extracted ranges and are not excluded here.)  Proof: `max_mem_usage = base_mem_usage + undecided
    ranges` and "where `base_mem_usage` exceeds the limit it still is the fixed usage" are invariants of every `evict` / guarded
    `keep` (`GInv`); the exhaustive search records only patterns whose kept ranges passed `can_fit` in order (`allocExh_good`), and
    it always reaches a leaf because `always_fits` implies `can_fit` (`allocExh_reaches`). -/
theorem fast_storage_assertion_holds (lrs : List FLR) (ct : Nat) (limit : Int) (maxU : List Int)
    (hids : (lrs.map (·.id)).Nodup) (hT : temporalUsage (lrs.map (·.tlr)) ct = .ok maxU) :
    useFastStorage lrs ct limit ≠ .error .assert_ :=
  useFastStorage_no_assert lrs ct limit maxU hids hT

/-- **fast_storage_total.**  Total correctness: for every set of ranges with distinct identities in which no range ends after
    tick `current_time + 2` (the assertion of `get_temporal_memory_usage`) and every movable range was marked and lies inside
    the usage array (`start ≤ end ≤ current_time + 1`, as every range `extract_live_ranges_from_schedule` marks does), belongs to
    the target area, and no tick holds 2 GiB: `use_fast_storage_for_feature_maps` **returns** — no AssertionError, IndexError
    or ValueError — and what it leaves in fast storage fits `max(limit, immovable part)` at every tick. -/
theorem fast_storage_total (lrs : List FLR) (ct : Nat) (limit : Int)
    (hids : (lrs.map (·.id)).Nodup) (hend : ∀ lr ∈ lrs, lr.end_ ≤ ct + 2)
    (hin : ∀ lr ∈ lrs, lr.scratched = true → lr.Inside (ct + 2))
    (harea : ∀ lr ∈ lrs, lr.scratched = true → lr.inArea = true)
    (hb : ∀ t, Spec.SchedMem.usageAt ((lrs.map (·.tlr)).filterMap TLR.toRng) t < 2147483648) :
    ∃ r, useFastStorage lrs ct limit = .ok r ∧ Spec.SchedMem.FastStorageFits (frngs lrs r.st.evicted) limit (ct + 2) := by
  obtain ⟨r, hr⟩ := useFastStorage_total lrs ct limit hids hend hin
  exact ⟨r, hr, fast_storage_within_limit lrs ct limit r hids harea hb hr⟩

/-- the loop "Force all OFMs to fast-storage" moves only what the Spec allows: no feature map that is read outside the NPU
    subgraph, no variable tensor write (the guard seeded change C12-r3m2 weakened) -/
theorem forced_to_fast_allowed (cascade nDependants : Nat) (outsideConsumer varWrite : Bool) :
    Spec.SchedMem.MoveAllowed (forcedToFast cascade nDependants outsideConsumer varWrite) outsideConsumer varWrite := by
  unfold Spec.SchedMem.MoveAllowed forcedToFast
  cases outsideConsumer <;> cases varWrite <;> simp

/-! Non-vacuity: limit 100; an immovable range of 40 bytes on ticks 0..3, movable ranges of 30 bytes (ticks 0..1, score 5),
50 bytes (ticks 1..3, score 9) and 200 bytes (ticks 2..3).  The 200-byte range can never fit and is evicted first; the two
others compete (40 + 30 + 50 > 100 at tick 1) and the one with the lower score is evicted. -/
def nvLrs : List FLR :=
  [⟨0, 0, 3, 40, true, false, 0⟩, ⟨1, 0, 1, 30, true, true, 5⟩, ⟨2, 1, 3, 50, true, true, 9⟩, ⟨3, 2, 3, 200, true, true, 1⟩]

example : (match useFastStorage nvLrs 2 100 with
    | .ok r => some (r.entered, r.st.evicted, r.st.kept, r.st.maxU, r.fixed)
    | .error _ => none) = some (true, [3, 1], [2], [40, 90, 90, 90], [40, 40, 40, 40]) := by decide

/-! ## Stripe input and weight buffers -/

/-- **stripe_input_matches_rolling_hypothesis.**  For a striped operator without upscaling, the height of `stripe_input` that
    `create_scheduler_info` stores — the `consumer_stripe_input.height` of `rolling_buffer_shape` — is
    `min((q - 1)·stride + k_dil, H)` for a stripe of `q` rows: exactly the hypothesis `hc` of C10's `rolling_sufficient`. -/
theorem stripe_input_matches_rolling_hypothesis (ofmShape stripe ifmShape : Shape4) (ifm2 : Option Shape4) (sy sx areaH areaW : Int)
    (hne : stripe ≠ ofmShape) (hq : 1 ≤ stripe.h) (hs : 1 ≤ sy) (hk : 1 ≤ areaH) :
    ((stripeInputs ofmShape stripe ifmShape ifm2 sy sx areaH areaW 1 false).1.h : Int) =
      min (((stripe.h : Int) - 1) * sy + areaH) ifmShape.h := by
  have hb : (stripe != ofmShape) = true := by simpa using hne
  simp only [stripeInputs, hb, ↓reduceIte, Shape4.withHW, Box.getIfmAreaRequired, Box.requiredSize, Bool.false_eq_true]
  have hpos : 0 ≤ ((stripe.h : Int) - 1) * sy := Int.mul_nonneg (by omega) (by omega)
  have e : (((stripe.h : Int) - 1) * sy + areaH + 0 + 1 - 1) / 1 = ((stripe.h : Int) - 1) * sy + areaH := by
    rw [Int.ediv_one]; omega
  rw [e]
  omega

/-- **weight_buffers_within_limit.**  The buffers `propose_weight_buffering` creates (one, or two when double buffering)
    fit the buffer limit it was given; with `operatorBuffering` (`limit = staging_limit - snapshot[t]`, minus the evicted
    feature maps when applicable): snapshot entry + weight buffers ≤ staging limit. -/
theorem weight_buffers_within_limit (bufferLimit : Int) (bufLen db0 db1 nSlices cascade : Nat) (prevSlack : Int) (w : WeightBuffers)
    (h : weightBufferDecision bufferLimit bufLen db0 db1 nSlices cascade prevSlack = .ok (some w)) :
    (sumNat w.buffers : Int) ≤ bufferLimit ∧ (w.slackUsed : Int) ≤ bufferLimit := by
  unfold weightBufferDecision at h
  simp only at h
  split at h
  · next hle =>
    split at h
    · simp at h
    · simp only [Except.ok.injEq, Option.some.injEq] at h
      subst h
      cases h2 : decide (((db0 + db1 : Nat) : Int) ≤ bufferLimit) <;> cases h3 : decide (min bufLen (max db0 db1) < bufLen)
      all_goals simp only [Bool.and_self, Bool.and_true, Bool.and_false, Bool.false_eq_true, ↓reduceIte, sumNat, List.foldl]
      · exact ⟨by omega, by omega⟩
      · exact ⟨by omega, by omega⟩
      · exact ⟨by omega, by omega⟩
      · have hd : ((db0 + db1 : Nat) : Int) ≤ bufferLimit := by simpa using h2
        refine ⟨by omega, ?_⟩
        split <;> omega
  · simp at h

theorem operator_buffering_fits (snapshot : List Int) (t : Nat) (stagingLimit : Int) (evicted : Nat) :
    (operatorBuffering snapshot t stagingLimit evicted).2 ≤ (operatorBuffering snapshot t stagingLimit evicted).1 ∧
    snapshot.getD t 0 + (operatorBuffering snapshot t stagingLimit evicted).1 = stagingLimit := by
  unfold operatorBuffering
  simp only
  refine ⟨?_, by omega⟩
  split <;> omega

end VelaVerif.Props.C12Sched
