import VelaVerif.Lemmas.SchedMem
import VelaVerif.Spec.SchedMem
/-!
# C12 / C02 — what the scheduler assumes a schedule needs is what the schedule really needs

`Model/SchedMem.lean` transcribes the memory bookkeeping of `scheduler.py` / `cascade_builder.py` (equal to the real
`CascadeBuilder` / `Scheduler` on every call of every compiled network of the cascade-heavy corpus, `harness/sched_lib.py`).
The theorems say, for **every** input of the modelled functions (any operations, any stripes the search could propose,
any non-local usage, any limit):

* (c) `buffer_map_consistent`, `accepted_buffers_sufficient` — the buffer recorded for a (producer, consumer) pair of an
  accepted cascade is `rolling_buffer_shape` of the stripes of the cost map the cascade was built from, hence sufficient in
  the sense of `Spec.SchedMem.BufferSufficient` (the hypotheses of C10's `rolling_sufficient`);
  `buffer_map_stale_witness`: a cache that outlives one call does not have this property (serves C10 / C02);
* (a) `cascade_estimate_closed_form`, `dedicated_sram_cascade_within_limit` — what `CascadeInfo.mem_usage` stands for, and
  the hard limit in Dedicated-SRAM mode (serves the Dedicated-SRAM clause of C02 and "reported memory is sufficient" of C12);
  the bridge to `Model/LiveRange.lean` is `cascade_estimate_covers_liverange_peak` below.
-/
namespace VelaVerif.Props.C12Sched
open VelaVerif VelaVerif.SchedMem VelaVerif.Cascade

/-- **buffer_map_consistent (c).**  `build_cascades` starts with an empty `BufferMap`.  For every cascade it returns and every
    entry `(j, shape)` of `CascadeInfo.buffers`: `j` is the index of an operation `c` of the builder whose predecessor `p`
    (index `j - 1`) is its producer, neither side needs its feature map in full, and `shape` is
    `rolling_buffer_shape(cost[p].stripe, cost[c].stripe_input, ifm_box_overread(c))` for the cost map `ref` **of this call**.
    (Any cost maps, any limit; `UniqueIdx`: two operations of `sched_ops` have different `index`.) -/
theorem buffer_map_consistent (b : Builder) (ref fb : CostMap) (limit : Int) (st : BState) (hu : UniqueIdx b.ops)
    (h : buildCascades b ref fb limit = .ok st) :
    ∀ ci ∈ st.cascades, ∀ e ∈ ci.buffers, ∃ p c pc cc,
      p ∈ b.ops ∧ c ∈ b.ops ∧ p.index + 1 = c.index ∧ c.index = e.1 ∧
      ref.lookup p.index = some pc ∧ ref.lookup c.index = some cc ∧ e.2.n = 1 ∧
      rollingBufferShape pc.stripe.h pc.stripe.w pc.stripe.c cc.stripeInput.h cc.stripeInput.w c.overread = .ok (e.2.h, e.2.w, e.2.c) := by
  intro ci hci e he
  have hinv := buildCascadesFrom_inv [] b ref fb limit st hu (by intro p _ c _ v hv; simp at hv) h
  obtain ⟨p, c, hp, hc, hidx, hj, h1, h2, sz, hcb⟩ := (hinv.good ci hci).bufs e he
  obtain ⟨pc, cc, bh, bw, bd, hpc, hcc, hr, hv⟩ := computeBuffer_rolling h1 h2 hcb
  refine ⟨p, c, pc, cc, hp, hc, hidx, hj, hpc, hcc, ?_, ?_⟩
  · have := congrArg (·.1.n) hv; simpa using this
  · have e1 := congrArg (·.1.h) hv; have e2 := congrArg (·.1.w) hv; have e3 := congrArg (·.1.c) hv
    simp only at e1 e2 e3
    rw [e1, e2, e3]; exact hr

/-- the same for a builder that is handed a cache: if every cached entry agrees with the cost map of the call, so does every
    buffer of every cascade of the result (the invariant `get_buffer` maintains) -/
theorem buffer_map_consistent_from (bm0 : BufferMap) (b : Builder) (ref fb : CostMap) (limit : Int) (st : BState)
    (hu : UniqueIdx b.ops) (h0 : bm0.Consistent b.ops ref) (h : buildCascadesFrom bm0 b ref fb limit = .ok st) :
    st.bm.Consistent b.ops ref ∧ ∀ ci ∈ st.cascades, BufsOf b.ops ref ci.buffers := by
  have hinv := buildCascadesFrom_inv bm0 b ref fb limit st hu h0 h
  exact ⟨hinv.bm, fun ci hci => (hinv.good ci hci).bufs⟩

/-- `rolling_buffer_shape` satisfies the Spec: tall enough for one producer stripe, one consumer stripe and the over-read,
    a multiple of the consumer stripe, as wide as the wider side, channels in bricks of 16 -/
theorem rollingBufferShape_sufficient (pH pW pD cH cW over bh bw bd : Nat)
    (hr : rollingBufferShape pH pW pD cH cW over = .ok (bh, bw, bd)) :
    Spec.SchedMem.BufferSufficient pH pW pD cH cW over bh bw bd := by
  unfold rollingBufferShape at hr
  split at hr
  · cases hr
  · rename_i hc
    simp only [Except.ok.injEq, Prod.mk.injEq] at hr
    obtain ⟨rfl, rfl, rfl⟩ := hr
    unfold Cascade.roundUp
    refine ⟨?_, Nat.dvd_mul_left _ _, by omega, by omega, ?_, Nat.dvd_mul_left _ _⟩
    · have h2 := Nat.div_add_mod (pH + cH + (over - 1) + cH - 1) cH
      have h3 := Nat.mod_lt (pH + cH + (over - 1) + cH - 1) (by omega : cH > 0)
      have e : (pH + cH + (over - 1) + cH - 1) / cH * cH = cH * ((pH + cH + (over - 1) + cH - 1) / cH) := Nat.mul_comm _ _
      omega
    · omega

/-- **accepted_buffers_sufficient (c, in the terms of the Spec).**  Every rolling buffer of every cascade `build_cascades`
    accepts is sufficient for the stripes of the schedule it accepted it for. -/
theorem accepted_buffers_sufficient (b : Builder) (ref fb : CostMap) (limit : Int) (st : BState) (hu : UniqueIdx b.ops)
    (h : buildCascades b ref fb limit = .ok st) :
    ∀ ci ∈ st.cascades, ∀ e ∈ ci.buffers, ∃ p c pc cc,
      p ∈ b.ops ∧ c ∈ b.ops ∧ p.index + 1 = c.index ∧ c.index = e.1 ∧ ref.lookup p.index = some pc ∧ ref.lookup c.index = some cc ∧
      Spec.SchedMem.BufferSufficient pc.stripe.h pc.stripe.w pc.stripe.c cc.stripeInput.h cc.stripeInput.w c.overread e.2.h e.2.w e.2.c := by
  intro ci hci e he
  obtain ⟨p, c, pc, cc, hp, hc, hidx, hj, hpc, hcc, _, hr⟩ := buffer_map_consistent b ref fb limit st hu h ci hci e he
  exact ⟨p, c, pc, cc, hp, hc, hidx, hj, hpc, hcc, rollingBufferShape_sufficient _ _ _ _ _ _ _ _ _ hr⟩

/-! ### The invariant a longer-lived cache breaks

Two convolutions 32×32, 8 → 32 → 8 channels.  `refA`: 2-row stripes (consumer reads 4 rows), `refB`: 8-row stripes (consumer
reads 10 rows).  A cache filled by a call with `refA` and reused by a call with `refB` (what hoisting `BufferMap()` from
`build_cascades` into the builder does) returns the 8-row buffer of the first call: the cascade is accepted with a smaller
estimate, and its buffer is lower than one producer stripe plus one consumer stripe. -/

def wOp0 : SOp :=
  { index := 0, ifm := ⟨⟨1, 32, 32, 8⟩, 1, false⟩, ifm2 := none, ofm := ⟨⟨1, 32, 32, 32⟩, 1, true⟩, reqFullIfm := true, reqFullOfm := false,
    binaryEw := false, ofmCanReuseIfm := false, cascadableStatic := true, dependants := [1], overread := 0 }
def wOp1 : SOp :=
  { index := 1, ifm := ⟨⟨1, 32, 32, 32⟩, 1, true⟩, ifm2 := none, ofm := ⟨⟨1, 32, 32, 8⟩, 1, false⟩, reqFullIfm := false, reqFullOfm := true,
    binaryEw := false, ofmCanReuseIfm := false, cascadableStatic := true, dependants := [], overread := 0 }
def wBuilder : Builder := { ops := [wOp0, wOp1], spilling := false, nonLocal := [] }
def wRefA : CostMap := [(0, ⟨⟨1, 2, 32, 32⟩, ⟨1, 4, 32, 8⟩, [], 0⟩), (1, ⟨⟨1, 2, 32, 8⟩, ⟨1, 4, 32, 32⟩, [], 0⟩)]
def wRefB : CostMap := [(0, ⟨⟨1, 8, 32, 32⟩, ⟨1, 10, 32, 8⟩, [], 0⟩), (1, ⟨⟨1, 8, 32, 8⟩, ⟨1, 10, 32, 32⟩, [], 0⟩)]
def wFb : CostMap := [(0, ⟨⟨1, 32, 32, 32⟩, ⟨1, 32, 32, 8⟩, [], 0⟩), (1, ⟨⟨1, 32, 32, 8⟩, ⟨1, 32, 32, 32⟩, [], 0⟩)]

def cascadesOf (r : Except Err BState) : Option (List CascadeInfo) :=
  match r with | .ok st => some st.cascades | .error _ => none
def cacheOf (r : Except Err BState) : BufferMap :=
  match r with | .ok st => st.bm | .error _ => []

/-- the code as it is: each call computes the buffer of its own stripes (8 rows for `refA`, 20 rows for `refB`) -/
example : cascadesOf (buildCascades wBuilder wRefA wFb 0) = some [⟨0, 1, [(1, ⟨1, 8, 32, 32⟩)], 24576⟩] ∧
    cascadesOf (buildCascades wBuilder wRefB wFb 0) = some [⟨0, 1, [(1, ⟨1, 20, 32, 32⟩)], 36864⟩] := by decide

/-- **buffer_map_stale_witness.**  With the cache of the `refA` call, the `refB` call accepts the cascade with the 8-row buffer
    and the estimate of the first call; the buffer is not `rolling_buffer_shape` of the current stripes and violates the Spec
    (8 < 8 + 10). -/
theorem buffer_map_stale_witness :
    cascadesOf (buildCascadesFrom (cacheOf (buildCascades wBuilder wRefA wFb 0)) wBuilder wRefB wFb 0)
      = some [⟨0, 1, [(1, ⟨1, 8, 32, 32⟩)], 24576⟩] ∧
    ¬ Spec.SchedMem.BufferSufficient 8 32 32 10 32 0 8 32 32 ∧
    ¬ (cacheOf (buildCascades wBuilder wRefA wFb 0)).Consistent wBuilder.ops wRefB := by
  refine ⟨by decide, ?_, ?_⟩
  · intro h; have := h.1; omega
  · intro h
    have := h wOp0 (by simp [wBuilder]) wOp1 (by simp [wBuilder]) (⟨1, 8, 32, 32⟩, 8192) (by decide)
    have e : computeBuffer (some wOp0) (some wOp1) wRefB = .ok (⟨1, 20, 32, 32⟩, 20480) := by rfl
    rw [e] at this
    simp at this

/-! ## (a) what `CascadeInfo.mem_usage` stands for -/

/-- **cascade_estimate_closed_form (a, builder side).**  For every cascade `build_cascades` returns there is the chain
    `l` of its operations (consecutive indices `start … end`, each pair joined by a rolling buffer) such that
    `mem_usage + non_local(first)` is
    * Dedicated SRAM (`spilling`): the weight buffers of all operations + the rolling buffers between them,
    * otherwise: the first operation's IFM in full + those buffers + the last operation's OFM in full + the non-local
      usage of the first operation;
    and in Dedicated-SRAM mode that sum does not exceed the limit the builder was given (`dedicated_sram_cascade_within_limit`). -/
theorem cascade_estimate_closed_form (b : Builder) (ref fb : CostMap) (limit : Int) (st : BState) (hu : UniqueIdx b.ops)
    (h : buildCascades b ref fb limit = .ok st) :
    ∀ ci ∈ st.cascades, ∃ (l : List SOp) (first : SOp),
      RChain b.ops l ∧ l.head? = some first ∧ l.length > 1 ∧ first.index = ci.start ∧ ci.end_ = ci.start + (l.length - 1) ∧
      ci.memUsage + b.nl ci.start =
        (if b.spilling then (chainBuffers ref l : Int)
         else ((first.ifm.sizeInBytes + chainBuffers ref l + lastOfm l : Nat) : Int) + b.nl first.index) := by
  intro ci hci
  have hinv := buildCascadesFrom_inv [] b ref fb limit st hu (by intro p _ c _ v hv; simp at hv) h
  obtain ⟨l, first, h1, h2, h3, h4, h5, h6, _⟩ := (hinv.good ci hci).ex
  refine ⟨l, first, h1, h2, h3, h4, h5, ?_⟩
  rw [h6]; unfold cascadeSizeOf
  split <;> simp_all

theorem dedicated_sram_cascade_within_limit (b : Builder) (ref fb : CostMap) (limit : Int) (st : BState) (hu : UniqueIdx b.ops)
    (hs : b.spilling = true) (h : buildCascades b ref fb limit = .ok st) :
    ∀ ci ∈ st.cascades, ci.memUsage + b.nl ci.start ≤ limit := by
  intro ci hci
  have hinv := buildCascadesFrom_inv [] b ref fb limit st hu (by intro p _ c _ v hv; simp at hv) h
  obtain ⟨l, first, _, _, _, _, _, _, h7⟩ := (hinv.good ci hci).ex
  exact h7 hs

/-! ## (d) the memory snapshot -/

/-- **snapshot_is_temporal_usage (d).**  `update_op_memory_snapshot` stores `get_temporal_memory_usage` of the ranges it
    extracts.  For every list of ranges (any times, sizes, memory areas) and every `current_time`: when the function
    returns (its assertion `end_time <= get_endtime() + 1` holds) and no tick holds 2 GiB or more (`np.int32` array), the
    snapshot has `current_time + 2` entries and entry `t` is the sum of the sizes of the ranges of the target area alive at
    `t` — `Spec.SchedMem.SnapshotCorrect`.  (Serves "reported memory is sufficient" of C12: the reported peak, the
    non-local usage and every slack the scheduler computes are read from this array.) -/
theorem snapshot_is_temporal_usage (lrs : List TLR) (ct : Nat) (u : List Int)
    (hb : ∀ t, Spec.SchedMem.usageAt (lrs.filterMap TLR.toRng) t < 2147483648) (h : temporalUsage lrs ct = .ok u) :
    u.length = ct + 2 ∧ Spec.SchedMem.SnapshotCorrect (lrs.filterMap TLR.toRng) u := by
  have hb' : ∀ t, tlrUsage lrs t < 2147483648 := by intro t; rw [← usageAt_toRng]; exact hb t
  obtain ⟨hl, hv⟩ := temporalUsage_val lrs ct u hb' h
  refine ⟨hl, ?_⟩
  intro t ht
  have := hv t (by omega)
  rw [usageAt_toRng, ← this]
  simp [val, List.getD, ht]

/-- the peak the scheduler compares with the SRAM target is the largest number of bytes in use -/
theorem peakUsage_ge (u : List Int) (t : Nat) (ht : t < u.length) : u[t] ≤ peakUsage u := by
  unfold peakUsage
  have gen : ∀ (l : List Int) (acc : Int) (i : Nat) (hi : i < l.length), l[i] ≤ l.foldl max acc ∧ acc ≤ l.foldl max acc := by
    intro l
    induction l with
    | nil => intro acc i hi; simp at hi
    | cons a r ih =>
      intro acc i hi
      simp only [List.foldl_cons]
      have hacc : ∀ (l : List Int) (acc : Int), acc ≤ l.foldl max acc := by
        intro l; induction l with
        | nil => intro acc; simp
        | cons b r ih2 => intro acc; simp only [List.foldl_cons]; exact Int.le_trans (Int.le_max_left _ _) (ih2 _)
      cases i with
      | zero => exact ⟨Int.le_trans (Int.le_max_right _ _) (hacc r _), Int.le_trans (Int.le_max_left _ _) (hacc r _)⟩
      | succ j =>
        have := ih (max acc a) j (by simpa using hi)
        exact ⟨by simpa using this.1, Int.le_trans (Int.le_max_left _ _) this.2⟩
  exact (gen u 0 t ht).1

/-- **snapshot_wraps_witness.**  Without the bound the entries are not the bytes in use: two ranges of 2147483632 and 32
    bytes alive together give a negative entry (`np.int32`). -/
theorem snapshot_wraps_witness :
    temporalUsage [⟨0, 2, 2147483632, true⟩, ⟨0, 2, 32, true⟩] 0 = .ok [-2147483632, -2147483632] := by rfl

end VelaVerif.Props.C12Sched
