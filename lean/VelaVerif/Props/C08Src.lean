import VelaVerif.Lemmas.SrcWeightCompressor
/-!
# C08 (source tie) — `weight_compressor.encode_bias`, translated from the source text, equals `WeightLayout.encodeBias`

`Gen/SrcWeightCompressor.lean` is regenerated from /repo's source text on every run: the three `isinstance` asserts
(tests of the run-time tag), the three range asserts, `bytearray(10)` and the ten byte stores (`pySetByte`: value in
`range(0, 256)` or `ValueError`).  The hand model `Model/WeightLayout.lean` `encodeBias` — the subject of
`Props/C08.lean` `bias_record_roundtrip` — takes the three integers; the entry assumption of the theorem is the one the
function asserts itself: `bias` is an `np.int64`, `scale` and `shift` are Python ints.
-/
namespace VelaVerif.Props.C08Src
open VelaVerif VelaVerif.PyRt VelaVerif.WeightLayout
open VelaVerif.Gen.SrcWeightCompressor

/-- for **all** integers `bias` (tagged `np.int64`), `scale`, `shift`: the translated `encode_bias` raises
    `AssertionError` exactly when the model says `Err.assert`, and returns the model's ten bytes (as Python ints, the
    elements of the `bytearray`) otherwise -/
theorem src_encode_bias_eq_model (bias scale shift : Int) :
    encode_bias ⟨.i64, bias⟩ (.py scale) (.py shift) =
      match encodeBias bias scale shift with
      | .ok bytes => .ok (bytes.map fun (b : Nat) => Num.py (b : Int))
      | .error _ => .error .assert_ := by
  by_cases h : InRange bias scale shift
  · rw [encodeBias_ok _ _ _ h]; exact SrcWeightCompressor.encode_bias_ok _ _ _ h
  · rw [encodeBias_err _ _ _ h]; exact SrcWeightCompressor.encode_bias_err _ _ _ h

/-- the entry assumption is needed: with a Python-int `bias` the source fails `assert isinstance(bias, np.int64)`
    where the model (which takes plain integers) returns a record -/
theorem src_encode_bias_python_int_bias_witness :
    encode_bias (.py (-684)) (.py 1167018453) (.py 39) = .error .assert_ ∧
      (encodeBias (-684) 1167018453 39).toOption = some [0x54, 0xfd, 0xff, 0xff, 0xff, 0xd5, 0x49, 0x8f, 0x45, 0x27] :=
  ⟨SrcWeightCompressor.encode_bias_py_bias _ _ _, by decide⟩

/-- non-vacuity: the record of `Props/C08.lean`'s example, from the translated source -/
example : encode_bias ⟨.i64, -684⟩ (.py 1167018453) (.py 39) =
    .ok ([0x54, 0xfd, 0xff, 0xff, 0xff, 0xd5, 0x49, 0x8f, 0x45, 0x27].map fun (b : Nat) => Num.py (b : Int)) := by
  have h : InRange (-684) 1167018453 39 := by unfold InRange; omega
  have hr : recordBytes (-684) 1167018453 39 = [0x54, 0xfd, 0xff, 0xff, 0xff, 0xd5, 0x49, 0x8f, 0x45, 0x27] := by decide
  rw [SrcWeightCompressor.encode_bias_ok _ _ _ h, hr]

end VelaVerif.Props.C08Src
