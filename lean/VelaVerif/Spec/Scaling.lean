/-!
# Spec for C09 — what a quantised (multiplier, shift) pair has to satisfy

Independent of `Model/Scaling.lean` (no import): everything is stated over exact integers.
A dyadic value is a pair `(a, e)` meaning `a · 2^e`; two dyadics are compared after bringing both
to the smaller exponent, so no division and no rounding takes place anywhere in this file.

* `QuantOk`       : the full clause of the property for `quantise_scale`
* `ReducedOk`     : the reduced (int16) form
* `tfliteQuantizeMultiplier` : the TFLite reference derivation (transcribed from
  `tensorflow/lite/kernels/internal/quantization_util.cc`; assumption, the sources are not in the sandbox)
* `refAvg`, `PoolOk` : the reference average-pool rounding and the pooling pair's obligation
* `RatioOk`       : a pair reproduces a real quotient `num/den` to a stated relative tolerance
-/
namespace VelaVerif.Spec.Scaling

/-- `a · 2^e` expressed in units of `2^emin` (`emin ≤ e`) -/
def scaleTo (a : Int) (e emin : Int) : Int := a * 2 ^ (e - emin).toNat

/-- `a·2^ea = b·2^eb` -/
def DyEq (a ea b eb : Int) : Prop := scaleTo a ea (min ea eb) = scaleTo b eb (min ea eb)
/-- `a·2^ea ≤ b·2^eb` -/
def DyLe (a ea b eb : Int) : Prop := scaleTo a ea (min ea eb) ≤ scaleTo b eb (min ea eb)
/-- `a·2^ea < b·2^eb` -/
def DyLt (a ea b eb : Int) : Prop := scaleTo a ea (min ea eb) < scaleTo b eb (min ea eb)

instance (a ea b eb : Int) : Decidable (DyEq a ea b eb) := by unfold DyEq; infer_instance
instance (a ea b eb : Int) : Decidable (DyLe a ea b eb) := by unfold DyLe; infer_instance
instance (a ea b eb : Int) : Decidable (DyLt a ea b eb) := by unfold DyLt; infer_instance

/-- `|a·2^ea − b·2^eb| ≤ (tolN / tolD) · b·2^eb`, denominators cleared -/
def RelErr (a ea b eb : Int) (tolN tolD : Nat) : Prop :=
  ((scaleTo a ea (min ea eb) - scaleTo b eb (min ea eb)).natAbs : Int) * tolD
    ≤ scaleTo b eb (min ea eb) * tolN

instance (a ea b eb : Int) (n d : Nat) : Decidable (RelErr a ea b eb n d) := by
  unfold RelErr; infer_instance

/-- register fields: 32-bit multiplier normalised to `[2^30, 2^31]`, 6-bit shift -/
def InRange (q s : Int) : Prop := 2 ^ 30 ≤ q ∧ q ≤ 2 ^ 31 ∧ 0 ≤ s ∧ s ≤ 63

instance (q s : Int) : Decidable (InRange q s) := by unfold InRange; infer_instance

/-- The scale `m·2^e` (`m > 0`) can be written `q · 2^-s` with `q ∈ [2^30, 2^31)`, `s ∈ [0, 63]`,
    i.e. `2^-33 ≤ m·2^e < 2^31`: "the hardware range". -/
def HwRange (m : Nat) (e : Int) : Prop := DyLe 1 (-33) m e ∧ DyLt m e 1 31

instance (m : Nat) (e : Int) : Decidable (HwRange m e) := by unfold HwRange; infer_instance

/-! ### TFLite reference `QuantizeMultiplier` -/

/-- `TfLiteRound(m / 2^bits)` for `m ≥ 0`: nearest integer, ties away from zero -/
def roundHalfAway (m : Nat) (bits : Nat) : Nat :=
  m / 2 ^ bits + (if 2 * (m % 2 ^ bits) ≥ 2 ^ bits then 1 else 0)

/-- bring `0 < m` to `2^52 ≤ m' < 2^53` by doubling / halving (only exact halvings are meaningful:
    a double has at most 53 significant bits) — `std::frexp` -/
def frexp (m : Nat) (e : Int) : Nat → Nat × Int
  | 0 => (m, e)
  | fuel + 1 => if m = 0 then (m, e) else if m < 2 ^ 52 then frexp (2 * m) (e - 1) fuel else (m, e)

/-- reference derivation without the final flush: `q_fixed · 2^(shift − 31)`, `shift` is a
    *left* shift.  Input in `frexp` form (`2^52 ≤ m < 2^53`): `q = m/2^53`, exponent `e + 53`. -/
def tfliteQuantizeMultiplierNoFlush (m : Nat) (e : Int) : Int × Int :=
  let shift := e + 53
  let qFixed := roundHalfAway m 22            -- round(q · 2^31) = round(m / 2^22)
  if qFixed = 2 ^ 31 then ((2 ^ 30 : Nat), shift + 1) else ((qFixed : Nat), shift)

/-- the reference including `if (*shift < -31) { *shift = 0; q_fixed = 0; }` -/
def tfliteQuantizeMultiplier (m : Nat) (e : Int) : Int × Int :=
  let r := tfliteQuantizeMultiplierNoFlush m e
  if r.2 < -31 then (0, 0) else r

/-- reference `MultiplyByQuantizedMultiplier(int64, …)` reduction of the 32-bit multiplier
    (`quantized_multiplier < 0x7FFF0000 ? (quantized_multiplier + (1 << 15)) >> 16 : 0x7FFF`) -/
def tfliteReducedMultiplier (q : Int) : Int :=
  if q < 0x7FFF0000 then (q + 2 ^ 15) / 2 ^ 16 else 0x7FFF

/-! ### the clauses of the property for one scale -/

/-- `quantise_scale` clause.  `(m, e)` in `frexp` form.  In the hardware range: fields in range,
    relative error ≤ 2^-31, same value as the reference derivation.  Outside: zero multiplier
    (and a shift that still fits the 6-bit field). -/
def QuantOk (m : Nat) (e : Int) (q s : Int) : Prop :=
  if HwRange m e then
    InRange q s ∧ RelErr q (-s) m e 1 (2 ^ 31) ∧
      DyEq q (-s) (tfliteQuantizeMultiplierNoFlush m e).1 ((tfliteQuantizeMultiplierNoFlush m e).2 - 31)
  else q = 0 ∧ 0 ≤ s ∧ s ≤ 63

instance (m : Nat) (e q s : Int) : Decidable (QuantOk m e q s) := by unfold QuantOk; infer_instance

/-- range of the reduced form: the reduced pair is derived from the full one, so the scale has to
    be in the full form's range (the reference flushes smaller scales to zero as well), and the
    reduced shift `s − 16` has to stay a valid (non-negative) field: `2^-33 ≤ x < 2^15` -/
def HwRange16 (m : Nat) (e : Int) : Prop := DyLe 1 (-33) m e ∧ DyLt m e 1 15

instance (m : Nat) (e : Int) : Decidable (HwRange16 m e) := by unfold HwRange16; infer_instance

/-- `reduced_quantise_scale` clause: in range → 15-bit multiplier, 6-bit shift, relative error ≤ 2^-14;
    outside → zero multiplier with a shift that fits the field. -/
def ReducedOk (m : Nat) (e : Int) (q s : Int) : Prop :=
  if HwRange16 m e then
    0 < q ∧ q ≤ 32767 ∧ 0 ≤ s ∧ s ≤ 63 ∧ RelErr q (-s) m e 1 (2 ^ 14)
  else q = 0 ∧ 0 ≤ s ∧ s ≤ 63

instance (m : Nat) (e q s : Int) : Decidable (ReducedOk m e q s) := by unfold ReducedOk; infer_instance

/-! ### average pooling -/

/-- TFLite reference kernels (`reference_integer_ops::AveragePool`, int8/int16):
    `acc > 0 ? (acc + n/2) / n : (acc − n/2) / n` with C division (truncation).
    For `acc ≥ 0` this is `⌊acc/n + ½⌋` (round half up), which is also the uint8 kernel. -/
def refAvg (acc : Int) (n : Int) : Int :=
  if acc > 0 then Int.tdiv (acc + n / 2) n else Int.tdiv (acc - n / 2) n

/-- the NPU's rounding of the scaled accumulator (assumption: `(x + 2^(sh−1)) >> sh`, arithmetic) -/
def hwRound (x : Int) (sh : Nat) : Int := if sh = 0 then x else (x + 2 ^ (sh - 1)) / 2 ^ sh

/-- obligation of a pooling pair for one accumulator -/
def PoolOk (scale : Int) (shift : Nat) (n : Int) (acc : Int) : Prop :=
  hwRound (acc * scale) shift = refAvg acc n

instance (S : Int) (sh : Nat) (n a : Int) : Decidable (PoolOk S sh n a) := by unfold PoolOk; infer_instance

/-- register fields of `NPU_SET_OFM_SCALE` -/
def PoolFields (scale shift : Int) : Prop := 0 ≤ scale ∧ scale < 2 ^ 32 ∧ 0 ≤ shift ∧ shift < 64

instance (S sh : Int) : Decidable (PoolFields S sh) := by unfold PoolFields; infer_instance

/-- first accumulator in `[lo, hi]` (scanning upwards, `fuel` values) violating `PoolOk` -/
def poolScan (scale : Int) (shift : Nat) (n : Int) (lo : Int) : Nat → Option Int
  | 0 => none
  | fuel + 1 => if PoolOk scale shift n lo then poolScan scale shift n (lo + 1) fuel else some lo

/-! ### pairs reproducing a real quotient (elementwise helpers) -/

/-- `q·2^-s` equals the real number `(nm·2^ne) / (dm·2^de)` up to relative error `tolN/tolD`
    (`dm > 0`): `|q·dm·2^(de−s) − nm·2^ne| ≤ tol · nm·2^ne` -/
def RatioOk (q s : Int) (nm : Nat) (ne : Int) (dm : Nat) (de : Int) (tolN tolD : Nat) : Prop :=
  RelErr (q * dm) (de - s) nm ne tolN tolD

instance (q s : Int) (nm : Nat) (ne : Int) (dm : Nat) (de : Int) (n d : Nat) :
    Decidable (RatioOk q s nm ne dm de n d) := by unfold RatioOk; infer_instance

end VelaVerif.Spec.Scaling
