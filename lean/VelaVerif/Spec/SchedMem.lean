/-!
# What the scheduler's memory bookkeeping has to guarantee (independent of the code; import-free)

Time is the tick of `live_range.py`; a range is alive on the ticks `start … end` (both inclusive), as the allocators and
`verify_allocation` read it.  Memory *in use* at a tick is the sum of the sizes of the ranges alive at it: any allocation
of these ranges needs at least that much, and it is the quantity every estimate of the scheduler stands for.
-/
namespace VelaVerif.Spec.SchedMem

structure Rng where
  start : Nat
  end_ : Nat
  size : Nat
deriving Repr, DecidableEq, Inhabited

def Rng.liveAt (r : Rng) (t : Nat) : Bool := r.start ≤ t && t ≤ r.end_

def sumSizes : List Rng → Nat
  | [] => 0
  | r :: rs => r.size + sumSizes rs

/-- bytes in use at tick `t` -/
def usageAt (rs : List Rng) (t : Nat) : Nat := sumSizes (rs.filter (·.liveAt t))

/-- the largest number of bytes in use over the ticks `0 … T-1` -/
def peakUpTo (rs : List Rng) : Nat → Nat
  | 0 => 0
  | T + 1 => max (peakUpTo rs T) (usageAt rs T)

/-- (d) a per-tick memory snapshot is right when entry `t` is the number of bytes in use at `t` -/
def SnapshotCorrect (rs : List Rng) (snap : List Int) : Prop :=
  ∀ t (h : t < snap.length), snap[t] = (usageAt rs t : Int)

def snapshotMismatches (rs : List Rng) (snap : List Int) : List (Nat × Int × Nat) :=
  snap.zipIdx.filterMap fun p => if p.1 = (usageAt rs p.2 : Int) then none else some (p.2, p.1, usageAt rs p.2)

/-- (a) an estimate covers a set of ranges at tick `t` when at least as many bytes were assumed as are in use -/
def EstimateCovers (estimate : Int) (rs : List Rng) (t : Nat) : Prop := (usageAt rs t : Int) ≤ estimate

def checkEstimate (estimate : Int) (rs : List Rng) (t : Nat) : Bool := decide ((usageAt rs t : Int) ≤ estimate)

/-- (c) a rolling buffer of `bH × bW × bC` elements between a producer writing stripes of `pH` rows (`pW` columns, `pD`
    channels) and a consumer whose stripes read `cH` rows (`cW` columns) and wait for `over` rows more than they read:
    the rows of one producer stripe and one consumer stripe (plus the over-read beyond the first row) fit, the consumer
    stripe height divides the buffer height (a stripe never wraps twice), all columns of both sides and the channels in
    bricks of 16 fit.  These are the hypotheses of C10's `rolling_sufficient` (`B ≥ p + c`, `c ∣ B`). -/
def BufferSufficient (pH pW pD cH cW over bH bW bC : Nat) : Prop :=
  pH + cH + (over - 1) ≤ bH ∧ cH ∣ bH ∧ pW ≤ bW ∧ cW ≤ bW ∧ pD ≤ bC ∧ 16 ∣ bC

def checkBuffer (pH pW pD cH cW over bH bW bC : Nat) : Bool :=
  decide (pH + cH + (over - 1) ≤ bH) && (cH != 0 && bH % cH == 0 || (cH == 0 && bH == 0)) && decide (pW ≤ bW) && decide (cW ≤ bW)
    && decide (pD ≤ bC) && bC % 16 == 0

/-- one live range of the fast storage decision: `movable` = the scheduler itself placed it in fast storage and may take
    it out again, `kept` = it is still there afterwards -/
structure FRng where
  rng : Rng
  movable : Bool
  kept : Bool
deriving Repr, DecidableEq, Inhabited

/-- bytes at `t` the decision cannot influence -/
def fixedAt (rs : List FRng) (t : Nat) : Nat := usageAt ((rs.filter (!·.movable)).map (·.rng)) t
/-- bytes at `t` after the decision -/
def finalAt (rs : List FRng) (t : Nat) : Nat := usageAt ((rs.filter fun r => !r.movable || r.kept).map (·.rng)) t

/-- (b) what is kept in fast storage fits the limit together with what cannot be moved; where the immovable part alone
    exceeds the limit nothing movable is kept -/
def FastStorageFits (rs : List FRng) (limit : Int) (T : Nat) : Prop :=
  ∀ t < T, (finalAt rs t : Int) ≤ max limit (fixedAt rs t)

def fastStorageViolations (rs : List FRng) (limit : Int) (T : Nat) : List (Nat × Nat × Nat) :=
  (List.range T).filterMap fun t =>
    if (finalAt rs t : Int) ≤ max limit (fixedAt rs t) then none else some (t, finalAt rs t, fixedAt rs t)

/-- a feature map that is read outside the NPU subgraph (network output, CPU operator) or written as a variable keeps its
    place: the scheduler may only move what nobody else refers to -/
def MoveAllowed (moved outsideConsumer varWrite : Bool) : Prop := moved = true → outsideConsumer = false ∧ varWrite = false

def checkMove (moved outsideConsumer varWrite : Bool) : Bool := !moved || (!outsideConsumer && !varWrite)

end VelaVerif.Spec.SchedMem
