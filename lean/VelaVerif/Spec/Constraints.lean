import VelaVerif.Model.Constraints
/-!
# C16 Spec: what the supported-operators report says

The property: an operator is placed on the NPU iff it satisfies every constraint the report
(`vela --supported-ops-report`, SUPPORTED_OPS.md) lists for it.  This file reads the *text* of a
report, independently of the constraint lists held by the live objects:

* `docKeys` — the reading of each sentence of the report: sentence (first line, numerals replaced by
  `#`, the enumerations after "… type:" cut off) ↦ the predicate that sentence denotes;
* `docParams` — every numeric bound and every enumerated set is taken from the text itself;
* `documented r d` — evaluates, for descriptor `d`, every bullet the report `r` lists for `d`'s
  operator (generic bullets whose bracketed exclusion list does not name it, then its own section);
* `reportProblems r` — the ways in which report `r` and the live objects disagree (lists per operator,
  summary table, sentences, bounds); `Props/C16.lean` proves it is empty for the fresh report;
* `reportDrift a b` — differences between two reports (committed SUPPORTED_OPS.md vs fresh).
-/
namespace VelaVerif.Constraints.Spec
open VelaVerif.Gen.Constraints VelaVerif.Constraints

structure Report where
  table : List (Name × Bool)
  generic : List (Name × List Name)
  specific : List (Name × List Name)
deriving Repr, DecidableEq, Inhabited

def freshReport : Report := ⟨freshTable, freshGeneric, freshSpecific⟩
def committedReport : Report := ⟨committedTable, committedGeneric, committedSpecific⟩

-- ------------------------------------------------------------------------------------------------
-- text utilities

def isDigit (c : Nat) : Bool := decide (48 ≤ c) && decide (c ≤ 57)

/-- all maximal digit runs of a text, as numbers -/
def nums (s : Name) : List Nat :=
  let rec go (cs : List Nat) (cur : Option Nat) (acc : List Nat) : List Nat :=
    match cs with
    | [] => match cur with | some n => (n :: acc).reverse | none => acc.reverse
    | c :: cs =>
      if isDigit c then go cs (some (cur.getD 0 * 10 + (c - 48))) acc
      else match cur with | some n => go cs none (n :: acc) | none => go cs none acc
  go s none []

/-- every digit run replaced by one `#` (35) -/
def hashDigits (cs : List Nat) : List Nat :=
  let rec go (cs : List Nat) (inNum : Bool) : List Nat :=
    match cs with
    | [] => []
    | c :: cs => if isDigit c then (if inNum then go cs true else 35 :: go cs true) else c :: go cs false
  go cs false

def firstLine (cs : Name) : Name := cs.takeWhile (· != 10)

/-- split at the first occurrence of `pat` -/
def splitAtSub (pat : List Nat) : List Nat → Option (List Nat × List Nat)
  | [] => if pat.isEmpty then some ([], []) else none
  | c :: cs =>
    if pat.isPrefixOf (c :: cs) then some ([], (c :: cs).drop pat.length)
    else (splitAtSub pat cs).map fun (a, b) => (c :: a, b)

/-- split on ", " -/
def splitCommaSpace (cs : List Nat) : List (List Nat) :=
  let rec go (cs : List Nat) (cur : List Nat) : List (List Nat) :=
    match cs with
    | [] => [cur.reverse]
    | 44 :: 32 :: rest => cur.reverse :: go rest []
    | c :: rest => go rest (c :: cur)
  go cs []

/-- what precedes the ": " that introduces an enumeration, reversed -/
def listIntroRev : List Name := [n!"epyt fo", n!"epyt po", n!"sepyt po", n!"si epyt"]

/-- (sentence without its trailing enumeration, the enumeration): one pass, cutting after the first
    ": " that follows "of type" / "op type" / "op types" / "type is" -/
def cutEnumeration (line : Name) : Name × List Name :=
  let rec go (cs : List Nat) (acc : List Nat) : Name × List Name :=
    match cs with
    | [] => (acc.reverse, [])
    | 58 :: 32 :: rest =>
      if listIntroRev.any fun k => k.isPrefixOf acc then
        ((32 :: 58 :: acc).reverse, (splitCommaSpace rest).filter (!·.isEmpty))
      else go (32 :: rest) (58 :: acc)
    | c :: rest => go rest (c :: acc)
  go line []

/-- the key under which a bullet is read -/
def normalise (bullet : Name) : Name := hashDigits (cutEnumeration (firstLine bullet)).1

-- ------------------------------------------------------------------------------------------------
-- reading of the sentences: key ↦ (constraint, is it a TFLiteSemantic constraint)

set_option maxRecDepth 200000 in
def docKeys : List (Name × Name × Bool) := [
    (n!"Constant tensors should not have NoneType-values", n!"constraint_none_const_tensors", true),
    (n!"All required operator attributes must be specified", n!"constraint_attributes_specified", true),
    (n!"Input(s) and Output tensors must not be dynamic", n!"constraint_tens_no_dynamic", true),
    (n!"Input(s) and Output tensors must have a defined shape", n!"constraint_tens_defined_shape", true),
    (n!"Output tensors cannot be scalar", n!"constraint_tens_output_scalar", true),
    (n!"Scalar Input tensors are only valid for op type: ", n!"constraint_tens_input_scalar", true),
    (n!"Input(s) and Output tensors must not be greater than #D", n!"constraint_tens_shape_size", true),
    (n!"Input(s), Output and Weight tensors must have quantization parameters", n!"constraint_tens_quant_none_check", true),
    (n!"Input(s), Output and Weight tensors with quantization scales must be finite", n!"constraint_tens_quant_scale", true),
    (n!"The output tensor(s) must have #D shape", n!"constraint_fc_output_2d", true),
    (n!"Stride values for both width and height must be integer types", n!"constraint_stride_type", true),
    (n!"IFM depth must be a whole multiple of the filter kernel depth", n!"constraint_conv_groups_ifm_depth", true),
    (n!"Number of filter kernels must be equally divisible by the number of convolution groups", n!"constraint_conv_groups_num_filters", true),
    (n!"Dilation factor values for both width and height must be integer types", n!"constraint_dilation_type", true),
    (n!"Input and Output tensors must have quantization scales that fit within float# precision", n!"constraint_quant_scale_inf", true),
    (n!"IFM and OFM data types must match", n!"constraint_matching_in_out_types", true),
    (n!"Beta value needs to be positive", n!"constraint_beta_value_range", true),
    (n!"Kernel filter values for both width and height must be integer types", n!"constraint_filter_type", true),
    (n!"IFM and OFM shapes must match", n!"constraint_matching_shapes", true),
    (n!"Axis value must be in the range [-RANK(IFM) to +RANK(IFM))", n!"constraint_split_axis", true),
    (n!"Axis must be divisible by number of splits", n!"constraint_split_num_splits", true),
    (n!"Only one size is allowed to be inferred", n!"constraint_splitv_inferred", true),
    (n!"Axis attribute must exist", n!"constraint_axis_exists", true),
    (n!"Axis attribute must be in the range [#, <ofm_dimensions>)", n!"constraint_axis_valid", true),
    (n!"All Input dimensionalities must match OFM dimensionality", n!"constraint_matching_dimensionality", true),
    (n!"All Input dimensions must match OFM dimension in all axes except the one defined by the axis attribute", n!"constraint_valid_dimensions", true),
    (n!"The size of the OFM axis must match the sum of all IFM axis defined by the axis attribute", n!"constraint_valid_dimensions_axis", true),
    (n!"Exactly # Input tensors are required", n!"constraint_stridedslice_input_count", true),
    (n!"Number of input tensors must be exactly #", n!"constraint_pad_input_count", true),
    (n!"The padding tensor must be constant", n!"constraint_pad_constant", true),
    (n!"Shape of output tensor must equal to size of input tensor plus padding", n!"constraint_pad_output_shape", true),
    (n!"Begin, End and Stride Input tensors must be constant", n!"constraint_stridedslice_inputs_const", true),
    (n!"ellipsis_mask must be #", n!"constraint_ellipsis_mask", true),
    (n!"new_axis_mask and shrink_axis_mask cannot both be set", n!"constraint_axis_masks", true),
    (n!"Slice 'end' values must be greater than 'begin' values", n!"constraint_slice_ranges", true),
    (n!"Both Input data types must match", n!"constraint_matching_inputs_types", true),
    (n!"For IFM that are signed, OFM must also be signed", n!"constraint_matching_signed", true),
    (n!"For IFM that are unsigned, OFM must either be the same type or int#", n!"constraint_unsigned_valid", true),
    (n!"IFM must be int# or int#", n!"constraint_input_signed", true),
    (n!"IFM must be int# or uint#", n!"constraint_input_8bit", true),
    (n!"OFM must be int# or int#", n!"constraint_argmax_output", true),
    (n!"At least one Input's shape must match the OFM's shape", n!"constraint_matching_either_shapes", true),
    (n!"The IFM and OFM must have the same number of dimensions if keep_num_dims is set to true", n!"constraint_keep_dim_ifm_ofm", true),
    (n!"Input tensor must be at least #D", n!"constraint_mean_input_dims", true),
    (n!"Requirements for axis parameter:", n!"constraint_mean_axis", true),
    (n!"Input and output quantisation must match.", n!"constraint_matching_in_out_quant", true),
    (n!"Input and output number of elements must match.", n!"constraint_matching_in_out_elements", true),
    (n!"IFM and OFM must have #D shape", n!"constraint_lstm_dimensions", true),
    (n!"Must have # input tensors", n!"constraint_lstm_inputs", true),
    (n!"Must have # intermediate tensors", n!"constraint_lstm_intermediates", true),
    (n!"State tensors must be variable", n!"constraint_lstm_variables", true),
    (n!"Permutation array must be a #D tensor with RANK(IFM) elements", n!"constraint_transpose_permutation_size", true),
    (n!"Permutation array must have constant values in the range [#, RANK(IFM))", n!"constraint_transpose_permutation_values", true),
    (n!"Tensors must be of type: ", n!"constraint_tens_dtype", false),
    (n!"Tensors which are int# are only valid when op type is: ", n!"constraint_tens_int32_ops", false),
    (n!"Tensor dimensions must be in the range [#, #]", n!"constraint_tens_dimension", false),
    (n!"Per-axis quantization is only supported for the following op types: ", n!"constraint_tens_quant_per_axis", false),
    (n!"The fused activation function (if present) must be one of type: ", n!"constraint_faf", false),
    (n!"If a fused activation function is present, the Output tensor must be one of type: ", n!"constraint_faf_type", false),
    (n!"Stride values for both width and height must be in the range [#, #]", n!"constraint_stride_range", false),
    (n!"Dilated kernel height must be in the range [#, #]", n!"constraint_dilated_height_range", false),
    (n!"Product of dilated kernel width and height must be in the range [#, #]", n!"constraint_dilated_product_range", false),
    (n!"Weight tensor must be #-bit", n!"constraint_weights_type", false),
    (n!"Weight tensor must be constant", n!"constraint_weights_const", false),
    (n!"For int# and int# IFM the Weight tensor zero points must all be # (--force-symmetric-int-weights sets them to #)", n!"constraint_weights_symmetric", false),
    (n!"The sum of the weights cannot exceed #", n!"constraint_weights_limit", false),
    (n!"Optional Bias tensor must be of shape: #D", n!"constraint_bias_shape", false),
    (n!"Optional Bias tensor must be of type: ", n!"constraint_bias_type", false),
    (n!"Optional Bias tensor values must fit within #-bits", n!"constraint_bias_40bit", false),
    (n!"IFM and OFM Tensor batch size must be #", n!"constraint_batch_size", false),
    (n!"For depth multipliers > #, IFM channels must be # and OFM channels must be equal to the depth multiplier", n!"constraint_depth_multiplier", false),
    (n!"Strides must fulfil the following criteria:", n!"constraint_stride_width_no_upper_limit", false),
    (n!"Stride width must be greater than or equal to #.", n!"constraint_stride_range_no_padding", false),
    (n!"Stride values for both width and height must be between # and #", n!"constraint_depthwise_conv_stride", false),
    (n!"Stride values for width and height must match one of the following criteria:", n!"constraint_tconv_stride", false),
    (n!"SAME padding: OFM dimensions must equal IFM dimensions multiplied by stride", n!"constraint_tconv_same", false),
    (n!"VALID padding: OFM dimensions must equal IFM dimensions multiplied by stride,", n!"constraint_tconv_valid", false),
    (n!"Kernel filter values for both width and height must be in the range [#, #]", n!"constraint_filter_range", false),
    (n!"Kernel filter height must be in the range [#, #]", n!"constraint_filter_height_range", false),
    (n!"Product of kernel filter width and height must be in the range [#, #]", n!"constraint_filter_product_range", false),
    (n!"VALID padding: Kernel filter height must be in the range [#, #]", n!"constraint_filter_height_range_valid_pad", false),
    (n!"VALID padding: Product of kernel filter width and height must be in the range [#, #]", n!"constraint_filter_product_range_valid_pad", false),
    (n!"The width and height of the IFM and OFM must match one of the following criteria:", n!"constraint_resize", false),
    (n!"The size tensor must match the output tensor shape", n!"constraint_resize_size", false),
    (n!"Both align_corners and half_pixel_centers can't be True", n!"constraint_resize_attrs", false),
    (n!"For half_pixel_centers the width and height of the IFM and OFM must match one of the following criteria:", n!"constraint_resizebi_half_pixel_centers_dims", false),
    (n!"The padding tensor must have the shape [#,#] or [#,#]", n!"constraint_pad_shape", false),
    (n!"Pad tensor must be of type: ", n!"constraint_pad_type", false),
    (n!"The pad tensor can only pad width and height", n!"constraint_padding_dimensions", false),
    (n!"All Strides values must be #", n!"constraint_stridedslice_stride_values", false),
    (n!"Offset attribute must be False", n!"constraint_stridedslice_offset_false", false),
    (n!"Both Input data types must be int#", n!"constraint_inputs_int32", false),
    (n!"OFM must be int#", n!"constraint_output_int32", false),
    (n!"Both Input quantization parameters must match OFM quantization parameters", n!"constraint_matching_quantization_parameters", false),
    (n!"Broadcasting is only allowed for rank indices with dimension #, from either IFM# or IFM#", n!"constraint_broadcast_shapes", false),
    (n!"Product of reduced axes must be no greater than:", n!"constraint_mean_height_width_product", false),
    (n!"If Width axis is reduced its shape must be no greater than #.", n!"constraint_mean_width", false),
    (n!"If Depth axis is reduced its shape must be no greater than #.", n!"constraint_mean_depth", false),
    (n!"Shape must be constant", n!"constraint_reshape_shape_constant", false),
    (n!"Operation must be performed along the depth axis", n!"constraint_argmax_axis", false),
    (n!"IFM depth must be no greater than #", n!"constraint_argmax_depth", false),
    (n!"Must not use CIFG", n!"constraint_lstm_no_cifg", false),
    (n!"Must not use Peephole", n!"constraint_lstm_no_peep_hole", false),
    (n!"Must not use Projection", n!"constraint_lstm_no_projection", false),
    (n!"Must not use Normalisation", n!"constraint_lstm_no_normalisation", false),
    (n!"All input and recurrent weights must be available", n!"constraint_lstm_weights", false),
    (n!"All recurrent weights must be #D", n!"constraint_lstm_weight_dimensions", false),
    (n!"IFM must be int#", n!"constraint_rsqrt_input_int8", false),
    (n!"Begin and Size Input tensors must be constant", n!"constraint_slice_inputs_const", false),
    (n!"The following shape/permutations are supported for transpose:", n!"constraint_transpose", false) ]

def readBullet (b : Name) : Option (Name × Bool) :=
  let k := normalise b
  (docKeys.find? (·.1 == k)).map (·.2)

-- ------------------------------------------------------------------------------------------------
-- bounds and sets taken from the text

def allBullets (r : Report) : List Name :=
  r.generic.map (·.1) ++ (r.specific.map (·.2)).flatten

def bulletFor (r : Report) (name : Name) : Option Name :=
  match docKeys.find? (·.2.1 == name) with
  | some (key, _, _) =>
    -- cheap pre-filter on the first characters (no sentence has a numeral that early) before normalising
    (allBullets r).find? fun b => b.take 8 == key.take 8 && normalise b == key
  | none => none

def intAt (l : List Nat) (i : Nat) : Option Int := (l[i]?).map Int.ofNat
def pair? (l : List Nat) (i j : Nat) : Option (Int × Int) := do
  let a ← intAt l i; let b ← intAt l j; some (a, b)

def numsOf (r : Report) (name : Name) : Option (List Nat) := (bulletFor r name).map nums
def enumOf (r : Report) (name : Name) : Option (List Name) :=
  (bulletFor r name).map fun b => (cutEnumeration (firstLine b)).2

/-- external (TFLite) operator names → internal operator type names -/
def toInternal (exts : List Name) : List Name :=
  exts.filterMap fun e => (builtinOps.find? (·.1 == e)).map (·.2)

/-- Bounds and enumerations as printed in report `r`.  A sentence that the report does not contain
    contributes a neutral value (empty range, empty set): no bullet of that report can refer to it, and
    `boundProblems` flags the field when the live objects still carry a value for it. -/
def docParams (r : Report) : Option Params :=
  let n (name : Name) : List Nat := (numsOf r name).getD []
  let rng (name : Name) : Int × Int := (pair? (n name) 0 1).getD (0, 0)
  let one (name : Name) : Int := (intAt (n name) 0).getD 0
  let en (name : Name) : List Name := (enumOf r name).getD []
  let strides := n n!"constraint_stride_width_no_upper_limit"
  let mean := n n!"constraint_mean_height_width_product"
  let orElse (a b : Int × Int) : Int × Int := if a == (0, 0) then b else a
  some {
    tensDim := rng n!"constraint_tens_dimension"
    stride := rng n!"constraint_stride_range"
    dilH := rng n!"constraint_dilated_height_range"
    dilProd := rng n!"constraint_dilated_product_range"
    weightsLimit := one n!"constraint_weights_limit"
    filter := rng n!"constraint_filter_range"
    filterH := orElse (rng n!"constraint_filter_height_range") (rng n!"constraint_filter_height_range_valid_pad")
    filterProd := orElse (rng n!"constraint_filter_product_range") (rng n!"constraint_filter_product_range_valid_pad")
    meanMax := if one n!"constraint_mean_width" == 0 then one n!"constraint_mean_depth" else one n!"constraint_mean_width"
    meanInt8 := (intAt mean 0).getD 0
    meanUint8 := (intAt mean 2).getD 0
    meanInt16 := (intAt mean 4).getD 0
    opDtypes := en n!"constraint_tens_dtype"
    fafDtypes := en n!"constraint_faf_type"
    biasDtypes := en n!"constraint_bias_type"
    padDtypes := en n!"constraint_pad_type"
    int32Ops := toInternal (en n!"constraint_tens_int32_ops")
    perAxisOps := toInternal (en n!"constraint_tens_quant_per_axis")
    fafOps := toInternal (en n!"constraint_faf")
    shapelessOps := toInternal (en n!"constraint_tens_input_scalar")
    dwStride := rng n!"constraint_depthwise_conv_stride"
    convStrideH := (pair? strides 0 1).getD (0, 0)
    convStrideW := (pair? strides 3 4).getD (0, 0)
    hwStrides := [(intAt strides 6).getD 0, (intAt strides 7).getD 0]
    avgStrideNoPad := (intAt (n n!"constraint_stride_range_no_padding") 1).getD 0
    biasBits := ((n n!"constraint_bias_40bit")[0]?).getD 0
    argmaxDepth := one n!"constraint_argmax_depth"
    maxRank := ((n n!"constraint_tens_shape_size")[0]?).getD 0
  }

-- ------------------------------------------------------------------------------------------------
-- the documented verdict

inductive DocVerdict where
  | silent                                  -- the report does not list the operator: it stays on the CPU
  | npu                                     -- every listed bullet holds
  | cpu (idx : Nat) (bullet : Name)       -- first listed bullet that does not hold
  | raised (bullet : Name) (what : String)
deriving Repr, DecidableEq, Inhabited

def extOf (ty : Name) : Name :=
  match opRows.find? (·.name == ty) with | some r => (if r.ext.isEmpty then n!"UNKNOWN" else r.ext) | none => n!"UNKNOWN"

def extName (d : OpDesc) : Name := ((opRow d).map (·.ext)).getD []

/-- the bullets report `r` lists for the operator with external name `ext` -/
def bulletsFor (r : Report) (ext : Name) : Option (List Name) :=
  if r.table.any (·.1 == ext) then
    some (((r.generic.filter fun (_, ex) => !ex.contains ext).map (·.1)) ++ lookup r.specific ext)
  else none

def evalBullet (P : Params) (b : Name) (d : OpDesc) : R :=
  match readBullet b with
  | some (name, isSem) => evalIn (if isSem then semPreds else supPreds) P name d
  | none => .error "unread-sentence"

def docWalk (P : Params) (d : OpDesc) : List Name → Nat → Option DocVerdict → DocVerdict
  | [], _, pending => pending.getD .npu
  | b :: bs, i, pending =>
    match evalBullet P b d with
    | .ok true => docWalk P d bs (i + 1) pending
    | .ok false => .cpu i (firstLine b)
    | .error e => docWalk P d bs (i + 1) (pending <|> some (.raised (firstLine b) e))

def documented (r : Report) (d : OpDesc) : DocVerdict :=
  let ext := extName d
  -- the report speaks about TFLite operators: internal-only operator types and fused activations that no
  -- TFLite file can carry (LUT, Clip, …) are outside what it says
  if ext.isEmpty then .raised [] "no-external-name" else
  if (match d.act with | some a => extOf a == n!"UNKNOWN" | none => false) then .raised [] "internal-activation" else
  match bulletsFor r ext, docParams r with
  | none, _ => .silent
  | some _, none => .raised [] "report-bounds-unreadable"
  | some bs, some P => docWalk P d bs 0 none

def bulletId (x : Name) : Name := ((readBullet x).map (·.1)).getD (firstLine x)

/-- `cpu <bullet index> <constraint the sentence is read as>` -/
def showDocVerdict : DocVerdict → String
  | .silent => "silent"
  | .npu => "npu"
  | .cpu i b => s!"cpu {i} {(ofName (bulletId b)).replace " " "_"}"
  | .raised b w => s!"raised {(ofName (bulletId b)).replace " " "_"} {w}"

/-- The property on one operator instance: predicted (documented) placement vs observed placement
    (`npu` / `cpu`).  A prediction that could not be computed judges nothing. -/
def placementOk (pred obs : String) : Bool :=
  if pred == "npu" then obs == "npu"
  else if pred == "cpu" || pred == "silent" then obs == "cpu"
  else true

/-- "…stays on the CPU **unchanged**": the record of the operator in the output file — [operator code, custom
    code, option table type, non-default option fields, custom options, input names, output names], plain walker —
    is the record of the source operator.  One reading is fixed here: a source operator that carries no option
    table at all (type NONE) equals an output operator whose option table has no non-default field, whatever its
    type (the writer always emits the operator's own, empty, table). -/
def unchangedCore (source output : List String) (inputsOk : String → String → Bool) : Bool :=
  match source, output with
  | [c, cc, ot, f, co, i, o], [c', cc', ot', f', co', i', o'] =>
    c == c' && cc == cc' && f == f' && co == co' && inputsOk i i' && o == o' &&
      (ot == ot' || (ot == "0" && f == "-"))
  | _, _ => false

/-- What a kernel is told about one operand / result of an operator: shape, element type (TensorType number),
    scales (binary32 bit patterns), zero points, quantised dimension, constant data or not. -/
structure TensorDesc where
  shape : List Int
  dtype : Nat
  scales : List Nat
  zeroPoints : List Int
  qdim : Int
  isConst : Bool
deriving DecidableEq, Repr

/-- Compared by meaning, as C11's `Preserve.normQuant`: no scale and no zero point = not quantised (the quantised
    dimension then says nothing); a scale without zero-point vector = zero point 0 for every scale.  The **whole**
    zero-point vector and the quantised dimension are part of the description. -/
def TensorDesc.norm (t : TensorDesc) : TensorDesc :=
  if t.scales.isEmpty && t.zeroPoints.isEmpty then { t with qdim := 0 }
  else if t.zeroPoints.isEmpty then { t with zeroPoints := t.scales.map fun _ => 0 }
  else t

/-- One operand / result as described in the source (`s`) and in the output file (`o`).  Everything is equal, except that
    a tensor computed at run time in the source may have become a constant of the same description (QUANTIZE of a
    constant, SHAPE: folded before placement — C11 judges the folding itself); a constant never becomes a run-time tensor. -/
def descEq (s o : Option TensorDesc) : Bool :=
  match s, o with
  | none, none => true
  | some a, some b => { a.norm with isConst := false } == { b.norm with isConst := false } && (!a.isConst || b.isConst)
  | _, _ => false

/-- operand / result lists, position by position (`none` = operand omitted) -/
def descsEq (a b : List (Option TensorDesc)) : Bool :=
  let a := (a.reverse.dropWhile Option.isNone).reverse      -- trailing omitted operands say nothing
  let b := (b.reverse.dropWhile Option.isNone).reverse
  a.length == b.length && (a.zip b).all fun (x, y) => descEq x y

/-- One operator of the SOURCE graph lying between the tensor the output operator reads and the tensor the source
    operator read: builtin code, "input and output have the same shape", "… the same data type and quantisation". -/
structure Link where
  code : Nat
  sameShape : Bool
  sameTypeQuant : Bool
deriving Repr, DecidableEq

/-- RESHAPE 22, SQUEEZE 43, EXPAND_DIMS 70: the same bytes under another shape -/
def reshapeLike : List Nat := [22, 43, 70]
/-- RESIZE_BILINEAR 23, RESIZE_NEAREST_NEIGHBOR 97: the identity when the size does not change
    (`fixup_resize`: "Bypass the resize op which is essentially a NOP") -/
def resizeOps : List Nat := [23, 97]

/-- the link copies its input: a reshape-like operator between equally typed/quantised tensors, or a resize
    that changes neither size nor type/quantisation -/
def Link.isIdentity (l : Link) : Bool :=
  l.sameTypeQuant && (reshapeLike.contains l.code || (resizeOps.contains l.code && l.sameShape))

/-- A CPU operator may read tensor `outName` instead of `srcName` only when, in the source graph, `srcName` is
    produced from `outName` by a non-empty chain of identity links and both tensors have the same shape, data type
    and quantisation (so the operator sees byte-identical data under an identical description). -/
structure Alias where
  srcName : String
  outName : String
  sameSignature : Bool
  chain : List Link

def Alias.ok (a : Alias) : Bool := a.sameSignature && !a.chain.isEmpty && a.chain.all Link.isIdentity

/-- trailing omitted operands (`~`) say nothing: `[x, w]` and `[x, w, -1]` are the same operand list (the writer emits
    the bias slot of a bias-less convolution as -1; C11 reads it the same way) -/
def stripOmitted (l : List String) : List String := (l.reverse.dropWhile (· == "~")).reverse

def unchangedOnCpu (source output : List String) (aliases : List Alias := []) : Bool :=
  unchangedCore source output fun i i' =>
    let a := stripOmitted (i.splitOn ",")
    let b := stripOmitted (i'.splitOn ",")
    a.length == b.length && (a.zip b).all fun (x, y) =>
      x == y || aliases.any fun al => al.srcName == x && al.outName == y && al.ok

/-- "… unchanged" including what the kernel is told about every operand and result: an operator left on the CPU must
    still see each operand and result with the source's shape, element type, every scale, **every** zero point, the
    quantised dimension, and as a constant or not (`--force-symmetric-int-weights` must not leak into a CPU-resident
    convolution: its weight zero points — a vector for per-axis quantisation — are the source's). -/
def unchangedOnCpuDesc (source output : List String) (aliases : List Alias)
    (srcIns srcOuts outIns outOuts : List (Option TensorDesc)) : Bool :=
  unchangedOnCpu source output aliases && descsEq srcIns outIns && descsEq srcOuts outOuts

-- ------------------------------------------------------------------------------------------------
-- report vs live objects

def docOf (name : Name) : Name :=
  match (semDocs ++ supDocs).find? (·.1 == name) with | some (_, d) => d | none => n!"?missing-doc:" ++ name

def isSupportedType (ty : Name) : Bool := (opSet supOpSets n!"supported_operators").contains ty
def hasSpecific (ty : Name) : Bool := supSpecificD.any (·.1 == ty) || semSpecificD.any (·.1 == ty)
def sameSet (a b : List Name) : Bool := a.all b.contains && b.all a.contains

/-- summary table the generator must produce: TFLite operators whose internal type is supported -/
def expectedTable : List (Name × Bool) :=
  (builtinOps.filter fun (_, ty) => isSupportedType ty).map fun (ext, ty) => (ext, hasSpecific ty)

def excludedExt (tbl : List (Name × List Name)) (c : Name) : List Name :=
  (tbl.filter fun (_, cs) => cs.contains c).map fun (ty, _) => extOf ty

def expectedGeneric : List (Name × List Name) :=
  semGenericD.map (fun (c, doc) => (doc, excludedExt semExclude c)) ++
  supGenericD.map (fun (c, doc) => (doc, excludedExt supExceptions c))

def lookupD (tbl : List (Name × List (Name × Name))) (k : Name) : List (Name × Name) :=
  ((tbl.find? (·.1 == k)).map (·.2)).getD []

/-- the constraints the live objects enforce on internal type `ty` — (function, sentence, is it a
    TFLiteSemantic constraint) — in the arrangement of the report: generic (semantic, supported) minus
    exceptions, then specific -/
def enforced (ty : Name) : List (Name × Name × Bool) :=
  match lookup semExclude ty, lookup supExceptions ty with
  | semEx, supEx =>
    ((semGenericD.filter fun (c, _) => !semEx.contains c).map fun (c, doc) => (c, doc, true)) ++
    ((supGenericD.filter fun (c, _) => !supEx.contains c).map fun (c, doc) => (c, doc, false)) ++
    ((lookupD semSpecificD ty).map fun (c, doc) => (c, doc, true)) ++
    ((lookupD supSpecificD ty).map fun (c, doc) => (c, doc, false))

def enforcedDocs (ty : Name) : List Name := (enforced ty).map (·.2.1)
def enforcedNames (ty : Name) : List (Name × Bool) := (enforced ty).map fun (c, _, s) => (c, s)

def setsAgree (doc live : List Name) : Bool :=
  -- the text can only name operators that have an external name
  sameSet doc (live.filter fun ty => extOf ty != n!"UNKNOWN")

def paramsAgree (doc live : Params) : List String :=
  (if doc.tensDim != live.tensDim then ["tens_dim_range"] else []) ++
  (if doc.stride != live.stride then ["stride_range"] else []) ++
  (if doc.dilH != live.dilH then ["dilated_height_range"] else []) ++
  (if doc.dilProd != live.dilProd then ["dilated_product_range"] else []) ++
  (if doc.weightsLimit != live.weightsLimit then ["weights_limit"] else []) ++
  (if doc.filter != live.filter then ["filter_range"] else []) ++
  (if doc.filterH != live.filterH then ["filter_height_range"] else []) ++
  (if doc.filterProd != live.filterProd then ["filter_product_range"] else []) ++
  (if doc.meanMax != live.meanMax then ["mean_reduced_axis_max_size"] else []) ++
  (if doc.meanInt8 != live.meanInt8 then ["mean_kernel_product_int8"] else []) ++
  (if doc.meanUint8 != live.meanUint8 then ["mean_kernel_product_uint8"] else []) ++
  (if doc.meanInt16 != live.meanInt16 then ["mean_kernel_product_int16"] else []) ++
  (if !sameSet doc.opDtypes live.opDtypes then ["supported_op_dtypes"] else []) ++
  (if !sameSet doc.fafDtypes live.fafDtypes then ["supported_faf_dtypes"] else []) ++
  (if !sameSet doc.biasDtypes live.biasDtypes then ["supported_bias_dtypes"] else []) ++
  (if !sameSet doc.padDtypes live.padDtypes then ["supported_pad_dtypes"] else []) ++
  (if !setsAgree doc.int32Ops live.int32Ops then ["supported_int32_tensor_ops"] else []) ++
  (if !setsAgree doc.perAxisOps live.perAxisOps then ["per_axis_quant_ops"] else []) ++
  (if !setsAgree doc.fafOps live.fafOps then ["supported_fused_activations"] else []) ++
  (if !setsAgree doc.shapelessOps live.shapelessOps then ["shapeless_input_ops"] else []) ++
  (if doc.dwStride != live.dwStride then ["depthwise stride literal"] else []) ++
  (if doc.convStrideH != live.convStrideH then ["conv stride h literal"] else []) ++
  (if doc.convStrideW != live.convStrideW then ["conv stride w literal"] else []) ++
  (if doc.hwStrides != live.hwStrides then ["hw_supported_strides literal"] else []) ++
  (if doc.avgStrideNoPad != live.avgStrideNoPad then ["avg pool stride literal"] else []) ++
  (if doc.biasBits != live.biasBits then ["bias bits literal"] else []) ++
  (if doc.argmaxDepth != live.argmaxDepth then ["argmax depth literal"] else []) ++
  (if doc.maxRank != live.maxRank then ["max rank literal"] else [])

/-- numerals of sentences whose bounds are literals of the function body (and of no `Params` field):
    the model's transcription uses exactly these -/
def literalNums : List (Name × List Nat) := [
  (n!"constraint_batch_size", [1]),
  (n!"constraint_weights_symmetric", [8, 16, 0, 0]),
  (n!"constraint_depth_multiplier", [1, 1]),
  (n!"constraint_tconv_stride", [1, 1, 2, 2, 2, 1, 1]),
  (n!"constraint_resize", [1, 1, 1, 2, 4, 8, 1, 1, 2, 4, 8]),
  (n!"constraint_resizebi_half_pixel_centers_dims", [1, 2]),
  (n!"constraint_pad_shape", [3, 2, 4, 2]),
  (n!"constraint_stridedslice_stride_values", [1]),
  (n!"constraint_weights_type", [8]),
  (n!"constraint_bias_shape", [1]),
  (n!"constraint_broadcast_shapes", [1, 1, 2]),
  (n!"constraint_stridedslice_input_count", [4]),
  (n!"constraint_pad_input_count", [2]),
  (n!"constraint_ellipsis_mask", [0]),
  (n!"constraint_axis_valid", [0]),
  (n!"constraint_mean_input_dims", [2]),
  (n!"constraint_mean_axis", [2, 3, 4, 1, 1]),
  (n!"constraint_fc_output_2d", [2]),
  (n!"constraint_stride_range_no_padding", [1, 3]),
  (n!"constraint_stride_width_no_upper_limit", [1, 3, 1, 1, 3, 1, 2, 3, 2, 3]),
  (n!"constraint_mean_height_width_product", [16777216, 8, 8388608, 8, 65536, 16]),
  (n!"constraint_transpose_permutation_size", [1]),
  (n!"constraint_transpose_permutation_values", [0]) ]

def literalProblems : List String :=
  literalNums.filterMap fun (name, ns) =>
    -- a function that does not exist in this tree has no sentence to compare
    if !((semDocs ++ supDocs).any (·.1 == name)) || nums (docOf name) == ns then none
    else some s!"numerals of {ofName name} changed"

def tableProblems (r : Report) : List String :=
  if r.table == expectedTable then [] else ["summary table"]

def genericProblems (r : Report) : List String :=
  (if r.generic.map (·.1) == expectedGeneric.map (·.1) then [] else ["generic bullets"]) ++
  ((r.generic.zip expectedGeneric).filterMap fun ((b, ex), (_, ex')) =>
    if sameSet ex ex' then none else some s!"exclusions of: {ofName (firstLine b)}")

/-- per operator of the report's table: the bullets listed for it are the sentences of the
    constraints the live objects enforce on it -/
def listProblems (r : Report) : List String :=
  (r.table.filterMap fun (ext, _) =>
    match builtinOps.find? (·.1 == ext) with
    | some (_, ty) =>
      if bulletsFor r ext == some (enforcedDocs ty) then none else some s!"constraint list of {ofName ext}"
    | none => some s!"unknown operator {ofName ext}") ++
  (if r.specific.map (·.1) == (r.table.filter (·.2)).map (·.1) then [] else ["specific sections"])

/-- every sentence of either class is read (by `docKeys`) as the function it documents -/
def sentenceProblems : List String :=
  (semDocs.filterMap fun (c, doc) =>
    if readBullet doc == some (c, true) then none else some s!"sentence of {ofName c} not read as itself") ++
  (supDocs.filterMap fun (c, doc) =>
    if readBullet doc == some (c, false) then none else some s!"sentence of {ofName c} not read as itself")

def boundProblems (r : Report) : List String :=
  match docParams r with
  | some P => paramsAgree P liveParams
  | none => ["bounds unreadable"]

/-- every way report `r` and the live objects disagree -/
def reportProblems (r : Report) : List String :=
  tableProblems r ++ genericProblems r ++ listProblems r ++ sentenceProblems ++ boundProblems r ++ literalProblems

/-- one difference between two reports: (kind, operator, constraint function or sentence)
    kinds: 0 table row only in the first, 1 table row only in the second, 2 specific link differs,
    3 generic part differs, 4 bullet only in the first, 5 bullet only in the second, 6 same bullets in
    another order, 7 section only in the second although the operator is in both tables -/
abbrev Drift := Nat × Name × Name

def reportDrift (a b : Report) : List Drift :=
  (a.table.filterMap fun (n, _) => if b.table.any (·.1 == n) then none else some (0, n, [])) ++
  (b.table.filterMap fun (n, _) => if a.table.any (·.1 == n) then none else some (1, n, [])) ++
  (a.table.filterMap fun (n, f) => match b.table.find? (·.1 == n) with
    | some (_, f') => if f == f' then none else some (2, n, []) | none => none) ++
  (if a.generic == b.generic then [] else [(3, [], [])]) ++
  ((a.specific.map fun (n, bs) =>
      let bs' := lookup b.specific n
      (bs.filterMap fun x => if bs'.contains x then none else some (4, n, bulletId x)) ++
      (bs'.filterMap fun x => if bs.contains x then none else some (5, n, bulletId x)) ++
      (if bs.length == bs'.length && sameSet bs bs' && bs != bs' then [(6, n, [])] else [])).flatten) ++
  (b.specific.filterMap fun (n, _) =>
    if a.specific.any (·.1 == n) || !(a.table.any (·.1 == n)) then none else some (7, n, []))

/-- Differences between the committed SUPPORTED_OPS.md (first) and the fresh report (second) that are tolerated:
    none.  (Until the report was regenerated in /repo — known_findings.txt `fixed: property=C16 …` — four were
    recorded here: GELU, LOG, SQRT undocumented and a PAD sentence the code no longer enforced.) -/
def knownDrift : List Drift := []

def showDrift (l : List Drift) : String :=
  if l.isEmpty then "ok" else
  "drift " ++ " ".intercalate (l.map fun (k, n, c) => s!"doc-drift:{k}:{ofName n}:{(ofName c).replace " " "_"}")

def showProblems (l : List String) : String :=
  if l.isEmpty then "ok" else "problems " ++ "|".intercalate (l.map fun s => s.replace " " "_")

end VelaVerif.Constraints.Spec
