import VelaVerif.Model.Constraints
/-!
# C16 Spec: what the supported-operators report says

The property: an operator is placed on the NPU iff it satisfies every constraint the report
(`vela --supported-ops-report`, SUPPORTED_OPS.md) lists for it.  This file reads the *text* of a
report, independently of the constraint lists held by the live objects:

* `docKeys` — the reading of each sentence of the report: sentence (first line, numerals replaced by
  `#`, the enumerations after "… type:" cut off) ↦ the predicate that sentence denotes;
* `docParams` — every numeric bound and every enumerated set is taken from the text itself;
* `documented r d` — evaluates, for descriptor `d`, every bullet the report `r` lists for `d`'s
  operator (generic bullets whose bracketed exclusion list does not name it, then its own section);
* `reportProblems r` — the ways in which report `r` and the live objects disagree (lists per operator,
  summary table, sentences, bounds); `Props/C16.lean` proves it is empty for the fresh report;
* `reportDrift a b` — differences between two reports (committed SUPPORTED_OPS.md vs fresh).
-/
namespace VelaVerif.Constraints.Spec
open VelaVerif.Gen.Constraints VelaVerif.Constraints

structure Report where
  table : List (String × Bool)
  generic : List (String × List String)
  specific : List (String × List String)
deriving Repr, DecidableEq, Inhabited

def freshReport : Report := ⟨freshTable, freshGeneric, freshSpecific⟩
def committedReport : Report := ⟨committedTable, committedGeneric, committedSpecific⟩

-- ------------------------------------------------------------------------------------------------
-- text utilities

/-- all maximal digit runs of a text, as numbers -/
def nums (s : String) : List Nat :=
  let rec go (cs : List Char) (cur : Option Nat) (acc : List Nat) : List Nat :=
    match cs with
    | [] => match cur with | some n => (n :: acc).reverse | none => acc.reverse
    | c :: cs =>
      if c.isDigit then go cs (some (cur.getD 0 * 10 + (c.toNat - 48))) acc
      else match cur with | some n => go cs none (n :: acc) | none => go cs none acc
  go s.toList none []

def hashDigits (cs : List Char) : List Char :=
  let rec go (cs : List Char) (inNum : Bool) : List Char :=
    match cs with
    | [] => []
    | c :: cs => if c.isDigit then (if inNum then go cs true else '#' :: go cs true) else c :: go cs false
  go cs false

def firstLine (s : String) : String := (s.splitOn "\n").headD ""

def listIntro : List String := ["of type: ", "op type: ", "op types: ", "type is: "]

/-- (sentence without its trailing enumeration, the enumeration) -/
def cutEnumeration (line : String) : String × List String :=
  match listIntro.findSome? (fun k => match line.splitOn k with
      | [a, b] => some (a ++ k, b)
      | _ => none) with
  | some (a, b) => (a, (b.splitOn ", ").filter (· ≠ ""))
  | none => (line, [])

/-- the key under which a bullet is read -/
def normalise (bullet : String) : String :=
  String.ofList (hashDigits (cutEnumeration (firstLine bullet)).1.toList)

-- ------------------------------------------------------------------------------------------------
-- reading of the sentences: key ↦ (constraint, is it a TFLiteSemantic constraint)

def docKeys : List (String × String × Bool) := [
    ("Constant tensors should not have NoneType-values", "constraint_none_const_tensors", true),
    ("All required operator attributes must be specified", "constraint_attributes_specified", true),
    ("Input(s) and Output tensors must not be dynamic", "constraint_tens_no_dynamic", true),
    ("Input(s) and Output tensors must have a defined shape", "constraint_tens_defined_shape", true),
    ("Output tensors cannot be scalar", "constraint_tens_output_scalar", true),
    ("Scalar Input tensors are only valid for op type: ", "constraint_tens_input_scalar", true),
    ("Input(s) and Output tensors must not be greater than #D", "constraint_tens_shape_size", true),
    ("Input(s), Output and Weight tensors must have quantization parameters", "constraint_tens_quant_none_check", true),
    ("Input(s), Output and Weight tensors with quantization scales must be finite", "constraint_tens_quant_scale", true),
    ("The output tensor(s) must have #D shape", "constraint_fc_output_2d", true),
    ("Stride values for both width and height must be integer types", "constraint_stride_type", true),
    ("IFM depth must be a whole multiple of the filter kernel depth", "constraint_conv_groups_ifm_depth", true),
    ("Number of filter kernels must be equally divisible by the number of convolution groups", "constraint_conv_groups_num_filters", true),
    ("Dilation factor values for both width and height must be integer types", "constraint_dilation_type", true),
    ("Input and Output tensors must have quantization scales that fit within float# precision", "constraint_quant_scale_inf", true),
    ("IFM and OFM data types must match", "constraint_matching_in_out_types", true),
    ("Beta value needs to be positive", "constraint_beta_value_range", true),
    ("Kernel filter values for both width and height must be integer types", "constraint_filter_type", true),
    ("IFM and OFM shapes must match", "constraint_matching_shapes", true),
    ("Axis value must be in the range [-RANK(IFM) to +RANK(IFM))", "constraint_split_axis", true),
    ("Axis must be divisible by number of splits", "constraint_split_num_splits", true),
    ("Only one size is allowed to be inferred", "constraint_splitv_inferred", true),
    ("Axis attribute must exist", "constraint_axis_exists", true),
    ("Axis attribute must be in the range [#, <ofm_dimensions>)", "constraint_axis_valid", true),
    ("All Input dimensionalities must match OFM dimensionality", "constraint_matching_dimensionality", true),
    ("All Input dimensions must match OFM dimension in all axes except the one defined by the axis attribute", "constraint_valid_dimensions", true),
    ("The size of the OFM axis must match the sum of all IFM axis defined by the axis attribute", "constraint_valid_dimensions_axis", true),
    ("Exactly # Input tensors are required", "constraint_stridedslice_input_count", true),
    ("Number of input tensors must be exactly #", "constraint_pad_input_count", true),
    ("The padding tensor must be constant", "constraint_pad_constant", true),
    ("Shape of output tensor must equal to size of input tensor plus padding", "constraint_pad_output_shape", true),
    ("Begin, End and Stride Input tensors must be constant", "constraint_stridedslice_inputs_const", true),
    ("ellipsis_mask must be #", "constraint_ellipsis_mask", true),
    ("new_axis_mask and shrink_axis_mask cannot both be set", "constraint_axis_masks", true),
    ("Slice 'end' values must be greater than 'begin' values", "constraint_slice_ranges", true),
    ("Both Input data types must match", "constraint_matching_inputs_types", true),
    ("For IFM that are signed, OFM must also be signed", "constraint_matching_signed", true),
    ("For IFM that are unsigned, OFM must either be the same type or int#", "constraint_unsigned_valid", true),
    ("IFM must be int# or int#", "constraint_input_signed", true),
    ("IFM must be int# or uint#", "constraint_input_8bit", true),
    ("OFM must be int# or int#", "constraint_argmax_output", true),
    ("At least one Input's shape must match the OFM's shape", "constraint_matching_either_shapes", true),
    ("The IFM and OFM must have the same number of dimensions if keep_num_dims is set to true", "constraint_keep_dim_ifm_ofm", true),
    ("Input tensor must be at least #D", "constraint_mean_input_dims", true),
    ("Requirements for axis parameter:", "constraint_mean_axis", true),
    ("Input and output quantisation must match.", "constraint_matching_in_out_quant", true),
    ("Input and output number of elements must match.", "constraint_matching_in_out_elements", true),
    ("IFM and OFM must have #D shape", "constraint_lstm_dimensions", true),
    ("Must have # input tensors", "constraint_lstm_inputs", true),
    ("Must have # intermediate tensors", "constraint_lstm_intermediates", true),
    ("State tensors must be variable", "constraint_lstm_variables", true),
    ("Permutation array must be a #D tensor with RANK(IFM) elements", "constraint_transpose_permutation_size", true),
    ("Permutation array must have constant values in the range [#, RANK(IFM))", "constraint_transpose_permutation_values", true),
    ("Tensors must be of type: ", "constraint_tens_dtype", false),
    ("Tensors which are int# are only valid when op type is: ", "constraint_tens_int32_ops", false),
    ("Tensor dimensions must be in the range [#, #]", "constraint_tens_dimension", false),
    ("Per-axis quantization is only supported for the following op types: ", "constraint_tens_quant_per_axis", false),
    ("The fused activation function (if present) must be one of type: ", "constraint_faf", false),
    ("If a fused activation function is present, the Output tensor must be one of type: ", "constraint_faf_type", false),
    ("Stride values for both width and height must be in the range [#, #]", "constraint_stride_range", false),
    ("Dilated kernel height must be in the range [#, #]", "constraint_dilated_height_range", false),
    ("Product of dilated kernel width and height must be in the range [#, #]", "constraint_dilated_product_range", false),
    ("Weight tensor must be #-bit", "constraint_weights_type", false),
    ("Weight tensor must be constant", "constraint_weights_const", false),
    ("The sum of the weights cannot exceed #", "constraint_weights_limit", false),
    ("Optional Bias tensor must be of shape: #D", "constraint_bias_shape", false),
    ("Optional Bias tensor must be of type: ", "constraint_bias_type", false),
    ("Optional Bias tensor values must fit within #-bits", "constraint_bias_40bit", false),
    ("IFM Tensor batch size must be #", "constraint_batch_size", false),
    ("For depth multipliers > #, IFM channels must be # and OFM channels must be equal to the depth multiplier", "constraint_depth_multiplier", false),
    ("Strides must fulfil the following criteria:", "constraint_stride_width_no_upper_limit", false),
    ("Stride width must be greater than or equal to #.", "constraint_stride_range_no_padding", false),
    ("Stride values for both width and height must be between # and #", "constraint_depthwise_conv_stride", false),
    ("Stride values for width and height must match one of the following criteria:", "constraint_tconv_stride", false),
    ("SAME padding: OFM dimensions must equal IFM dimensions multiplied by stride", "constraint_tconv_same", false),
    ("VALID padding: OFM dimensions must equal IFM dimensions multiplied by stride,", "constraint_tconv_valid", false),
    ("Kernel filter values for both width and height must be in the range [#, #]", "constraint_filter_range", false),
    ("Kernel filter height must be in the range [#, #]", "constraint_filter_height_range", false),
    ("Product of kernel filter width and height must be in the range [#, #]", "constraint_filter_product_range", false),
    ("VALID padding: Kernel filter height must be in the range [#, #]", "constraint_filter_height_range_valid_pad", false),
    ("VALID padding: Product of kernel filter width and height must be in the range [#, #]", "constraint_filter_product_range_valid_pad", false),
    ("The width and height of the IFM and OFM must match one of the following criteria:", "constraint_resize", false),
    ("The size tensor must match the output tensor shape", "constraint_resize_size", false),
    ("Both align_corners and half_pixel_centers can't be True", "constraint_resize_attrs", false),
    ("For half_pixel_centers the width and height of the IFM and OFM must match one of the following criteria:", "constraint_resizebi_half_pixel_centers_dims", false),
    ("The padding tensor must have the shape [#,#] or [#,#]", "constraint_pad_shape", false),
    ("Pad tensor must be of type: ", "constraint_pad_type", false),
    ("The pad tensor can only pad width and height", "constraint_padding_dimensions", false),
    ("All Strides values must be #", "constraint_stridedslice_stride_values", false),
    ("Offset attribute must be False", "constraint_stridedslice_offset_false", false),
    ("Both Input data types must be int#", "constraint_inputs_int32", false),
    ("OFM must be int#", "constraint_output_int32", false),
    ("Both Input quantization parameters must match OFM quantization parameters", "constraint_matching_quantization_parameters", false),
    ("Broadcasting is only allowed for rank indices with dimension #, from either IFM# or IFM#", "constraint_broadcast_shapes", false),
    ("Product of reduced axes must be no greater than:", "constraint_mean_height_width_product", false),
    ("If Width axis is reduced its shape must be no greater than #.", "constraint_mean_width", false),
    ("If Depth axis is reduced its shape must be no greater than #.", "constraint_mean_depth", false),
    ("Shape must be constant", "constraint_reshape_shape_constant", false),
    ("Operation must be performed along the depth axis", "constraint_argmax_axis", false),
    ("IFM depth must be no greater than #", "constraint_argmax_depth", false),
    ("Must not use CIFG", "constraint_lstm_no_cifg", false),
    ("Must not use Peephole", "constraint_lstm_no_peep_hole", false),
    ("Must not use Projection", "constraint_lstm_no_projection", false),
    ("Must not use Normalisation", "constraint_lstm_no_normalisation", false),
    ("All input and recurrent weights must be available", "constraint_lstm_weights", false),
    ("All recurrent weights must be #D", "constraint_lstm_weight_dimensions", false),
    ("IFM must be int#", "constraint_rsqrt_input_int8", false),
    ("Begin and Size Input tensors must be constant", "constraint_slice_inputs_const", false),
    ("The following shape/permutations are supported for transpose:", "constraint_transpose", false) ]

def readBullet (b : String) : Option (String × Bool) :=
  (docKeys.find? (·.1 == normalise b)).map (·.2)

-- ------------------------------------------------------------------------------------------------
-- bounds and sets taken from the text

def allBullets (r : Report) : List String :=
  r.generic.map (·.1) ++ (r.specific.map (·.2)).flatten

def bulletFor (r : Report) (name : String) : Option String :=
  (allBullets r).find? fun b => match readBullet b with | some (n, _) => n == name | none => false

def intAt (l : List Nat) (i : Nat) : Option Int := (l[i]?).map Int.ofNat
def pair? (l : List Nat) (i j : Nat) : Option (Int × Int) := do
  let a ← intAt l i; let b ← intAt l j; some (a, b)

def numsOf (r : Report) (name : String) : Option (List Nat) := (bulletFor r name).map nums
def enumOf (r : Report) (name : String) : Option (List String) :=
  (bulletFor r name).map fun b => (cutEnumeration (firstLine b)).2

/-- external (TFLite) operator names → internal operator type names -/
def toInternal (exts : List String) : List String :=
  exts.filterMap fun e => (builtinOps.find? (·.1 == e)).map (·.2)

def docParams (r : Report) : Option Params := do
  let n := numsOf r
  let rng (name : String) : Option (Int × Int) := do pair? (← n name) 0 1
  let one (name : String) : Option Int := do intAt (← n name) 0
  let strides ← n "constraint_stride_width_no_upper_limit"
  let mean ← n "constraint_mean_height_width_product"
  some {
    tensDim := ← rng "constraint_tens_dimension"
    stride := ← rng "constraint_stride_range"
    dilH := ← rng "constraint_dilated_height_range"
    dilProd := ← rng "constraint_dilated_product_range"
    weightsLimit := ← one "constraint_weights_limit"
    filter := ← rng "constraint_filter_range"
    filterH := ← rng "constraint_filter_height_range"
    filterProd := ← rng "constraint_filter_product_range"
    meanMax := ← one "constraint_mean_width"
    meanInt8 := ← intAt mean 0
    meanUint8 := ← intAt mean 2
    meanInt16 := ← intAt mean 4
    opDtypes := ← enumOf r "constraint_tens_dtype"
    fafDtypes := ← enumOf r "constraint_faf_type"
    biasDtypes := ← enumOf r "constraint_bias_type"
    padDtypes := ← enumOf r "constraint_pad_type"
    int32Ops := toInternal (← enumOf r "constraint_tens_int32_ops")
    perAxisOps := toInternal (← enumOf r "constraint_tens_quant_per_axis")
    fafOps := toInternal (← enumOf r "constraint_faf")
    shapelessOps := toInternal (← enumOf r "constraint_tens_input_scalar")
    dwStride := ← rng "constraint_depthwise_conv_stride"
    convStrideH := ← pair? strides 0 1
    convStrideW := ← pair? strides 3 4
    hwStrides := [← intAt strides 6, ← intAt strides 7]
    avgStrideNoPad := ← intAt (← n "constraint_stride_range_no_padding") 1
    biasBits := ← (← n "constraint_bias_40bit")[0]?
    argmaxDepth := ← one "constraint_argmax_depth"
    maxRank := ← (← n "constraint_tens_shape_size")[0]?
  }

-- ------------------------------------------------------------------------------------------------
-- the documented verdict

inductive DocVerdict where
  | silent                                  -- the report does not list the operator: it stays on the CPU
  | npu                                     -- every listed bullet holds
  | cpu (idx : Nat) (bullet : String)       -- first listed bullet that does not hold
  | raised (bullet : String) (what : String)
deriving Repr, DecidableEq, Inhabited

def extName (d : OpDesc) : String := ((opRow d).map (·.ext)).getD ""

/-- the bullets report `r` lists for the operator with external name `ext` -/
def bulletsFor (r : Report) (ext : String) : Option (List String) :=
  if r.table.any (·.1 == ext) then
    some (((r.generic.filter fun (_, ex) => !ex.contains ext).map (·.1)) ++ lookup r.specific ext)
  else none

def evalBullet (P : Params) (b : String) (d : OpDesc) : R :=
  match readBullet b with
  | some (name, isSem) => evalIn (if isSem then semPreds else supPreds) P name d
  | none => .error "unread-sentence"

def docWalk (P : Params) (d : OpDesc) : List String → Nat → Option DocVerdict → DocVerdict
  | [], _, pending => pending.getD .npu
  | b :: bs, i, pending =>
    match evalBullet P b d with
    | .ok true => docWalk P d bs (i + 1) pending
    | .ok false => .cpu i (firstLine b)
    | .error e => docWalk P d bs (i + 1) (pending <|> some (.raised (firstLine b) e))

def documented (r : Report) (d : OpDesc) : DocVerdict :=
  let ext := extName d
  if ext.isEmpty then .silent else
  match bulletsFor r ext, docParams r with
  | none, _ => .silent
  | some _, none => .raised "" "report-bounds-unreadable"
  | some bs, some P => docWalk P d bs 0 none

def showDocVerdict : DocVerdict → String
  | .silent => "silent"
  | .npu => "npu"
  | .cpu i b => s!"cpu {i} {b.replace " " "_"}"
  | .raised b w => s!"raised {b.replace " " "_"} {w}"

/-- The property on one operator instance: predicted (documented) placement vs observed placement
    (`npu` / `cpu`).  A prediction that could not be computed judges nothing. -/
def placementOk (pred obs : String) : Bool :=
  if pred == "npu" then obs == "npu"
  else if pred == "cpu" || pred == "silent" then obs == "cpu"
  else true

-- ------------------------------------------------------------------------------------------------
-- report vs live objects

def docOf (name : String) : String :=
  match (semDocs ++ supDocs).find? (·.1 == name) with | some (_, d) => d | none => "?missing-doc:" ++ name

def isSupportedType (ty : String) : Bool := (opSet supOpSets "supported_operators").contains ty
def hasSpecific (ty : String) : Bool := supSpecific.any (·.1 == ty) || semSpecific.any (·.1 == ty)
def extOf (ty : String) : String :=
  match opRows.find? (·.name == ty) with | some r => (if r.ext.isEmpty then "UNKNOWN" else r.ext) | none => "UNKNOWN"

def sameSet (a b : List String) : Bool := a.all b.contains && b.all a.contains

/-- summary table the generator must produce: TFLite operators whose internal type is supported -/
def expectedTable : List (String × Bool) :=
  (builtinOps.filter fun (_, ty) => isSupportedType ty).map fun (ext, ty) => (ext, hasSpecific ty)

def excludedExt (tbl : List (String × List String)) (c : String) : List String :=
  (tbl.filter fun (_, cs) => cs.contains c).map fun (ty, _) => extOf ty

def expectedGeneric : List (String × List String) :=
  semGeneric.map (fun c => (docOf c, excludedExt semExclude c)) ++
  supGeneric.map (fun c => (docOf c, excludedExt supExceptions c))

/-- the constraint list the live objects enforce on internal type `ty`, as sentences, in the
    arrangement of the report: generic (semantic, supported) minus exceptions, then specific -/
def enforcedDocs (ty : String) : List String :=
  ((semGeneric.filter fun c => !(lookup semExclude ty).contains c) ++
   (supGeneric.filter fun c => !(lookup supExceptions ty).contains c) ++
   lookup semSpecific ty ++ lookup supSpecific ty).map docOf

def enforcedNames (ty : String) : List (String × Bool) :=
  (semGeneric.filter fun c => !(lookup semExclude ty).contains c).map (·, true) ++
  (supGeneric.filter fun c => !(lookup supExceptions ty).contains c).map (·, false) ++
  (lookup semSpecific ty).map (·, true) ++ (lookup supSpecific ty).map (·, false)

def setsAgree (doc live : List String) : Bool :=
  -- the text can only name operators that have an external name
  sameSet doc (live.filter fun ty => extOf ty != "UNKNOWN")

def paramsAgree (doc live : Params) : List String :=
  (if doc.tensDim != live.tensDim then ["tens_dim_range"] else []) ++
  (if doc.stride != live.stride then ["stride_range"] else []) ++
  (if doc.dilH != live.dilH then ["dilated_height_range"] else []) ++
  (if doc.dilProd != live.dilProd then ["dilated_product_range"] else []) ++
  (if doc.weightsLimit != live.weightsLimit then ["weights_limit"] else []) ++
  (if doc.filter != live.filter then ["filter_range"] else []) ++
  (if doc.filterH != live.filterH then ["filter_height_range"] else []) ++
  (if doc.filterProd != live.filterProd then ["filter_product_range"] else []) ++
  (if doc.meanMax != live.meanMax then ["mean_reduced_axis_max_size"] else []) ++
  (if doc.meanInt8 != live.meanInt8 then ["mean_kernel_product_int8"] else []) ++
  (if doc.meanUint8 != live.meanUint8 then ["mean_kernel_product_uint8"] else []) ++
  (if doc.meanInt16 != live.meanInt16 then ["mean_kernel_product_int16"] else []) ++
  (if !sameSet doc.opDtypes live.opDtypes then ["supported_op_dtypes"] else []) ++
  (if !sameSet doc.fafDtypes live.fafDtypes then ["supported_faf_dtypes"] else []) ++
  (if !sameSet doc.biasDtypes live.biasDtypes then ["supported_bias_dtypes"] else []) ++
  (if !sameSet doc.padDtypes live.padDtypes then ["supported_pad_dtypes"] else []) ++
  (if !setsAgree doc.int32Ops live.int32Ops then ["supported_int32_tensor_ops"] else []) ++
  (if !setsAgree doc.perAxisOps live.perAxisOps then ["per_axis_quant_ops"] else []) ++
  (if !setsAgree doc.fafOps live.fafOps then ["supported_fused_activations"] else []) ++
  (if !setsAgree doc.shapelessOps live.shapelessOps then ["shapeless_input_ops"] else []) ++
  (if doc.dwStride != live.dwStride then ["depthwise stride literal"] else []) ++
  (if doc.convStrideH != live.convStrideH then ["conv stride h literal"] else []) ++
  (if doc.convStrideW != live.convStrideW then ["conv stride w literal"] else []) ++
  (if doc.hwStrides != live.hwStrides then ["hw_supported_strides literal"] else []) ++
  (if doc.avgStrideNoPad != live.avgStrideNoPad then ["avg pool stride literal"] else []) ++
  (if doc.biasBits != live.biasBits then ["bias bits literal"] else []) ++
  (if doc.argmaxDepth != live.argmaxDepth then ["argmax depth literal"] else []) ++
  (if doc.maxRank != live.maxRank then ["max rank literal"] else [])

/-- numerals of sentences whose bounds are literals of the function body (and of no `Params` field):
    the model's transcription uses exactly these -/
def literalNums : List (String × List Nat) := [
  ("constraint_batch_size", [1]),
  ("constraint_depth_multiplier", [1, 1]),
  ("constraint_tconv_stride", [1, 1, 2, 2, 2, 1, 1]),
  ("constraint_resize", [1, 1, 1, 2, 4, 8, 1, 1, 2, 4, 8]),
  ("constraint_resizebi_half_pixel_centers_dims", [1, 2]),
  ("constraint_pad_shape", [3, 2, 4, 2]),
  ("constraint_stridedslice_stride_values", [1]),
  ("constraint_weights_type", [8]),
  ("constraint_bias_shape", [1]),
  ("constraint_broadcast_shapes", [1, 1, 2]),
  ("constraint_stridedslice_input_count", [4]),
  ("constraint_pad_input_count", [2]),
  ("constraint_ellipsis_mask", [0]),
  ("constraint_axis_valid", [0]),
  ("constraint_mean_input_dims", [2]),
  ("constraint_mean_axis", [2, 3, 4, 1, 1]),
  ("constraint_fc_output_2d", [2]),
  ("constraint_stride_range_no_padding", [1, 3]),
  ("constraint_stride_width_no_upper_limit", [1, 3, 1, 1, 3, 1, 2, 3, 2, 3]),
  ("constraint_mean_height_width_product", [16777216, 8, 8388608, 8, 65536, 16]),
  ("constraint_transpose_permutation_size", [1]),
  ("constraint_transpose_permutation_values", [0]) ]

def literalProblems : List String :=
  literalNums.filterMap fun (name, ns) =>
    if nums (docOf name) == ns then none else some s!"numerals of {name} changed"

/-- every way report `r` and the live objects disagree -/
def reportProblems (r : Report) : List String :=
  (if r.table == expectedTable then [] else ["summary table"]) ++
  (if r.generic.map (·.1) == expectedGeneric.map (·.1) then [] else ["generic bullets"]) ++
  ((r.generic.zip expectedGeneric).filterMap fun ((b, ex), (_, ex')) =>
    if sameSet ex ex' then none else some s!"exclusions of: {firstLine b}") ++
  (expectedTable.filterMap fun (ext, _) =>
    match builtinOps.find? (·.1 == ext) with
    | some (_, ty) =>
      if bulletsFor r ext == some (enforcedDocs ty) then none else some s!"constraint list of {ext}"
    | none => some s!"unknown operator {ext}") ++
  (if r.specific.map (·.1) == (expectedTable.filter (·.2)).map (·.1) then [] else ["specific sections"]) ++
  -- every enforced sentence is read as the function that enforces it
  ((expectedTable.map fun (ext, _) =>
      match builtinOps.find? (·.1 == ext) with
      | some (_, ty) => (enforcedNames ty).filterMap fun (c, isSem) =>
          if readBullet (docOf c) == some (c, isSem) then none else some s!"sentence of {c} not read as {c}"
      | none => []).flatten.eraseDups) ++
  (match docParams r with
   | some P => paramsAgree P liveParams
   | none => ["bounds unreadable"]) ++
  literalProblems

/-- differences between two reports, as stable keys -/
def reportDrift (a b : Report) : List String :=
  (a.table.filterMap fun (n, _) => if b.table.any (·.1 == n) then none else some s!"only-first:table:{n}") ++
  (b.table.filterMap fun (n, _) => if a.table.any (·.1 == n) then none else some s!"only-second:table:{n}") ++
  (a.table.filterMap fun (n, f) => match b.table.find? (·.1 == n) with
    | some (_, f') => if f == f' then none else some s!"specific-link:{n}" | none => none) ++
  (if a.generic == b.generic then [] else ["generic"]) ++
  ((a.specific.map fun (n, bs) =>
      let bs' := lookup b.specific n
      (bs.filterMap fun x => if bs'.contains x then none else some s!"only-first:{n}:{(readBullet x).map (·.1) |>.getD (firstLine x)}") ++
      (bs'.filterMap fun x => if bs.contains x then none else some s!"only-second:{n}:{(readBullet x).map (·.1) |>.getD (firstLine x)}") ++
      (if bs.length == bs'.length && sameSet bs bs' && bs != bs' then [s!"order:{n}"] else [])).flatten) ++
  (b.specific.filterMap fun (n, _) =>
    if a.specific.any (·.1 == n) || !(a.table.any (·.1 == n)) then none else some s!"only-second:section:{n}")

def showProblems (l : List String) : String :=
  if l.isEmpty then "ok" else "problems " ++ "|".intercalate (l.map fun s => s.replace " " "_")

end VelaVerif.Constraints.Spec
