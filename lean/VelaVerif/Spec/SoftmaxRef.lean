import VelaVerif.Spec.Gemmlowp
/-!
# Reference for the 8-bit SOFTMAX exp table (property C19)

TFLite `kernels/internal/quantization_util.cc` (`PreprocessSoftmaxScaling`, `QuantizeMultiplierGreaterThanOne`,
`CalculateInputRadius`) and the per-element part of the reference 8-bit `Softmax`
(`reference/softmax.h`: `MultiplyByQuantizedMultiplierGreaterThanOne` + `exp_on_negative_values` on
`FixedPoint<int32, 5>`), transcribed from memory with C semantics on top of `Spec/Gemmlowp.lean`.
Independent of `softmax.py` and of `Model/SoftmaxTable.lean`.

Doubles are exact integers: a positive finite double is `m · 2^e`; the one *rounding* double operation of
`PreprocessSoftmaxScaling` (`beta * input_scale`) is done here in exact integer arithmetic with IEEE
round-to-nearest-even (`doubleProduct`), the multiplication by `1 << 26` and the `std::min` are exact.
-/
namespace VelaVerif.SoftmaxRef
open VelaVerif.Gemmlowp

/-- IEEE-754 round-to-nearest-even product of two positive doubles `m1·2^e1 × m2·2^e2` as `(q, k)` meaning
    `q · 2^(-k)` with `2^52 ≤ q < 2^53` (normal range assumed: softmax scales are far from overflow/underflow) -/
def doubleProduct (m1 : Nat) (e1 : Int) (m2 : Nat) (e2 : Int) : Nat × Int :=
  let p := m1 * m2                                  -- exact product, value p · 2^(e1+e2)
  let l := Nat.log2 p                               -- 2^l ≤ p < 2^(l+1)
  if l ≤ 52 then (p * 2 ^ (52 - l), ((52 - l : Nat) : Int) - (e1 + e2))       -- representable: exact
  else
    let s := l - 52
    let q := p / 2 ^ s
    let r := p % 2 ^ s
    let half := 2 ^ (s - 1)
    let q := if r > half ∨ (r = half ∧ q % 2 = 1) then q + 1 else q
    if q = 2 ^ 53 then (2 ^ 52, -((s : Int) + 1) - (e1 + e2)) else (q, -(s : Int) - (e1 + e2))

/-- `std::min<double>(x * (1 << 26), (1LL << 31) - 1.0)` for `x = q·2^(-k)`, again as `(q', k')`, `2^52 ≤ q' < 2^53` -/
def scaledClamped (q : Nat) (k : Int) : Nat × Int :=
  let k := k - 26                                   -- × 2^26: exact
  -- q·2^(-k) > 2^31 − 1 ?   (k ≤ 0: value ≥ 2^52)
  if k ≤ 0 ∨ q > (2 ^ 31 - 1) * 2 ^ k.toNat then ((2 ^ 31 - 1) * 2 ^ 22, 22) else (q, k)

/-- `input_beta_real_multiplier` of `PreprocessSoftmaxScaling(beta, input_scale, 5, …)` with `double beta`,
    `double input_scale` -/
def inputBetaRealMultiplier (mb : Nat) (eb : Int) (ms : Nat) (es : Int) : Nat × Int :=
  let p := doubleProduct mb eb ms es
  scaledClamped p.1 p.2

/-- `QuantizeMultiplierGreaterThanOne(d, &multiplier, &left_shift)` for `d = q·2^(-k)`:
    `TFLITE_CHECK_GT(d, 1.)`, `QuantizeMultiplier`, `TFLITE_CHECK_GE(left_shift, 0)`; `none` = a check fails -/
def quantizeMultiplierGreaterThanOne (q : Nat) (k : Int) : Option (Int × Nat) :=
  let gtOne : Bool := if k < 0 then true else decide (q > 2 ^ k.toNat)
  if ¬ gtOne then none else
  let ms := quantizeMultiplier q k
  if ms.2 < 0 then none else some (ms.1, ms.2.toNat)

/-- `CalculateInputRadius(input_integer_bits, input_left_shift, total_signed_bits = 31)`:
    `floor(1.0 * ((1 << ib) - 1) * (1LL << (31 - ib)) / (1LL << left_shift))` — numerator, denominator and quotient
    are exactly representable doubles (the numerator has `ib ≤ 31` significant bits) -/
def calculateInputRadius (integerBits leftShift : Nat) : Int :=
  (((2 : Int) ^ integerBits - 1) * 2 ^ (31 - integerBits)) / 2 ^ leftShift

/-- one element of the reference 8-bit Softmax before the sum: `exp(beta·scale·input_diff)` in Q0.31,
    `0` for differences below `diff_min` -/
def expEntry (mult : Int) (leftShift : Nat) (diffMin : Int) (inputDiff : Int) : Int :=
  if inputDiff ≥ diffMin then
    -- MultiplyByQuantizedMultiplierGreaterThanOne(input_diff, mult, left_shift), FixedPoint<int32,5>::FromRaw
    let rescaled := srdhm32 (cast32 (inputDiff * 2 ^ leftShift)) mult
    expOnNegativeValues rescaled
  else 0

/-- the 256 values `exp(input_diff)`, `input_diff = x − 255`, `x = 0 … 255` (kScaledDiffIntegerBits = 5) -/
def expTable (mult : Int) (leftShift : Nat) : List Int :=
  let diffMin := -(calculateInputRadius 5 leftShift)
  (List.range 256).map fun (x : Nat) => expEntry mult leftShift diffMin ((x : Int) - 255)

/-- reference table from `real = input_beta_real_multiplier = q·2^(-k)`; `none` when a `TFLITE_CHECK` fails -/
def expTableOfReal (q : Nat) (k : Int) : Option (List Int) :=
  match quantizeMultiplierGreaterThanOne q k with
  | none => none
  | some (mult, ls) => some (expTable mult ls)

/-- reference table from the two doubles `beta = mb·2^eb`, `input_scale = ms·2^es` -/
def expTableOfScales (mb : Nat) (eb : Int) (ms : Nat) (es : Int) : Option (List Int) :=
  let r := inputBetaRealMultiplier mb eb ms es
  expTableOfReal r.1 r.2

end VelaVerif.SoftmaxRef
