import VelaVerif.Spec.Requant
/-!
# Exact IEEE-754 arithmetic on bit patterns (specification side, import-free apart from `Spec/Requant.roundTo`)

Python floats and NumPy scalars are given by the bit pattern of `float(x)` (binary64) plus the kind of the object
(0 Python float / int, 1 `numpy.float32`, 2 `numpy.float64`).  The operations below are the ones
`high_level_command_to_npu_op.py` and `register_command_stream_util.quantise` perform on scales and clamp bounds, done
in integer arithmetic: round-to-nearest-even to 24 / 53 significant bits (`Requant.roundTo`), NumPy's promotion rule for
weak Python scalars, `round_away_zero` (float32 addition of ±0.5, truncation).  Normal range only: an infinity, a NaN, a
subnormal result or an overflow gives `none`.
-/
namespace VelaVerif.FloatExact
open VelaVerif.Requant (roundTo)

/-- a finite value `±m·2^e` (`m = 0`: zero) -/
structure Val where
  neg : Bool
  m : Nat
  e : Int
deriving Repr, DecidableEq, Inhabited

def f64Decode (bits : Nat) : Option Val :=
  let sign : Nat := bits / 2 ^ 63 % 2
  let ex : Nat := bits / 2 ^ 52 % 2048
  let fr : Nat := bits % 2 ^ 52
  if bits ≥ 2 ^ 64 ∨ ex = 2047 then none
  else if ex = 0 then some ⟨sign = 1, fr, -1074⟩
  else some ⟨sign = 1, fr + 2 ^ 52, (ex : Int) - 1075⟩

/-- binary64 bit pattern of an exactly representable value -/
def f64Encode (v : Val) : Option Nat :=
  if v.m = 0 then some (if v.neg then 2 ^ 63 else 0) else
  let l := Nat.log2 v.m                       -- v.m has l + 1 bits
  if l ≤ 52 then
    let m53 := v.m * 2 ^ (52 - l)
    let biased : Int := v.e - ((52 - l : Nat) : Int) + 1075
    if biased < 1 ∨ biased > 2046 then none
    else some ((if v.neg then 2 ^ 63 else 0) + biased.toNat * 2 ^ 52 + (m53 - 2 ^ 52))
  else
    let drop := l - 52
    if v.m % 2 ^ drop ≠ 0 then none else
    let m53 := v.m / 2 ^ drop
    let biased : Int := v.e + (drop : Int) + 1075
    if biased < 1 ∨ biased > 2046 then none
    else some ((if v.neg then 2 ^ 63 else 0) + biased.toNat * 2 ^ 52 + (m53 - 2 ^ 52))

/-- round to `p` significant bits, ties to even -/
def roundP (p : Nat) (v : Val) : Option Val :=
  if v.m = 0 then some v else do
    let (m, e) ← roundTo p v.m 1 v.e
    some ⟨v.neg, m, e⟩

/-- `np.float32(x)` -/
def toF32 (bits : Nat) : Option Val := do roundP 24 (← f64Decode bits)

/-- `int(round_away_zero(np.float32(f) / np.float32(scale)))`: float32 quotient, float32 addition of ±0.5, truncation -/
def qdiv (f scale : Nat) : Option Int := do
  let a ← toF32 f
  let b ← toF32 scale
  if b.m = 0 then none
  else if a.m = 0 then some 0
  else
    let (m, e) ← roundTo 24 a.m b.m (a.e - b.e)
    let k : Int := if e < -1 then e else -1
    let num := m * 2 ^ (e - k).toNat + 2 ^ (-1 - k).toNat        -- (|q| + 1/2) / 2^k
    let (m2, e2) ← roundTo 24 num 1 k
    let mag : Nat := if e2 ≥ 0 then m2 * 2 ^ e2.toNat else m2 / 2 ^ (-e2).toNat
    some (if a.neg != b.neg then -(mag : Int) else (mag : Int))

/-- kind of `x * q` for a float of kind `kind` and an integer of kind `ik` (0 Python int: weak; 1 NumPy integer of at most
    16 bits: float32 stays float32, a Python float becomes float64; 2 wider NumPy integer: always float64) -/
def mulKind (kind ik : Nat) : Nat := if ik = 0 then kind else if ik = 1 ∧ kind = 1 then 1 else 2

/-- `x * q`: one rounding of the exact product to the precision of the result kind -/
def mulInt (bits kind ik : Nat) (q : Int) : Option Nat := do
  let v ← f64Decode bits
  if q = 0 ∨ v.m = 0 then some 0 else
  let prod : Val := ⟨v.neg != decide (q < 0), v.m * q.natAbs, v.e⟩
  f64Encode (← roundP (if mulKind kind ik = 1 then 24 else 53) prod)

/-- kind of `a ∘ b` under NumPy's promotion with weak Python scalars -/
def resultKind (ka kb : Nat) : Nat := if ka = 2 ∨ kb = 2 then 2 else if ka = 1 ∨ kb = 1 then 1 else 0

/-- `a / b` -/
def div (abits akind bbits bkind : Nat) : Option (Nat × Nat) := do
  let k := resultKind akind bkind
  let a ← if k = 1 then toF32 abits else f64Decode abits
  let b ← if k = 1 then toF32 bbits else f64Decode bbits
  if b.m = 0 then none
  else if a.m = 0 then some (0, k)
  else
    let (m, e) ← roundTo (if k = 1 then 24 else 53) a.m b.m (a.e - b.e)
    some (← f64Encode ⟨a.neg != b.neg, m, e⟩, k)

/-- `a == b` -/
def eq (abits akind bbits bkind : Nat) : Bool :=
  if akind = 1 ∧ bkind = 0 then (toF32 bbits).bind f64Encode == some abits
  else if akind = 0 ∧ bkind = 1 then (toF32 abits).bind f64Encode == some bbits
  else abits == bbits

def oneBits : Nat := 0x3FF0000000000000

/-- `1 / 0x3000` in binary64 -/
def inv3000Bits : Nat :=
  match roundTo 53 1 12288 0 with
  | some (m, e) => (f64Encode ⟨false, m, e⟩).getD 0
  | none => 0

end VelaVerif.FloatExact
