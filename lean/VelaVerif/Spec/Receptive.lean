/-!
# Specification: what a striped operator must read and write

Independent of Vela's code (import-free).  One axis at a time (rows; columns are the same with
width / left / right in place of height / top / bottom).

*Reference.*  An operator with kernel size `k`, stride `s`, dilation `d`, original leading padding
`top`, over an input slice of `H` rows that starts at row `off` of the stored tensor and is upscaled
by `up` (`nearest`: every row repeated; `transpose`: zero rows inserted after every row) computes
output row `Y` from the upscaled-domain rows `Y*s + j*d - top`, `0 ≤ j < k`.  A row outside
`[0, H*up)` is padding.

*Hardware.*  The NPU is given the first row `a` of the IFM box, the number `h` of OFM rows of the
stripe, the kernel, the stride and `pad_top`/`pad_bottom` — but **no IFM height**.  For OFM row `y`
of the stripe and tap `j` it addresses the upscaled-domain row `a*up - pt + y*s + j*d`; it treats
it as padding iff it lies before the box start or at/after the *implicit extent*
`(h-1)*s + k_dil - pt - pb` (trusted-base assumption on the hardware, DESIGN.md C10).
-/
namespace VelaVerif.Receptive

inductive Upscale where
  | none | nearest | transpose
deriving Repr, DecidableEq, Inhabited

/-- what a tap multiplies: padding (zero point; for `transpose` also an inserted zero row) or a stored row -/
inductive Src where
  | pad
  | row (r : Int)
deriving Repr, DecidableEq, Inhabited

def dilated (k d : Int) : Int := (k - 1) * d + 1

/-- the hardware's implicit IFM extent in (upscaled) rows, counted from the box start -/
def implicitExtent (h s kdil pt pb : Int) : Int := (h - 1) * s + kdil - pt - pb

/-- stored row behind upscaled-domain row `u ≥ 0` (relative to the slice start) -/
def upRow (mode : Upscale) (up u : Int) : Src :=
  match mode with
  | .none => .row u
  | .nearest => .row (u / up)
  | .transpose => if u % up = 0 then .row (u / up) else .pad

structure Op where
  k : Int
  s : Int
  d : Int
  /-- original leading padding of the un-striped operator -/
  top : Int
  /-- rows of the input slice -/
  H : Int
  /-- first stored row of the input slice (read offset) -/
  off : Int
  up : Int
  mode : Upscale
deriving Repr, Inhabited

/-- what the un-striped operator reads for output row `Y` (relative to the operator's own output), tap `j` -/
def refSrc (o : Op) (Y j : Int) : Src :=
  let u := Y * o.s + j * o.d - o.top
  if u < 0 ∨ u ≥ o.H * o.up then .pad
  else match upRow o.mode o.up u with
    | .pad => .pad
    | .row r => .row (o.off + r)

structure Stripe where
  /-- first OFM row of the stripe, relative to the operator's own output -/
  y0 : Int
  /-- number of OFM rows -/
  h : Int
  /-- IFM box rows `[a, b)` handed to address generation (stored-tensor rows) -/
  a : Int
  b : Int
  /-- padding handed to the hardware -/
  pt : Int
  pb : Int
deriving Repr, Inhabited

/-- what the hardware reads for row `y` (relative to the stripe) and tap `j` -/
def hwSrc (o : Op) (st : Stripe) (y j : Int) : Src :=
  let rel := y * o.s + j * o.d - st.pt
  if rel < 0 ∨ rel ≥ implicitExtent st.h o.s (dilated o.k o.d) st.pt st.pb then .pad
  else match o.mode with
    | .none => .row (st.a + rel)
    | .nearest => .row (st.a + rel / o.up)
    | .transpose => if rel % o.up = 0 then .row (st.a + rel / o.up) else .pad

/-- **Receptive field**: every tap of every output row of the stripe reads what the un-striped
    operator reads. -/
def Receptive (o : Op) (st : Stripe) : Prop :=
  ∀ y j : Int, 0 ≤ y → y < st.h → 0 ≤ j → j < o.k → hwSrc o st y j = refSrc o (st.y0 + y) j

/-- **Coverage**: every stored row the hardware touches lies inside the IFM box. -/
def BoxCovers (o : Op) (st : Stripe) : Prop :=
  ∀ y j : Int, 0 ≤ y → y < st.h → 0 ≤ j → j < o.k → ∀ r, hwSrc o st y j = .row r → st.a ≤ r ∧ r < st.b

def allTaps (o : Op) (st : Stripe) (p : Int → Int → Bool) : Bool :=
  (List.range st.h.toNat).all fun (y : Nat) => (List.range o.k.toNat).all fun (j : Nat) => p (y : Int) (j : Int)

def checkReceptive (o : Op) (st : Stripe) : Bool :=
  allTaps o st fun y j => hwSrc o st y j == refSrc o (st.y0 + y) j

def checkBoxCovers (o : Op) (st : Stripe) : Bool :=
  allTaps o st fun y j => match hwSrc o st y j with
    | .pad => true
    | .row r => decide (st.a ≤ r) && decide (r < st.b)

/-- first (y, j) where the two disagree, for messages -/
def firstMismatch (o : Op) (st : Stripe) : Option (Nat × Nat) :=
  (List.range st.h.toNat).findSome? fun (y : Nat) => (List.range o.k.toNat).findSome? fun (j : Nat) =>
    if hwSrc o st (y : Int) (j : Int) == refSrc o (st.y0 + (y : Int)) (j : Int) then none else some (y, j)

/-- The two equations of DESIGN.md (for `up = 1`): the first addressed row and the end of the implicit
    extent coincide with the receptive field of the un-striped operator clipped to the input, and
    rows before the box start are padding only when they are outside the input. -/
def Equations (o : Op) (st : Stripe) : Prop :=
  st.a - st.pt = o.off + (st.y0 * o.s - o.top) ∧
  (st.pt = 0 ∨ st.a = o.off) ∧ 0 ≤ st.pt ∧
  st.a + implicitExtent st.h o.s (dilated o.k o.d) st.pt st.pb =
    o.off + min ((st.y0 + st.h) * o.s - o.s - o.top + dilated o.k o.d) o.H

/-! ## reference padding (TensorFlow Lite SAME) -/

/-- output size of a SAME convolution -/
def sameOut (H s : Int) : Int := (H + s - 1) / s

/-- total SAME padding: `max((out-1)*s + k_dil - H, 0)` -/
def sameTotal (H s kdil : Int) : Int := max ((sameOut H s - 1) * s + kdil - H) 0

/-! ## partition of the OFM -/

structure Box3 where
  y0 : Nat
  y1 : Nat
  x0 : Nat
  x1 : Nat
  c0 : Nat
  c1 : Nat
deriving Repr, DecidableEq, Inhabited

def Box3.contains (b : Box3) (y x c : Nat) : Bool :=
  decide (b.y0 ≤ y) && decide (y < b.y1) && decide (b.x0 ≤ x) && decide (x < b.x1) && decide (b.c0 ≤ c) && decide (c < b.c1)

def Box3.within (b r : Box3) : Bool :=
  decide (r.y0 ≤ b.y0) && decide (b.y1 ≤ r.y1) && decide (r.x0 ≤ b.x0) && decide (b.x1 ≤ r.x1) &&
  decide (r.c0 ≤ b.c0) && decide (b.c1 ≤ r.c1)

def Box3.volume (b : Box3) : Nat := (b.y1 - b.y0) * (b.x1 - b.x0) * (b.c1 - b.c0)

def Box3.disjoint (a b : Box3) : Bool :=
  a.volume == 0 || b.volume == 0 ||
  decide (a.y1 ≤ b.y0) || decide (b.y1 ≤ a.y0) || decide (a.x1 ≤ b.x0) || decide (b.x1 ≤ a.x0) ||
  decide (a.c1 ≤ b.c0) || decide (b.c1 ≤ a.c0)

/-- **Partition**: every element of the region is written by exactly one box and no box leaves the region. -/
def Partition (boxes : List Box3) (region : Box3) : Prop :=
  (∀ y x c, region.contains y x c = true → boxes.countP (fun b => b.contains y x c) = 1) ∧
  ∀ b ∈ boxes, b.volume = 0 ∨ b.within region = true

def pairwiseDisjoint : List Box3 → Bool
  | [] => true
  | b :: rest => rest.all (fun c => b.disjoint c) && pairwiseDisjoint rest

/-- executable check: all boxes inside, pairwise disjoint, volumes add up (⇒ no gap) -/
def checkPartition (boxes : List Box3) (region : Box3) : Bool :=
  boxes.all (fun b => b.volume == 0 || b.within region) && pairwiseDisjoint boxes &&
  (boxes.map Box3.volume).sum == region.volume

/-! ## rolling buffers: nothing is overwritten before its last reader -/

/-- one issued NPU stripe (or feature-map DMA): rows written and rows the hardware reads -/
structure Access where
  /-- written tensor, its storage height (rows), rows `[wy0, wy1)` -/
  wT : Nat
  wB : Nat
  wy0 : Nat
  wy1 : Nat
  /-- read tensor (0 = nothing tracked), its storage height, rows `[ra, rb)` the hardware touches -/
  rT : Nat
  rB : Nat
  ra : Nat
  rb : Nat
deriving Repr, Inhabited

/-- storage state: (tensor, slot) ↦ row last written -/
abbrev Mem := List ((Nat × Nat) × Nat)

def Mem.get (m : Mem) (t slot : Nat) : Option Nat := (m.find? fun e => e.1 == (t, slot)).map (·.2)
def Mem.set (m : Mem) (t slot row : Nat) : Mem := ((t, slot), row) :: m.filter fun e => e.1 != (t, slot)
def Mem.tracked (m : Mem) (t : Nat) : Bool := m.any fun e => e.1.1 == t

inductive RollVerdict where
  | ok
  /-- access index, tensor, row wanted, slot, row found (none = never written) -/
  | bad (i t row slot : Nat) (found : Option Nat)
deriving Repr, DecidableEq, Inhabited

def writeRows (m : Mem) (t B y0 y1 : Nat) : Mem :=
  (List.range (y1 - y0)).foldl (fun m i => m.set t ((y0 + i) % B) (y0 + i)) m

/-- storage after the producer has written rows `[0, P)` in order into a buffer of `B` rows -/
def writeAll (t B P : Nat) : Mem := writeRows [] t B 0 P

/-- first row of `[ra, rb)` whose slot does not hold that row -/
def readRows (m : Mem) (t B ra rb : Nat) : Option (Nat × Nat × Option Nat) :=
  (List.range (rb - ra)).findSome? fun i =>
    let r := ra + i
    if m.get t (r % B) == some r then none else some (r, r % B, m.get t (r % B))

/-- sequential simulation in issue order.  A tensor becomes tracked with its first write in the
    stream (tensors produced elsewhere — graph inputs, CPU operators — are not judged). -/
def rollingSim : List Access → Mem → Nat → RollVerdict
  | [], _, _ => .ok
  | a :: rest, m, i =>
    if a.wB = 0 ∨ (a.rT ≠ 0 ∧ a.rB = 0) then .bad i a.wT 0 0 none else
    let r := if a.rT ≠ 0 ∧ m.tracked a.rT then readRows m a.rT a.rB a.ra a.rb else none
    match r with
    | some (row, slot, found) => .bad i a.rT row slot found
    | none => rollingSim rest (writeRows m a.wT a.wB a.wy0 a.wy1) (i + 1)

def checkRolling (l : List Access) : RollVerdict := rollingSim l [] 0

/-- storage row the hardware addresses for row `r` of a box starting at `y0`, given tile 0 height `h0`, the
    storage row `s0` of the first row of tile 0 and (if present) `s2` of the first row of tile 2 -/
def tileSlot (y0 h0 s0 : Nat) (s2 : Option Nat) (r : Nat) : Option Nat :=
  if r - y0 < h0 then some (s0 + (r - y0)) else s2.map fun b => b + (r - y0 - h0)

/-- **Tile addressing of a rolling buffer**: every row `r` of the box `[y0, y1)` is fetched from storage row `r mod B` -/
def checkTiles (y0 y1 B h0 s0 : Nat) (s2 : Option Nat) : Bool :=
  (List.range (y1 - y0)).all fun i => tileSlot y0 h0 s0 s2 (y0 + i) == some ((y0 + i) % B)

/-- arithmetic core of rolling-buffer safety: when the consumer stripe that starts reading at row `a`
    is issued, the producer has written rows `[0, P)`; row `r ≥ a` is still in its slot iff `r + B ≥ P`. -/
def RollingSafe (a P B : Nat) : Prop := P ≤ a + B

end VelaVerif.Receptive
