import VelaVerif.Spec.Decode
/-!
# Exact byte footprints of decoded operations

`fmPieces` lists the contiguous byte ranges a feature-map access touches, computed from the
*register values only* (tiles, strides, layout, extents).  Each piece carries `delta`, the
difference between the canonical offset of its first byte inside the whole logical tensor and
its physical address; two accesses to the same logical bytes of the same tensor have equal
`delta`, and a rolling buffer that has wrapped shows up as a different `delta`.
-/
namespace VelaVerif.Footprint
open VelaVerif.Decode

structure Piece where
  addr : Nat
  len : Nat
  delta : Int
deriving Repr, DecidableEq, Inhabited

/-- physical address of element (y, x, c) of a tiled feature map (coordinates relative to the box) -/
def fmAddr (fm : FM) (y x c : Nat) : Nat :=
  let inB := x ≥ fm.width0
  let x' := if inB then x - fm.width0 else x
  let hSplit := if inB then fm.height1 else fm.height0
  let lower := y ≥ hSplit
  let y' := if lower then y - hSplit else y
  let t := (if inB then 1 else 0) + (if lower then 2 else 0)
  let base := fm.base.getD t 0
  if fm.nhcwb16 then base + y' * fm.strideY + x' * (16 * fm.elemBytes) + (c / 16) * fm.strideC + (c % 16) * fm.elemBytes
  else base + y' * fm.strideY + x' * fm.strideX + c * fm.elemBytes

/-- canonical offset of logical element (Y, X, C) in an unbounded, untiled tensor with these strides -/
def canon (fm : FM) (Y X C : Nat) : Nat :=
  if fm.nhcwb16 then Y * fm.strideY + X * (16 * fm.elemBytes) + (C / 16) * fm.strideC + (C % 16) * fm.elemBytes
  else Y * fm.strideY + X * fm.strideX + C * fm.elemBytes

def mkPiece (fm : FM) (y0 x0 c0 y x c len : Nat) : Piece :=
  let a := fmAddr fm y x c
  { addr := a, len := len, delta := (canon fm (y + y0) (x + x0) (c + c0) : Int) - a }

/-- pieces of one row `y`, x-run `[xa, xb)` lying in a single tile -/
def runPieces (fm : FM) (y0 x0 c0 y xa xb : Nat) : List Piece :=
  if xb ≤ xa then [] else
  if fm.nhcwb16 then
    (List.range (ceilDiv fm.depth 16)).flatMap fun cb =>
      let n := min 16 (fm.depth - 16 * cb)
      if n = 16 then [mkPiece fm y0 x0 c0 y xa (16 * cb) ((xb - xa) * 16 * fm.elemBytes)]
      else (List.range (xb - xa)).map fun i => mkPiece fm y0 x0 c0 y (xa + i) (16 * cb) (n * fm.elemBytes)
  else
    if fm.depth * fm.elemBytes = fm.strideX then [mkPiece fm y0 x0 c0 y xa 0 ((xb - xa) * fm.strideX)]
    else (List.range (xb - xa)).map fun i => mkPiece fm y0 x0 c0 y (xa + i) 0 (fm.depth * fm.elemBytes)

/-- merge pieces that are adjacent in memory and in the logical tensor -/
def coalesce : List Piece → List Piece
  | [] => []
  | p :: rest =>
    match coalesce rest with
    | [] => [p]
    | q :: qs => if p.addr + p.len = q.addr ∧ p.delta = q.delta then { p with len := p.len + q.len } :: qs else p :: q :: qs

def fmPieces (fm : FM) (y0 x0 c0 : Nat) : List Piece :=
  coalesce ((List.range fm.height).flatMap fun y =>
    runPieces fm y0 x0 c0 y 0 (min fm.width fm.width0) ++ runPieces fm y0 x0 c0 y fm.width0 fm.width)

/-! ## Per-tile tag shifts

An operation may displace the base address of each of the four tiles by its own byte offset
(Vela: `tile_base_offsets_ifm/ofm`, used to replicate edge rows/columns). The logical element read
through tile `t` is then displaced by `shifts[t]` bytes, so a piece lying in tile `t` carries
`delta + shifts[t]`. Pieces never span tiles (one run per row and per side of `width0`). -/

/-- index of the tile element `(y, x)` lies in — exactly the selection `fmAddr` makes -/
def tileOf (fm : FM) (y x : Nat) : Nat :=
  let inB := x ≥ fm.width0
  let hSplit := if inB then fm.height1 else fm.height0
  (if inB then 1 else 0) + (if y ≥ hSplit then 2 else 0)

def tileShift (shifts : List Int) (t : Nat) : Int := shifts.getD t 0

def shiftPieces (s : Int) (ps : List Piece) : List Piece := ps.map fun p => { p with delta := p.delta + s }

/-- `fmPieces` with the tag of every piece shifted by the offset of the tile it lies in -/
def fmPiecesS (fm : FM) (y0 x0 c0 : Nat) (shifts : List Int) : List Piece :=
  coalesce ((List.range fm.height).flatMap fun y =>
    shiftPieces (tileShift shifts (tileOf fm y 0)) (runPieces fm y0 x0 c0 y 0 (min fm.width fm.width0)) ++
    shiftPieces (tileShift shifts (tileOf fm y fm.width0)) (runPieces fm y0 x0 c0 y fm.width0 fm.width))

/-- smallest and one-past-largest address touched -/
def hull (ps : List Piece) : Option (Nat × Nat) :=
  match ps with
  | [] => none
  | p :: rest => some (rest.foldl (fun (acc : Nat × Nat) q => (min acc.1 q.addr, max acc.2 (q.addr + q.len))) (p.addr, p.addr + p.len))

end VelaVerif.Footprint
