import VelaVerif.Gen.Config
import VelaVerif.Model.ConfigTypes
/-!
# C18 — the documented rules of configuration resolution (OPTIONS.md), written independently of the code

Only the shared vocabulary (`Model/ConfigTypes.lean`: enums, `Arch`, `int()`, `float()`, `normpath`,
`ConfigParser.read` merge) is imported; nothing of `Model/Config.lean`.  What OPTIONS.md states by *name*
is taken from the live document and the example file it points to (`Gen/Config.lean`, regenerated every run):
the default accelerator, and the sections of `config_files/Arm/vela.ini` that `internal-default` "maps to".

Rules and where OPTIONS.md states them

* R1 "Config" / "Configuration File": `--config Dir/file.ini` names a file of the bundled
  `ethosu/config_files` directory; any other path is used as given; files must have the `.ini`
  extension and be readable; the option may be repeated and all files are searched.
* R2 "System Config" / "Memory Mode": `--system-config N` selects `[System_Config.N]`,
  `--memory-mode N` selects `[Memory_Mode.N]`; without the option the `internal-default` values are
  used, which "map to" named sections of the example `vela.ini` (today: Ethos-U65 → Client-Server +
  Dedicated SRAM, Ethos-U55 → High-End Embedded + Shared SRAM): `docInternalSys`, `docInternalMem`.
* R3 "All options are optional.  If they are not specified, then they will be assigned a value of 1
  (or the equivalent)": clock 1, first enum member for ports (Sram) and areas (Axi0), scale 1, burst 1,
  latency 0; "Arena Cache Size": if neither CLI nor file give a size, the maximum address is used.
* R4 `inherit`: "An option in the child overwrites an identical option in the parent"; a section may not
  reference itself, "recursion is not allowed" → the value of a key is that of the *nearest* section of
  the chain child, parent, grandparent, … that defines it.
* R5 "Arena Cache Size": "If specified, this option overrides the memory mode attribute"; `>= 0`.
* R6 memory areas (section "Memory Modes" and the tool's diagnostics): constants in Dram/OnChipFlash/
  OffChipFlash, arena in Sram/Dram, cache in Sram; in the Sram-only arrangement (all three on one Sram
  port) the constants move to the other port as OnChipFlash with the characteristics of Sram;
  0 ≤ arena_cache_size ≤ maximum address.
* Unknown sections, self-inheritance, cycles, illegal areas, malformed numbers, out-of-range sizes must be
  rejected (`Verdict.reject`): any error is accepted, silence is not.
* `Verdict.unspecified`: the documentation does not say (enum member names `Unknown`/`Shram`/`Size` as a
  port, integers outside int64 for burst/latency).
-/
namespace VelaVerif.Spec.Config
open VelaVerif.Config

inductive Verdict (α : Type) where
  | accept (a : α)
  | reject
  | unspecified
deriving Repr, DecidableEq

def Verdict.bind {α β : Type} (v : Verdict α) (f : α → Verdict β) : Verdict β :=
  match v with
  | .accept a => f a
  | .reject => .reject
  | .unspecified => .unspecified

instance : Monad Verdict where
  pure := .accept
  bind := Verdict.bind

/-! ## R4 inheritance -/

/-- the sections child, parent, grandparent, …; `none` when the chain leaves the file, references
    itself or does not end within `fuel` steps (a cycle when `fuel > number of sections`) -/
def chain (ini : Ini) : Nat → String → Option (List Section)
  | 0, _ => none
  | fuel + 1, sec =>
    match ini.lookup sec with
    | none => none
    | some o =>
      match o.lookup "inherit" with
      | none => some [o]
      | some p => if p == sec then none else (chain ini fuel p).map (o :: ·)

/-- nearest definition wins -/
def nearest (key : String) (ch : List Section) : Option String :=
  ch.findSome? (fun o => o.lookup key)

/-! ## R3 option values -/

def optVal {α : Type} (v : Option String) (dflt : α) (parse : String → Option α) : Verdict α :=
  match v with
  | none => .accept dflt
  | some s =>
    match parse s with
    | some x => .accept x
    | none => .reject

/-- documented port values: `{Sram, Dram, OnChipFlash or OffChipFlash}` -/
def docPort (v : Option String) : Verdict MemArea :=
  match v with
  | none => .accept .sram
  | some s =>
    if s == "Sram" then .accept .sram
    else if s == "Dram" then .accept .dram
    else if s == "OnChipFlash" then .accept .onChipFlash
    else if s == "OffChipFlash" then .accept .offChipFlash
    else if s == "Unknown" || s == "Shram" || s == "Size" then .unspecified
    else .reject

/-- `{Axi0, Axi1}` -/
def docMemPort (v : Option String) : Verdict MemPort :=
  match v with
  | none => .accept .axi0
  | some s => if s == "Axi0" then .accept .axi0 else if s == "Axi1" then .accept .axi1 else .reject

def docInt64 (v : Option String) (dflt : Int) : Verdict Int :=
  match optVal v dflt parseInt with
  | .accept x => if x < -(2 ^ 63 : Int) || x ≥ (2 ^ 63 : Int) then .unspecified else .accept x
  | r => r

/-- `<Area>_clock_scale`, `_burst_length`, `_read_latency`, `_write_latency` of an area selected by a port -/
def docRow (ch : List Section) (a : MemArea) : Verdict Row := do
  let sc ← optVal (nearest (a.key ++ "_clock_scale") ch) Dy.one parseFloat
  let bl ← docInt64 (nearest (a.key ++ "_burst_length") ch) 1
  let rl ← docInt64 (nearest (a.key ++ "_read_latency") ch) 0
  let wl ← docInt64 (nearest (a.key ++ "_write_latency") ch) 0
  pure ⟨sc, bl, rl, wl⟩

def internalDefault : String := "internal-default"

/-! ## R2–R6 one compilation's parameters -/

def fuelFor (ini : Ini) : Nat := ini.length + 1

/-- `some chain` when a file defines the section, `none` for the internal defaults -/
def selectSection (ini : Option Ini) (part name : String) : Verdict (Option (List Section)) :=
  match ini with
  | some f =>
    if (f.lookup (part ++ name)).isSome then
      match chain f (fuelFor f) (part ++ name) with
      | some ch => .accept (some ch)
      | none => .reject
    else if name == internalDefault then .accept none
    else .reject
  | none => if name == internalDefault then .accept none else .reject

def sysFromChain (ch : List Section) : Verdict (Dy × MemArea × MemArea × Tab) := do
  let cc ← optVal (nearest "core_clock" ch) Dy.one parseFloat
  let a0 ← docPort (nearest "axi0_port" ch)
  let a1 ← docPort (nearest "axi1_port" ch)
  let r0 ← docRow ch a0
  let r1 ← docRow ch a1
  pure (cc, a0, a1, (Tab.init.set a0 r0).set a1 r1)

def memFromChain (ch : List Section) (maxAddr : Nat) : Verdict (MemPort × MemPort × MemPort × Int) := do
  let c ← docMemPort (nearest "const_mem_area" ch)
  let a ← docMemPort (nearest "arena_mem_area" ch)
  let k ← docMemPort (nearest "cache_mem_area" ch)
  let sz ← optVal (nearest "arena_cache_size" ch) (maxAddr : Int) parseInt
  pure (c, a, k, sz)

/-- R2: "`internal-default` … maps to the following configs from the example `vela.ini` file":
    the section OPTIONS.md names for the accelerator family, resolved in the bundled example file -/
def exampleChain (sec? : Option String) : Verdict (List Section) :=
  match sec? with
  | none => .reject
  | some sec =>
    match chain Gen.Cfg.bundledArmIni (fuelFor Gen.Cfg.bundledArmIni) sec with
    | some ch => .accept ch
    | none => .reject

def docInternalSys (isU65 : Bool) : Verdict (Dy × MemArea × MemArea × Tab) := do
  let ch ← exampleChain (if isU65 then Gen.Cfg.docSysU65 else Gen.Cfg.docSysU55)
  sysFromChain ch

def docInternalMem (isU65 : Bool) (maxAddr : Nat) : Verdict (MemPort × MemPort × MemPort × Int) := do
  let ch ← exampleChain (if isU65 then Gen.Cfg.docMemU65 else Gen.Cfg.docMemU55)
  memFromChain ch maxAddr

def docSysConfig (ini : Option Ini) (isU65 : Bool) (sys : String) : Verdict (Dy × MemArea × MemArea × Tab) := do
  let sel ← selectSection ini "System_Config." sys
  match sel with
  | none => docInternalSys isU65
  | some ch => sysFromChain ch

def docMemMode (ini : Option Ini) (isU65 : Bool) (maxAddr : Nat) (mem : String) :
    Verdict (MemPort × MemPort × MemPort × Int) := do
  let sel ← selectSection ini "Memory_Mode." mem
  match sel with
  | none => docInternalMem isU65 maxAddr
  | some ch => memFromChain ch maxAddr

def otherPort : MemPort → MemPort
  | .axi0 => .axi1
  | .axi1 => .axi0

def constOk (a : MemArea) : Bool := a == .dram || a == .onChipFlash || a == .offChipFlash
def arenaOk (a : MemArea) : Bool := a == .sram || a == .dram
def cacheOk (a : MemArea) : Bool := a == .sram

/-- R5, R6 on the values of the two selected configurations -/
def specFinal (maxAddr : Nat) (cli : Option Int) (sysv : Dy × MemArea × MemArea × Tab)
    (memv : MemPort × MemPort × MemPort × Int) : Verdict Arch :=
  let (cc, a0, a1, tab) := sysv
  let (c, a, k, fileSize) := memv
  -- Sram-only arrangement
  let sramOnly := c == a && a == k && portArea a0 a1 c == .sram
  let c' := if sramOnly then otherPort c else c
  let a0' := if sramOnly && c' == .axi0 then MemArea.onChipFlash else a0
  let a1' := if sramOnly && c' == .axi1 then MemArea.onChipFlash else a1
  let tab' := if sramOnly then { tab with onChipFlash := tab.sram } else tab
  -- R5
  let size : Int := match cli with
    | some v => v
    | none => fileSize
  let pa := portArea a0' a1' c'
  let fa := portArea a0' a1' a
  let ka := portArea a0' a1' k
  if constOk pa && arenaOk fa && cacheOk ka && 0 ≤ size && size ≤ (maxAddr : Int) then
    .accept { coreClock := cc, axi0 := a0', axi1 := a1', tab := tab', constPort := c', arenaPort := a,
              cachePort := k, arenaCacheSize := size, permanent := pa, featureMap := fa, fast := ka }
  else .reject

/-- the documented outcome for one `ArchitectureFeatures` -/
def specArch (ini : Option Ini) (isU65 : Bool) (maxAddr : Nat) (sys mem : String) (cli : Option Int) :
    Verdict Arch :=
  (docSysConfig ini isU65 sys).bind fun sysv =>
  (docMemMode ini isU65 maxAddr mem).bind fun memv =>
  specFinal maxAddr cli sysv memv

/-! ## the accelerators ("maximum address supported by the Ethos-U": 32-bit U55, 40-bit U65) -/

def docAccelerators : List (String × Bool) :=
  [ ("ethos-u55-32", false), ("ethos-u55-64", false), ("ethos-u55-128", false), ("ethos-u55-256", false),
    ("ethos-u65-256", true), ("ethos-u65-512", true) ]

def docMaxAddr (isU65 : Bool) : Nat := if isU65 then 2 ^ 40 else 2 ^ 32

/-- OPTIONS.md "Accelerator Configuration", **Default** (read from the live document) -/
def docDefaultAccelerator : String := Gen.Cfg.docAcceleratorDefault.getD ""

/-! ## R1 files -/

/-- `Dir/file.ini`: exactly a directory name and a file name (no leading `/`, `./`, `../`, `~`) -/
def isBundledName (p : String) : Bool :=
  match splitOnChar '/' (normpath p).toList with
  | [d, _] => !d.isEmpty && d.head? != some '.' && d.head? != some '~'
  | _ => false

/-- where the documentation says the file is: under the bundled directory for `Dir/file.ini`, otherwise the
    path as given (relative to the working directory unless absolute) -/
def locate (env : Env) (p : String) : String :=
  absPath env.cwd (if isBundledName p then pathJoin env.bundled (normpath p) else normpath p)

/-- content of the configuration files of one invocation; `located` are absolute names.
    A file that cannot be opened contributes nothing (`ConfigParser.read`), one that cannot be parsed is an error. -/
def readAll (env : Env) : List String → Ini → Option Ini
  | [], acc => some acc
  | p :: ps, acc =>
    match env.files.lookup p with
    | none => readAll env ps acc
    | some none => none
    | some (some ini) => readAll env ps (mergeIni acc ini)

def lowerStr (s : String) : String := String.ofList (s.toList.map Char.toLower)

/-- direct construction `ArchitectureFeatures(files, acc, sys, mem, …, arena_cache_size)`: the paths are
    used as given -/
def specArchFeatures (env : Env) (files : Option (List String)) (acc sys mem : String) (cli : Option Int) :
    Verdict Arch :=
  match docAccelerators.lookup (lowerStr acc) with
  | none => .reject
  | some isU65 =>
    match files with
    | none => specArch none isU65 (docMaxAddr isU65) sys mem cli
    | some fs =>
      match readAll env (fs.map (absPath env.cwd)) [] with
      | none => .reject
      | some ini => specArch (some ini) isU65 (docMaxAddr isU65) sys mem cli

/-- the documented outcome of a `vela` command line -/
def specMain (env : Env) (a : MainArgs) : Verdict Arch :=
  let cli? : Option (Option Int) := match a.arenaCacheSize with
    | none => some none
    | some t => (parseInt t).map some
  match cli? with
  | none => .reject
  | some cli =>
    match docAccelerators.lookup (a.accelerator.getD docDefaultAccelerator) with
    | none => .reject
    | some isU65 =>
      let located := a.configs.map (locate env)
      let allOk := a.configs.all hasIniExt &&
        located.all (fun p => (env.files.lookup p).isSome)
      if !allOk then .reject else
      let sys := a.systemConfig.getD internalDefault
      let mem := a.memoryMode.getD internalDefault
      if a.configs.isEmpty then specArch none isU65 (docMaxAddr isU65) sys mem cli
      else
        match readAll env located [] with
        | none => .reject
        | some ini => specArch (some ini) isU65 (docMaxAddr isU65) sys mem cli

/-- the checker applied to an observed outcome (`none` = some error was raised) -/
def specCheck (v : Verdict Arch) (obs : Option Arch) : Bool :=
  match v, obs with
  | .unspecified, _ => true
  | .reject, none => true
  | .accept a, some b => a == b
  | _, _ => false

end VelaVerif.Spec.Config
