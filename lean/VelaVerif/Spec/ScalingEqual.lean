import VelaVerif.Spec.Scaling
/-!
# Spec for the "same quantisation" predicate (C09)

Independent of `Model/ScalingEqual.lean`.  The compiler derives a requantising `(multiplier, shift)` pair
for `s_in / s_out` only when its predicate says that two quantisations differ; C09 demands that the emitted
pairs reproduce the real scale to 2^-31.  Hence the verdict "equal" is only admissible when the scales (and
zero points) **denote the same numbers**: any difference, however small, is a factor `s_in / s_out ≠ 1` for
which no multiplier is emitted.  Conversely two quantisations of the same shape holding the same numbers have
to be recognised as equal (otherwise the predicate could be constantly false).

An element is an exact value: a dyadic `a · 2^e` (`a = 0`: zero of either sign), an infinity or NaN.
-/
namespace VelaVerif.Spec.ScalingEqual
open VelaVerif.Spec.Scaling

inductive Val where
  | nan
  | inf (neg : Bool)
  | dy (a e : Int)          -- a · 2^e
deriving Repr, DecidableEq

/-- the two elements denote the same (extended) real number; NaN denotes none -/
def Val.Same : Val → Val → Prop
  | .dy a ea, .dy b eb => DyEq a ea b eb
  | .inf s, .inf t => s = t
  | _, _ => False

instance (x y : Val) : Decidable (Val.Same x y) := by
  cases x <;> cases y <;> unfold Val.Same <;> infer_instance

/-- pointwise, same number of elements -/
def SameList : List Val → List Val → Prop
  | [], [] => True
  | x :: xs, y :: ys => Val.Same x y ∧ SameList xs ys
  | _, _ => False

instance decSameList : (xs ys : List Val) → Decidable (SameList xs ys)
  | [], [] => isTrue trivial
  | x :: xs, y :: ys =>
    match (inferInstance : Decidable (Val.Same x y)), decSameList xs ys with
    | isTrue h1, isTrue h2 => isTrue ⟨h1, h2⟩
    | isFalse h1, _ => isFalse (fun h => h1 h.1)
    | _, isFalse h2 => isFalse (fun h => h2 h.2)
  | [], _ :: _ => isFalse (fun h => h)
  | _ :: _, [] => isFalse (fun h => h)

/-- an attribute (`scale_f32` or `zero_point`): absent, or a shape and its elements -/
structure Attr where
  shape : List Nat
  vals : List Val
deriving Repr, DecidableEq

/-- number of elements a shape announces (`ndarray.size`) -/
def Attr.size (a : Attr) : Nat := a.shape.foldl (· * ·) 1

/-- both absent, or the same numbers in the same order (shapes not compared) -/
def SameFlat : Option Attr → Option Attr → Prop
  | none, none => True
  | some a, some b => SameList a.vals b.vals
  | _, _ => False

/-- both absent, or the same shape holding the same numbers -/
def SameShaped : Option Attr → Option Attr → Prop
  | none, none => True
  | some a, some b => a.shape = b.shape ∧ SameList a.vals b.vals
  | _, _ => False

/-- the exact rule of the NumPy comparison `tensor.py` makes: the same numbers, and either the same shape or two
    one-element arrays of any rank (a scalar against a per-axis array of length one) -/
def SameUpToUnitShape : Option Attr → Option Attr → Prop
  | none, none => True
  | some a, some b => ((a.size = 1 ∧ b.size = 1) ∨ a.shape = b.shape) ∧ SameList a.vals b.vals
  | _, _ => False

instance (a b : Option Attr) : Decidable (SameFlat a b) := by
  cases a <;> cases b <;> unfold SameFlat <;> infer_instance
instance (a b : Option Attr) : Decidable (SameShaped a b) := by
  cases a <;> cases b <;> unfold SameShaped <;> infer_instance

structure Quant where
  scale : Option Attr
  zeroPoint : Option Attr
deriving Repr, DecidableEq

/-- the obligation on a verdict `v` of "quantisation `a` equals quantisation `b`":
    sound — `v = true` only if every scale and every zero point denotes the same number on both sides;
    complete — same shapes and same numbers are recognised. -/
def EqualOk (a b : Quant) (v : Bool) : Prop :=
  (v = true → SameFlat a.scale b.scale ∧ SameFlat a.zeroPoint b.zeroPoint) ∧
  (SameShaped a.scale b.scale ∧ SameShaped a.zeroPoint b.zeroPoint → v = true)

instance (a b : Quant) (v : Bool) : Decidable (EqualOk a b v) := by unfold EqualOk; infer_instance

/-- executable verdict with the failed clause -/
def verdict (a b : Quant) (v : Bool) : String :=
  if EqualOk a b v then "1"
  else if v then
    (if ¬ SameFlat a.scale b.scale then "0:equal-but-scales-differ" else "0:equal-but-zero-points-differ")
  else "0:differ-but-identical"

end VelaVerif.Spec.ScalingEqual
