import VelaVerif.Spec.RewriteSem
import VelaVerif.Model.Rewrites2
/-!
# What the operators before and after the lowerings of `Model/Rewrites2.lean` compute (specification side)

Reference meanings are those of `Spec/TfliteRef.lean` (`transposeConvAcc`, `convAcc`, `dwAcc`, `poolSumCount`, `mbqm`, `clamp`);
where the reference interpreter has no integer definition (grouped convolution, the integer MEAN kernel, the mask algebra of
STRIDED_SLICE) the TensorFlow Lite reference kernel is transcribed here.
-/
namespace VelaVerif.RewriteSem2
open VelaVerif.Requant VelaVerif.TfliteRef VelaVerif.RewriteSem VelaVerif.Rewrites VelaVerif.Rewrites2

/-! ## 8. Transposed convolution -/

/-- the IFM as the NPU sees it with `IFM_UPSCALE = TRANSPOSE` generalised to factors `(sy, sx)`: element `(y, x)` of the IFM at
    `(sy * y, sx * x)`, the zero point (an element that contributes nothing) everywhere else -/
def zeroInserted (sy sx : Nat) (ifm : Nat → Nat → Nat → Int) (zp : Int) : Nat → Nat → Nat → Int :=
  fun y x c => if y % sy = 0 ∧ x % sx = 0 then ifm (y / sy) (x / sx) c else zp

/-- the kernel reversed in height and width (`np.flip(weights, axis=(0, 1))` in `weight_compressor`) -/
def flipped (kh kw : Nat) (wgt : Nat → Nat → Nat → Int) : Nat → Nat → Nat → Int :=
  fun ky kx c => wgt (kh - 1 - ky) (kw - 1 - kx) c

/-- padding of the TFLite reference TRANSPOSE_CONV along one axis (`TfliteRef.transposeConv`: computed from the *output* size) -/
def tconvRefPad (same : Bool) (outSz stride k : Nat) : Nat :=
  let fo := outSize same outSz stride k
  let tot := (fo - 1) * stride + k
  if tot > outSz then (tot - outSz) / 2 else 0

/-- extent of the upscaled IFM that a stride-1 convolution with the given padding implies (what the executor
    `Spec/NpuSem.execBlock` reconstructs from the registers) -/
def upExtent (outSz k padBefore padAfter : Nat) : Nat := outSz - 1 + k - padBefore - padAfter

/-! ## 9. Grouped convolution -/

/-- accumulator of the TFLite reference CONV_2D with groups (`reference_integer_ops::ConvPerChannel`): filter `oc` has
    `Cg` input channels and reads the IFM channels `group * Cg + ic`, `group = oc / Og` (`Og` = filters per group).
    `wgt oc ky kx ic` = filter `oc`. -/
def groupConvAcc (H W Cg Og : Nat) (ifm : Nat → Nat → Nat → Int) (kh kw : Nat) (wgt : Nat → Nat → Nat → Nat → Int)
    (sh sw dh dw pt pl : Nat) (inOff : Int) (oy ox oc : Nat) : Int :=
  convAcc H W Cg (fun y x ic => ifm y x (oc / Og * Cg + ic)) kh kw (wgt oc) sh sw dh dw pt pl inOff oy ox

/-- what the lowering computes for channel `j` of group `g`: the convolution of the IFM slice that starts at depth `off`
    with filter `ocStart + j` of the original weights (`values[..., ocStart:ocEnd]`) -/
def groupPartAcc (H W Cg : Nat) (ifm : Nat → Nat → Nat → Int) (kh kw : Nat) (wgt : Nat → Nat → Nat → Nat → Int)
    (sh sw dh dw pt pl : Nat) (inOff : Int) (off ocStart : Nat) (oy ox j : Nat) : Int :=
  convAcc H W Cg (fun y x ic => ifm y x (off + ic)) kh kw (wgt (ocStart + j)) sh sw dh dw pt pl inOff oy ox

/-! ## 10. MEAN -/

/-- sum of the zero-point-corrected elements over an `h × w` window of one channel (what the all-ones depthwise
    convolution with scaling 1 accumulates) -/
def windowSum (ifm : Nat → Nat → Int) (zp : Int) (y0 h w : Nat) : Int :=
  sumRange h fun r => sumRange w fun c => ifm (y0 + r) c - zp

/-- the partial sums of the convolutions `convs` (read offset, kernel height), added up -/
def splitSum (ifm : Nat → Nat → Int) (zp : Int) (w : Nat) : List (Nat × Nat) → Int
  | [] => 0
  | (off, kh) :: rest => windowSum ifm zp off kh w + splitSum ifm zp w rest

/-- `reference_integer_ops::Mean` after the accumulation: `MultiplyByQuantizedMultiplier(sum, mult, shift) + output_zp`, clamped -/
def meanRefInt (s mult shift zpOut lo hi : Int) : Int := clamp (mbqm s mult shift + zpOut) lo hi

/-- what the final int32 `Mul` with TFLite rounding and explicit shift computes on the NPU: `npuScaleTfl (sum * mult) 1 shiftVela` -/
def meanLowered (s mult : Int) (shiftVela : Nat) (zpOut lo hi : Int) : Int := clamp (npuScaleTfl (s * mult) 1 shiftVela + zpOut) lo hi

/-! ## 11. STRIDED_SLICE -/

/-- start of the TFLite reference (`strided_slice_logic::StartForAxis`, stride 1): masked → 0; negative → `+ dim`; clamped to `[0, dim]` -/
def refStart (dim : Nat) (v : Int) (masked : Bool) : Int :=
  if masked then 0 else
  let s := if v < 0 then v + dim else v
  if s < 0 then 0 else if s > dim then dim else s

/-- stop (`StopForAxis`, stride 1, no shrink): masked → dim; negative → `+ dim`; clamped to `[0, dim]` -/
def refStop (dim : Nat) (v : Int) (masked : Bool) : Int :=
  if masked then dim else
  let s := if v < 0 then v + dim else v
  if s < 0 then 0 else if s > dim then dim else s

/-- per input dimension the start (or stop) that the slice specification gives it, written as a recursion over the
    dimensions: positions whose `new_axis_mask` bit is set are skipped, dimensions beyond the specification are taken in full.
    The value is `sliceVal` of the ADDRESSED dimension. -/
def specOffsets (clampV : Bool) (mask newAxis : Nat) (isBegin : Bool) : List Nat → List Int → Nat → List Int
  | dims, [], _ => dims.map fun (d : Nat) => if isBegin then (0 : Int) else ((d : Nat) : Int)
  | [], _ :: _, _ => []
  | d :: ds, v :: vs, spec =>
    if bit newAxis spec then specOffsets clampV mask newAxis isBegin (d :: ds) vs (spec + 1)
    else (if bit mask spec then (if isBegin then 0 else (d : Int)) else sliceVal clampV d v) :: specOffsets clampV mask newAxis isBegin ds vs (spec + 1)

/-- the clamped reference values, same recursion -/
def refOffsets (mask newAxis : Nat) (isBegin : Bool) : List Nat → List Int → Nat → List Int
  | dims, [], _ => dims.map fun (d : Nat) => if isBegin then (0 : Int) else ((d : Nat) : Int)
  | [], _ :: _, _ => []
  | d :: ds, v :: vs, spec =>
    if bit newAxis spec then refOffsets mask newAxis isBegin (d :: ds) vs (spec + 1)
    else (if isBegin then refStart d v (bit mask spec) else refStop d v (bit mask spec)) :: refOffsets mask newAxis isBegin ds vs (spec + 1)

/-! ## 12. RESIZE -/

/-- 2x nearest-neighbour upscaling of one channel (`IFM_UPSCALE = NEAREST`) -/
def up2 (f : Nat → Nat → Int) : Nat → Nat → Int := fun y x => f (y / 2) (x / 2)

/-- `n` of them one after the other -/
def upN : Nat → (Nat → Nat → Int) → Nat → Nat → Int
  | 0, f => f
  | n + 1, f => up2 (upN n f)

/-- sum of `f ((y + d) / k)` over the `d < k` for which the row exists in an image of `H * k` rows — one axis of the final
    `k × k` average pool over the nearest-neighbour upscaled image with the bottom / right padding left out -/
def axisSum (k H : Nat) (f : Nat → Int) (y : Nat) : Int :=
  sumRange k fun d => if y + d < H * k then f ((y + d) / k) else 0

/-- the same in closed form: `k - r` rows from source row `q = y / k`, `r = y % k` rows from `q + 1` if it exists -/
def axisBlend (k H : Nat) (f : Nat → Int) (y : Nat) : Int :=
  ((k - y % k : Nat) : Int) * f (y / k) + (if y / k + 1 < H then ((y % k : Nat) : Int) * f (y / k + 1) else 0)

/-- `k²` times the reference RESIZE_BILINEAR value for scale `1 / k` (no half-pixel offset; `align_corners` with
    `OH = (H - 1) * k + 1` has the same scale): source rows `q = y / k` and `min (q + 1) (H - 1)` with weights `k - y % k`, `y % k` -/
def blendClamped (k H : Nat) (f : Nat → Int) (y : Nat) : Int :=
  ((k - y % k : Nat) : Int) * f (y / k) + ((y % k : Nat) : Int) * f (min (y / k + 1) (H - 1))

def bilinearNum (k H W : Nat) (f : Nat → Nat → Int) (y x : Nat) : Int :=
  blendClamped k H (fun r => blendClamped k W (f r) x) y

/-! ## 13. PRELU -/

/-- reference PRELU on one element `v` with alpha element `y` (`TfliteRef.evalOp`, `reference_ops::BroadcastPrelu4DSlow`) -/
def preluRef (v y zpIn zpA zpOut idm ids am as lo hi : Int) : Int :=
  let iv := v - zpIn
  clamp ((if iv ≥ 0 then mbqm iv idm ids else mbqm (iv * (y - zpA)) am as) + zpOut) lo hi

/-- `Minimum(ifm, 0)` in the quantisation of the IFM (the constant has zero point 0 and value 0 = real 0) -/
def minZero (v zpIn : Int) : Int := (if v - zpIn ≤ 0 then v - zpIn else 0) + zpIn

/-- reference RELU with rescaling (`TfliteRef.evalOp` "RELU": lower bound = the output zero point) -/
def reluScaled (v zpIn zpOut idm ids lo hi : Int) : Int := clamp (zpOut + mbqm (v - zpIn) idm ids) (max lo zpOut) hi

/-- `Add` without scaling (`ExplicitScaling(shift 0, multiplier 1)`) of two tensors quantised like the output -/
def addNoScale (a b zpOut lo hi : Int) : Int := clamp ((a - zpOut) + (b - zpOut) + zpOut) lo hi

/-- the catch-all lowering `Add(Mul(Minimum(x, 0), alpha), Relu(x))` -/
def preluMinMulReluAdd (v y zpIn zpA zpOut idm ids am as lo hi : Int) : Int :=
  addNoScale (mulElem (minZero v zpIn) y (-zpIn) (-zpA) am as zpOut lo hi) (reluScaled v zpIn zpOut idm ids lo hi) zpOut lo hi

/-- `Maximum(Mul(x, alpha), x)` (IFM and OFM quantised alike, zero point `zp`) -/
def preluMulMaxDirect (v y zp zpA am as lo hi : Int) : Int :=
  max (mulElem v y (-zp) (-zpA) am as zp lo hi) v

end VelaVerif.RewriteSem2
