/-!
# Spec for the raw output (`.npz`) — stated on the artefact alone, independently of the writer

A raw-format user maps region `scratch_region` to a buffer of `scratch_shape[0]` bytes and region `scratch_fast_region` to one of
`scratch_fast_shape[0]` bytes, copies every network input to `input_offset[i]` of the buffer of `input_region[i]` and reads every
output from `output_offset[i]`; an input / output occupies `prod(shape) * elem_size` bytes (linear NHWC).  Hence:

* every listed input / output in an arena region has an offset, and `offset + prod(shape) * elem_size ≤` the size of the buffer
  its region is mapped to;
* when both regions are one number (no dedicated fast memory) the two sizes are one buffer: they must agree;
* the four lists of a direction have one length.

The payload clause (C17) is `Payload.payloadOk` on `cmd_data`; the command-stream accesses against the published sizes are
`Spec/Decode` (`streamcheck`) with the raw sizes as extents.
-/
namespace VelaVerif.Spec.RawOutput

structure RawIo where
  region : Nat
  offset : Option Nat      -- `none` = the file holds `None`
  elemSize : Nat
  shape : List Nat
deriving Repr, DecidableEq

def RawIo.bytes (t : RawIo) : Nat := t.shape.foldl (· * ·) 1 * t.elemSize

structure RawSizes where
  scratchRegion : Nat
  scratchShape : List Nat
  fastRegion : Nat
  fastShape : List Nat
deriving Repr, DecidableEq

/-- the size of the buffer region `r` is mapped to; `none` = not an arena region, or the shape is not one number -/
def RawSizes.sizeOf (z : RawSizes) (r : Nat) : Option (Option Nat) :=
  if r = z.scratchRegion then some (match z.scratchShape with | [n] => some n | _ => none)
  else if r = z.fastRegion then some (match z.fastShape with | [n] => some n | _ => none)
  else none

def ioProblem (z : RawSizes) (what : String) (i : Nat) (t : RawIo) : Option String :=
  match z.sizeOf t.region with
  | none => none
  | some none => some s!"{what} {i}: the shape of region {t.region} is not one number"
  | some (some n) =>
    match t.offset with
    | none => some s!"{what} {i}: no offset in arena region {t.region}"
    | some a => if a + t.bytes > n then some s!"{what} {i}: offset {a} + {t.bytes} bytes > {n} bytes of region {t.region}" else none

def problems (z : RawSizes) (ins outs : List RawIo) : List String :=
  (if z.scratchRegion = z.fastRegion ∧ z.scratchShape ≠ z.fastShape then
     [s!"regions equal ({z.scratchRegion}) but scratch_shape {z.scratchShape} ≠ scratch_fast_shape {z.fastShape}"] else []) ++
  ins.zipIdx.filterMap (fun (t, i) => ioProblem z "input" i t) ++
  outs.zipIdx.filterMap (fun (t, i) => ioProblem z "output" i t)

def ok (z : RawSizes) (ins outs : List RawIo) : Bool := (problems z ins outs).isEmpty

/-- the Prop the checker decides, for one listed tensor -/
def Inside (z : RawSizes) (t : RawIo) : Prop :=
  ∀ sz, z.sizeOf t.region = some sz → ∃ n a, sz = some n ∧ t.offset = some a ∧ a + t.bytes ≤ n

end VelaVerif.Spec.RawOutput
