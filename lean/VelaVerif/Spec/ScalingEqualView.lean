import VelaVerif.Model.ScalingEqual
import VelaVerif.Spec.ScalingEqual
/-!
The Spec's reading of the model's input types (used by the protocol handler to judge the implementation's
verdict and by `Props/C09.lean` to state the theorems): a `Dbl` is the dyadic it denotes.
-/
namespace VelaVerif.Spec.ScalingEqual
open VelaVerif.Scaling

def ofDbl : Dbl → Val
  | .nan => .nan
  | .inf s => .inf s
  | .zero _ => .dy 0 0
  | .fin neg m e => .dy (if neg then -(m : Int) else (m : Int)) e

def ofQVal : VelaVerif.ScalingEqual.QVal → Option Attr
  | .none => none
  | .arr a => some ⟨a.shape, a.vals.map ofDbl⟩

def ofQuant (q : VelaVerif.ScalingEqual.Quant) : Quant := ⟨ofQVal q.scale, ofQVal q.zeroPoint⟩

end VelaVerif.Spec.ScalingEqual
