import VelaVerif.Model.Rewrites
import VelaVerif.Spec.RewriteSem
import VelaVerif.Spec.PassPacking
/-!
# What a packed pass computes: ONE hardware activation against the operators one after the other

A pass is executed as one NPU operation: the main operator (or the 1x1 average pool `create_primary_op` makes), then ONE
activation function. `generate_high_level_commands_for_sched_op` derives that activation from the operators of the pass in
order: the fused activation of the primary operator first, then every RELU-type / TANH / SIGMOID operator; a RELU-type range
is intersected with a RELU-type range that is already there, anything else REPLACES what is there (`hwStep`).
The reference meaning is the operators applied one after the other (`seqApply`). Element-wise on the value the main
operator produces; `F k` is the function of the k-th non-clamp activation (tanh, sigmoid, a lookup table) - uninterpreted.
-/
namespace VelaVerif.PassSem
open VelaVerif.Rewrites VelaVerif.RewriteSem

inductive Act where
  /-- RELU family: a clamp -/
  | clamp (r : ActRange Int)
  /-- TANH / SIGMOID / table lookup number `k` -/
  | fn (k : Nat)
  deriving Repr, DecidableEq

def Act.apply (F : Nat → Int → Int) : Act → Int → Int
  | .clamp r, x => clampO r x
  | .fn k, x => F k x

def applyOpt (F : Nat → Int → Int) : Option Act → Int → Int
  | none, x => x
  | some a, x => a.apply F x

/-- the loop body of `generate_high_level_commands_for_sched_op`: `prev` = `ps.primary_op.activation` so far -/
def hwStep (prev : Option Act) (cur : Act) : Act :=
  match prev, cur with
  | some (.clamp p), .clamp c => .clamp (isectStep (some p) c)
  | _, c => c

/-- the activation the primary operator ends up with -/
def hwActivation (fused : Option Act) (posts : List Act) : Option Act :=
  posts.foldl (fun acc a => some (hwStep acc a)) fused

/-- the pass as one hardware operation, on the value `x` the main operator produces -/
def hwApply (F : Nat → Int → Int) (fused : Option Act) (posts : List Act) (x : Int) : Int :=
  applyOpt F (hwActivation fused posts) x

/-- the operators of the pass one after the other -/
def seqApply (F : Nat → Int → Int) (fused : Option Act) (posts : List Act) (x : Int) : Int :=
  posts.foldl (fun v a => a.apply F v) (applyOpt F fused x)

def Act.isClamp : Act → Bool
  | .clamp _ => true
  | .fn _ => false

/-- the packing condition under which one activation is enough: clamps only -/
def optIsClamp : Option Act → Bool
  | none => true
  | some a => a.isClamp

def clampOnly (fused : Option Act) (posts : List Act) : Bool := optIsClamp fused && posts.all Act.isClamp

def Act.range? : Act → Option (ActRange Int)
  | .clamp r => some r
  | .fn _ => none

/-- one activation is enough: nothing packed, clamps only, or a single function on a primary operator without activation -/
def oneAct (fused : Option Act) (posts : List Act) : Bool :=
  posts.isEmpty || clampOnly fused posts || (fused.isNone && posts.length == 1)

/-! ## the activations of a pass of the graph -/

open VelaVerif.PassPacking VelaVerif.PassPackingSpec VelaVerif.Gen.PassPacking

/-- what the loop of the command generator takes from operator `o` of a pass: RELU family -> its range (`rng o`), TANH /
    SIGMOID -> the function, anything else (the main operator, QUANTIZE) nothing -/
def opAct (G : Graph) (rng : Nat → ActRange Int) (o : Nat) : Option Act :=
  if reluOps.contains (G.op o).type then some (.clamp (rng o))
  else if (G.op o).type == opTanh || (G.op o).type == opSigmoid then some (.fn o)
  else none

/-- the fused activation of operator `o`: RELU family -> its range (`frng o`), anything else (LUT, TANH, SIGMOID) a function -/
def fusedAct (G : Graph) (frng : Nat → ActRange Int) (o : Nat) : Option Act :=
  match (G.op o).act with
  | none => none
  | some a => if reluOps.contains a then some (.clamp (frng o)) else some (.fn (o + G.ops.length))

def primFused (G : Graph) (frng : Nat → ActRange Int) : Option Nat → Option Act
  | some m => fusedAct G frng m
  | none => none

/-- (fused activation of the primary operator, activations of the operators of the pass in order); `prim` = the primary
    operator when it is an operator of the graph -/
def passActs (G : Graph) (rng frng : Nat → ActRange Int) (prim : Option Nat) (ops : List Nat) : Option Act × List Act :=
  (primFused G frng prim, ops.filterMap (opAct G rng))

end VelaVerif.PassSem
