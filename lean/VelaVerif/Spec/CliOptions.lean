import VelaVerif.Model.CliOptions
/-!
# C13 — the documented rules of the command line (OPTIONS.md), written independently of `vela.main`

`documentedLiteral` is what OPTIONS.md says, rule by rule (section names in the comments). The code enforces more
(`undocumentedExtras`) and, for the network suffix, less (`.tosa` is taken as well): `documentedOk` is the complete
rule set under which the code accepts; the three places where it differs from the literal text are kept apart so that
Props/C13Cli can exhibit a witness for each of them.

Nothing here looks at the order of the tests; `firstViolated` at the end restates that order as a list so that the
diagnosis can be compared with "the first violated rule".
-/
namespace VelaVerif.CliOptions.Spec
open VelaVerif.CliOptions

/-- "System Config / Memory Mode — Default: `internal-default`": Ethos-U65 = SRAM + DRAM, Dedicated SRAM (constants and
    arena in the non-SRAM memory, the SRAM as cache); Ethos-U55 = SRAM + (off-chip) Flash, Shared SRAM (constants in the
    flash, arena and cache in the SRAM) -/
def docDefaultSys : Accel → SysCfg
  | .u65_256 | .u65_512 => { axi0 := .sram, axi1 := .dram }
  | _ => { axi0 := .sram, axi1 := .offChipFlash }

def docDefaultMem : Accel → MemMode
  | .u65_256 | .u65_512 => { constPort := .axi1, arenaPort := .axi1, cachePort := .axi0 }
  | _ => { constPort := .axi1, arenaPort := .axi0, cachePort := .axi0 }

/-- "Configuration File": a name is looked up in the files given with `--config`; "If the CLI options are not specified
    then the sections named `internal-default` are used" -/
def sysInForce (o : Opts) (a : Accel) : Option SysCfg :=
  match o.configs, o.sysFile with
  | _ :: _, some s => some s
  | _, _ => if o.sysDefault then some (docDefaultSys a) else none

def memInForce (o : Opts) (a : Accel) : Option MemMode :=
  match o.configs, o.memFile with
  | _ :: _, some m => some m
  | _, _ => if o.memDefault then some (docDefaultMem a) else none

def area (s : SysCfg) (p : MemPort) : MemArea := match p with | .axi0 => s.axi0 | .axi1 => s.axi1

/-- the rules every invocation is subject to ("Choices:" lines) -/
def choicesOk (o : Opts) : Prop :=
  o.accel.isSome = true ∧                                -- Accelerator Configuration — Choices
  o.allocator.isSome = true ∧                            -- Tensor Allocator — Choices: [Greedy, LinearAlloc, HillClimb]
  (0 ≤ o.maxBlockdep ∧ o.maxBlockdep ≤ 3) ∧              -- Max Block Dependency — Choices: [0, 1, 2, 3]
  o.optimise.isSome = true                               -- Optimise — Choices: [Size, Performance]

/-- the rules of a compilation, except the one on the network suffix -/
def docCompile (o : Opts) (a : Accel) : Prop :=
  o.network.isSome = true ∧                                                     -- Network (required)
  (∀ c ∈ o.configs, c.endsIni = true ∧ c.readable = true) ∧                      -- Config: `.ini` files that can be found
  (16 ≤ o.cpuTensorAlignment ∧ Nat.isPowerOfTwo o.cpuTensorAlignment.toNat) ∧    -- CPU Tensor Alignment
  0 ≤ o.arenaCacheSize ∧                                                         -- Arena Cache Size — Choices: [>= 0]
  (sysInForce o a).isSome = true ∧                                               -- System Config names a section
  (memInForce o a).isSome = true                                                 -- Memory Mode names a section

/-- OPTIONS.md, literally: "The file has to be a `.tflite` file" -/
def documentedLiteral (o : Opts) : Prop :=
  choicesOk o ∧
  (o.supportedOpsReport = true ∨ o.listConfigFiles = true ∨
    (∃ a, o.accel = some a ∧ docCompile o a ∧ o.network = some .tflite))

/-- enforced by the code, absent from OPTIONS.md (each is the text of an error message only) -/
def undocumentedExtras (o : Opts) (a : Accel) : Prop :=
  o.networkExists = true ∧
  (1 ≤ o.recursionLimit ∧ o.recursionLimit ≤ 2147483647) ∧           -- the legal arguments of sys.setrecursionlimit
  o.arenaCacheSize ≤ (if a.isU65 then 2 ^ 40 else 2 ^ 32 : Nat) ∧     -- "Size is out of bounds, maximum is"
  (∀ s m, sysInForce o a = some s → memInForce o a = some m →
    -- "const_mem_area must be Dram or OnChipFlash or OffChipFlash" — unless all three areas share the Sram port, in which
    -- case the constants are moved to the other port ("Changing const_mem_area from Sram to OnChipFlash")
    (area s m.constPort ≠ .sram ∨ (m.constPort = m.arenaPort ∧ m.arenaPort = m.cachePort)) ∧
    (area s m.arenaPort = .sram ∨ area s m.arenaPort = .dram) ∧      -- "arena_mem_area must be Sram or Dram"
    area s m.cachePort = .sram)                                       -- "cache_mem_area must be Sram"

/-- the complete rule set: literal text with `.tosa` admitted next to `.tflite`, plus the undocumented extras -/
def documentedOk (o : Opts) : Prop :=
  choicesOk o ∧
  (o.supportedOpsReport = true ∨ o.listConfigFiles = true ∨
    (∃ a, o.accel = some a ∧ docCompile o a ∧ (o.network = some .tflite ∨ o.network = some .tosa) ∧
      undocumentedExtras o a))

/-! ## the code's order of tests, as data -/

def firstBadConfig : List CfgArg → Option Rule
  | [] => none
  | c :: cs => if c.endsIni = false then some .configIni else if c.readable = false then some .configReadable else firstBadConfig cs

/-- is rule `r` violated by `o`? (rules about the architecture are only meaningful once a system configuration and a
    memory mode are in force; the earlier rules of the list say when they are not) -/
def violated (o : Opts) (r : Rule) : Bool :=
  let a := o.accel.getD .u65_256      -- only read by rules that come after `accelChoice`
  let inForce : Option (SysCfg × MemMode) :=
    match sysInForce o a, memInForce o a with
    | some s, some m => some (overrideSram s m)
    | _, _ => none
  match r with
  | .accelChoice => o.accel.isNone
  | .allocatorChoice => o.allocator.isNone
  | .blockdepChoice => decide (o.maxBlockdep < 0 ∨ 3 < o.maxBlockdep)
  | .optimiseChoice => o.optimise.isNone
  | .networkRequired => o.network.isNone
  | .configIni => firstBadConfig o.configs == some .configIni
  | .configReadable => firstBadConfig o.configs == some .configReadable
  | .alignment => decide (o.cpuTensorAlignment < 16) || !decide (Nat.isPowerOfTwo o.cpuTensorAlignment.toNat)
  | .recursionLimit => decide (o.recursionLimit < 1 ∨ 2147483647 < o.recursionLimit)
  | .sysNeedsConfig => o.configs.isEmpty && !o.sysDefault
  | .sysSection => !o.configs.isEmpty && o.sysFile.isNone && !o.sysDefault
  | .memNeedsConfig => o.configs.isEmpty && !o.memDefault
  | .memSection => !o.configs.isEmpty && o.memFile.isNone && !o.memDefault
  | .constArea => match inForce with | some (s, m) => area s m.constPort == .sram | none => false
  | .arenaArea => match inForce with | some (s, m) => !(area s m.arenaPort == .sram || area s m.arenaPort == .dram) | none => false
  | .cacheArea => match inForce with | some (s, m) => area s m.cachePort != .sram | none => false
  | .arenaNegative => decide (o.arenaCacheSize < 0)
  | .arenaTooLarge => decide (o.arenaCacheSize > (maxAddressOffset a : Int))
  | .networkFile => !o.networkExists
  | .networkSuffix => o.network == some .other

def parseRules : List Rule := [.accelChoice, .allocatorChoice, .blockdepChoice, .optimiseChoice]

def mainRules : List Rule :=
  [.networkRequired, .configIni, .configReadable, .alignment, .recursionLimit, .sysNeedsConfig, .sysSection,
   .memNeedsConfig, .memSection, .constArea, .arenaArea, .cacheArea, .arenaNegative, .arenaTooLarge, .networkFile,
   .networkSuffix]

/-- `--supported-ops-report` / `--list-config-files` return before any rule of `mainRules` is looked at -/
def rulesFor (o : Opts) : List Rule :=
  parseRules ++ (if o.supportedOpsReport || o.listConfigFiles then [] else mainRules)

def firstViolated (o : Opts) : Option Rule := (rulesFor o).find? (violated o)

/-- rules that OPTIONS.md states (the others exist as error messages only) -/
def Rule.documented : Rule → Bool
  | .recursionLimit | .constArea | .arenaArea | .cacheArea | .arenaTooLarge | .networkFile => false
  | _ => true

/-- Judge of an *observed* ending (`none` = accepted, `some k` = diagnosis of kind `k`) against the rules, more liberal
    than the model: an acceptance is consistent when no documented rule is violated, a diagnosis when some applicable rule
    of that kind is violated (whichever the code tested first). Used by the failing-input search of harness/c13_cli.py. -/
def consistent (o : Opts) (observed : Option Kind) : Bool :=
  match observed with
  | none => (rulesFor o).all (fun r => !(Rule.documented r && violated o r))
  | some k => (rulesFor o).any (fun r => violated o r && r.kind == k)

end VelaVerif.CliOptions.Spec
