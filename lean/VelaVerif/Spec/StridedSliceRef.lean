/-!
# STRIDED_SLICE: the TensorFlow Lite reference semantics of the slice specification (specification side)

Transcribed from `tensorflow/lite/kernels/strided_slice.cc` (`BuildStridedSliceParams`, `ResizeOutputTensor`) and
`kernels/internal/strided_slice_logic.h` (`StridedSliceStartForAxis`, `StridedSliceEndForAxis`).

`begin`, `end`, `strides` and the five masks are indexed by **position in the slice specification**, not by input
dimension:

* a position whose `new_axis_mask` bit is set (and that is not covered by the ellipsis) inserts a dimension of size 1
  into the *effective* input shape; its `begin` / `end` / `strides` entries and its other mask bits are ignored and it
  consumes no input dimension — every later position addresses the input dimension `position - #new axes before it`;
* the (single) `ellipsis_mask` position expands to as many full dimensions as the specification is short of;
* input dimensions beyond the specification are taken in full;
* per effective dimension of size `d`: a negative index gets `d` added once, is then clamped (to `[0, d]` for a positive
  stride, to `[-1, d-1]` for a negative one), and is replaced by the end of the range when the `begin_mask` / `end_mask`
  bit of its position is set; a `shrink_axis_mask` position takes exactly the element `begin` and drops the dimension.

Everything is a total function on `Nat` / `Int` lists; what the reference rejects is an `Except.error`.
-/
namespace VelaVerif.StridedSliceRef

structure Spec where
  begin : List Int
  end_ : List Int
  strides : List Int
  beginMask : Nat := 0
  endMask : Nat := 0
  ellipsisMask : Nat := 0
  newAxisMask : Nat := 0
  shrinkAxisMask : Nat := 0
  /-- `StridedSliceOptions.offset`: `end` is relative to the resolved `begin` -/
  offset : Bool := false
deriving Repr, DecidableEq, Inhabited

def bit (m i : Nat) : Bool := m.testBit i

/-- one effective dimension after `BuildStridedSliceParams` -/
structure Axis where
  dim : Nat            -- size of the effective input dimension
  start : Int          -- raw start index
  stop : Int           -- raw stop index
  stride : Int
  beginMask : Bool
  endMask : Bool
  shrink : Bool
  /-- a dimension inserted by a new-axis position (no input dimension behind it) -/
  isNew : Bool := false
deriving Repr, DecidableEq, Inhabited

/-- the whole of one dimension (ellipsis, dimensions beyond the specification) -/
def Axis.full (d : Nat) : Axis := ⟨d, 0, 0, 1, true, true, false, false⟩
/-- an inserted dimension of size 1 -/
def Axis.inserted : Axis := ⟨1, 0, 1, 1, false, false, false, true⟩

def clamp (v lo hi : Int) : Int := if v < lo then lo else if hi < v then hi else v

/-- `StridedSliceStartForAxis` -/
def Axis.startIdx (a : Axis) : Int :=
  let d : Int := a.dim
  let s := if a.start < 0 then a.start + d else a.start
  let s := if a.stride > 0 then clamp s 0 d else clamp s (-1) (d - 1)
  if a.beginMask then (if a.stride > 0 then 0 else d - 1) else s

/-- `StridedSliceEndForAxis` followed by `ResizeOutputTensor`'s "shrink: end = begin + 1" -/
def Axis.stopIdx (a : Axis) (offset : Bool) : Int :=
  let d : Int := a.dim
  let start := a.startIdx
  if a.shrink then start + 1 else
  let e := if offset then a.stop + start else a.stop
  let e := if e < 0 then e + d else e
  let e := if a.stride > 0 then clamp e 0 d else clamp e (-1) (d - 1)
  if a.endMask then (if a.stride > 0 then d else -1) else e

/-- number of elements taken: `max 0 ⌈(stop - start) / stride⌉` -/
def Axis.count (a : Axis) (offset : Bool) : Nat :=
  let n := a.stopIdx offset - a.startIdx
  if a.stride > 0 then ((n + a.stride - 1) / a.stride).toNat
  else if a.stride < 0 then ((-n + (-a.stride) - 1) / (-a.stride)).toNat
  else 0

/-- number of positions of the specification whose new-axis bit counts (not the ellipsis position) -/
def numAddAxis (s : Spec) : Nat :=
  ((List.range s.begin.length).filter fun i => !bit s.ellipsisMask i && bit s.newAxisMask i).length

/-- Walk over the effective dimensions `i = 0 …` (fuel = number of effective dimensions, one per step).
    `pos` = position in the specification, `dims` = input dimensions not yet consumed, `ell` = dimensions the ellipsis
    still has to take. -/
def build (s : Spec) (inRank : Nat) : Nat → Nat → Nat → List Nat → Nat → Except String (List Axis)
  | 0, _, _, dims, ell => if dims.isEmpty && ell == 0 then pure [] else throw "strided_slice: dimensions left over"
  | fuel + 1, i, pos, dims, ell + 1 =>
    -- inside the ellipsis: a full input dimension
    match dims with
    | [] => throw "strided_slice: ellipsis"
    | d :: ds => do
      let rest ← build s inRank fuel (i + 1) pos ds ell
      pure (Axis.full d :: rest)
  | fuel + 1, i, pos, dims, 0 =>
    let n := s.begin.length
    if pos < n ∧ bit s.ellipsisMask pos then
      -- the ellipsis expands to `max 1 (…)` effective dimensions, each a full input dimension: the first one now
      let total := inRank + numAddAxis s
      let width := max 1 (min (1 + numAddAxis s + inRank - n) (total - i))
      match dims with
      | [] => throw "strided_slice: ellipsis"
      | d :: ds => do
        let rest ← build s inRank fuel (i + 1) (pos + 1) ds (width - 1)
        pure (Axis.full d :: rest)
    else if pos < n ∧ bit s.newAxisMask pos then
      do
        let rest ← build s inRank fuel (i + 1) (pos + 1) dims 0
        pure (Axis.inserted :: rest)
    else
      match dims with
      | [] => throw "strided_slice: specification longer than the input rank"
      | d :: ds =>
        if pos ≥ n then
          do
            let rest ← build s inRank fuel (i + 1) (pos + 1) ds 0
            pure (Axis.full d :: rest)
        else
          match s.begin[pos]?, s.end_[pos]?, s.strides[pos]? with
          | some b, some e, some st =>
            if st = 0 then throw "strided_slice: stride 0" else
            do
              let rest ← build s inRank fuel (i + 1) (pos + 1) ds 0
              pure ({ dim := d, start := b, stop := e, stride := st, beginMask := bit s.beginMask pos,
                      endMask := bit s.endMask pos, shrink := bit s.shrinkAxisMask pos } :: rest)
          | _, _, _ => throw "strided_slice: begin / end / strides differ in length"

/-- count of set ellipsis bits inside the specification (the reference accepts at most one) -/
def ellipsisCount (s : Spec) : Nat := ((List.range s.begin.length).filter fun i => bit s.ellipsisMask i).length

/-- the effective dimensions of specification `s` on an input of shape `shape` -/
def axes (s : Spec) (shape : List Nat) : Except String (List Axis) :=
  if s.end_.length ≠ s.begin.length ∨ s.strides.length ≠ s.begin.length then
    throw "strided_slice: begin / end / strides differ in length"
  else if ellipsisCount s > 1 then throw "strided_slice: more than one ellipsis"
  else build s shape.length (shape.length + numAddAxis s) 0 0 shape 0

structure Resolved where
  /-- effective input shape (input shape with the new axes inserted) -/
  inShape : List Nat
  start : List Int
  stride : List Int
  /-- elements per effective dimension (1 for a shrunk one) -/
  count : List Nat
  /-- output shape: `count` without the shrunk dimensions -/
  outShape : List Nat
deriving Repr, DecidableEq, Inhabited

def resolve (s : Spec) (shape : List Nat) : Except String Resolved := do
  let ax ← axes s shape
  -- a shrunk dimension reads element `start`: it has to exist
  if ax.any (fun a => a.shrink && (a.startIdx < 0 || a.startIdx ≥ (a.dim : Int))) then throw "strided_slice: shrink index out of range"
  pure { inShape := ax.map (·.dim), start := ax.map (·.startIdx), stride := ax.map (·.stride),
         count := ax.map (fun a => a.count s.offset),
         outShape := (ax.filter (fun a => !a.shrink)).map (fun a => a.count s.offset) }

/-- The window of the INPUT tensor the slice reads, per input dimension: `(first index, one past the last index)` for unit
    strides — what a compiler that implements the slice as a sub-box read has to derive from the specification.
    `none` when some stride is not 1 or the slice is empty / rejected. -/
def inputWindow (s : Spec) (shape : List Nat) : Option (List (Int × Int)) :=
  match axes s shape with
  | .error _ => none
  | .ok ax =>
    if ax.any (fun a => a.stride ≠ 1 || a.count s.offset = 0 || (a.shrink && (a.startIdx < 0 || a.startIdx ≥ (a.dim : Int)))) then none
    else some ((ax.filter (fun a => !a.isNew)).map fun a => (a.startIdx, a.startIdx + (a.count s.offset : Int)))

/-- row-major coordinates of flat index `i` -/
def unflatten (shape : List Nat) (i : Nat) : List Nat :=
  (shape.foldr (fun d (acc : List Nat × Nat) => ((acc.2 % d) :: acc.1, acc.2 / d)) ([], i)).1

def flatten (shape : List Nat) (co : List Int) : Int :=
  (shape.zip co).foldl (fun acc (d, c) => acc * d + c) 0

def prod (l : List Nat) : Nat := l.foldl (· * ·) 1

/-- flat input index of every output element, in output order -/
def gather (r : Resolved) : List Nat :=
  (List.range (prod r.count)).map fun i =>
    let co := unflatten r.count i
    (flatten r.inShape (((co.zip r.start).zip r.stride).map fun ((c, b), st) => b + (c : Int) * st)).toNat

/-- the slice of a flat row-major tensor -/
def eval (s : Spec) (shape : List Nat) (data : Array Int) : Except String (List Nat × Array Int) := do
  let r ← resolve s shape
  pure (r.outShape, ((gather r).map fun k => data.getD k 0).toArray)

end VelaVerif.StridedSliceRef
