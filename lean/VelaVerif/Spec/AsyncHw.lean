/-!
# Asynchronous execution model of the Ethos-U command processor (specification side, C04)

Hand-written from the hardware execution model the property text names; nothing here is derived
from Vela.

* The command processor reads the command stream in program order.
* `NPU_OP_DMA_START` puts an operation into the **DMA queue**, `NPU_OP_CONV/DEPTHWISE/POOL/ELEMENTWISE`
  into the **kernel queue**.  Each queue completes *in order*, at arbitrary times (the `…Done` steps
  are always enabled when the queue is not empty).
* A queue holds at most `max…` outstanding operations: the issue of an operation *blocks* while its
  queue is full.
* `NPU_OP_DMA_WAIT n` / `NPU_OP_KERNEL_WAIT n` block until at most `n` operations of that queue are
  outstanding.
* A **hazard** is a state in which the next command issues an operation (its queue has room) while
  an operation of the *other* queue that conflicts with it is still outstanding.

Operations inside one queue are ordered by the queue itself (DMA: one at a time, in order; kernel:
`BLOCKDEP`, see `Spec/BlockJobs.lean`), so only cross-queue pairs are hazards here.
-/
namespace VelaVerif.AsyncHw

inductive Cmd (Op : Type) where
  | dma (o : Op)
  | kern (o : Op)
  | dmaWait (n : Nat)
  | kernWait (n : Nat)
deriving Repr, DecidableEq, Inhabited

structure Caps where
  maxDma : Nat
  maxKern : Nat
deriving Repr, DecidableEq, Inhabited

/-- machine state: commands not yet executed; outstanding operations of each queue, oldest first -/
structure St (Op : Type) where
  prog : List (Cmd Op)
  dmaQ : List Op
  kernQ : List Op
deriving Repr, DecidableEq, Inhabited

inductive Step {Op : Type} (caps : Caps) : St Op → St Op → Prop
  | dmaDone (p x dq kq) : Step caps ⟨p, x :: dq, kq⟩ ⟨p, dq, kq⟩
  | kernDone (p x dq kq) : Step caps ⟨p, dq, x :: kq⟩ ⟨p, dq, kq⟩
  | issueDma (o p dq kq) : dq.length < caps.maxDma → Step caps ⟨.dma o :: p, dq, kq⟩ ⟨p, dq ++ [o], kq⟩
  | issueKern (o p dq kq) : kq.length < caps.maxKern → Step caps ⟨.kern o :: p, dq, kq⟩ ⟨p, dq, kq ++ [o]⟩
  | dmaWait (n p dq kq) : dq.length ≤ n → Step caps ⟨.dmaWait n :: p, dq, kq⟩ ⟨p, dq, kq⟩
  | kernWait (n p dq kq) : kq.length ≤ n → Step caps ⟨.kernWait n :: p, dq, kq⟩ ⟨p, dq, kq⟩

/-- reflexive-transitive closure of `Step` -/
inductive Reach {Op : Type} (caps : Caps) : St Op → St Op → Prop
  | refl (s) : Reach caps s s
  | tail {s t u} : Reach caps s t → Step caps t u → Reach caps s u

/-- `conf y o`: the earlier operation `y` and the later operation `o` touch a common byte and at least
    one of the two writes it (RAW, WAR or WAW). -/
def Hazard {Op : Type} (caps : Caps) (conf : Op → Op → Bool) (s : St Op) : Prop :=
  match s.prog with
  | .dma o :: _ => s.dmaQ.length < caps.maxDma ∧ ∃ y ∈ s.kernQ, conf y o = true
  | .kern o :: _ => s.kernQ.length < caps.maxKern ∧ ∃ y ∈ s.dmaQ, conf y o = true
  | _ => False

def initial {Op : Type} (prog : List (Cmd Op)) : St Op := ⟨prog, [], []⟩

/-- **The property**: no execution of the machine on `prog` ever reaches a hazard. -/
def HazardFree {Op : Type} (caps : Caps) (conf : Op → Op → Bool) (prog : List (Cmd Op)) : Prop :=
  ∀ s, Reach caps (initial prog) s → ¬ Hazard caps conf s

/-! ## Executable explorer: every completion schedule

Breadth-first search over the reachable states (the successor function lists *every* enabled step).
The number of reachable states of a program of `n` commands is at most
`(n+1)·(maxDma+1)·(maxKern+1)`, which is what `fuel` is set to. -/

def hazardB {Op : Type} (caps : Caps) (conf : Op → Op → Bool) (s : St Op) : Bool :=
  match s.prog with
  | .dma o :: _ => decide (s.dmaQ.length < caps.maxDma) && s.kernQ.any (fun y => conf y o)
  | .kern o :: _ => decide (s.kernQ.length < caps.maxKern) && s.dmaQ.any (fun y => conf y o)
  | _ => false

def succs {Op : Type} (caps : Caps) (s : St Op) : List (St Op) :=
  (match s.dmaQ with | _ :: dq => [{ s with dmaQ := dq }] | [] => []) ++
  (match s.kernQ with | _ :: kq => [{ s with kernQ := kq }] | [] => []) ++
  (match s.prog with
   | .dma o :: p => if s.dmaQ.length < caps.maxDma then [⟨p, s.dmaQ ++ [o], s.kernQ⟩] else []
   | .kern o :: p => if s.kernQ.length < caps.maxKern then [⟨p, s.dmaQ, s.kernQ ++ [o]⟩] else []
   | .dmaWait n :: p => if s.dmaQ.length ≤ n then [⟨p, s.dmaQ, s.kernQ⟩] else []
   | .kernWait n :: p => if s.kernQ.length ≤ n then [⟨p, s.dmaQ, s.kernQ⟩] else []
   | [] => [])

/-- worklist search with the set of visited states; `none` = fuel exhausted (never happens with
    `exploreFuel`: every reachable queue is a suffix of the operations issued so far, so there are at
    most `(n+1)·(maxDma+1)·(maxKern+1)` reachable states, each pushing at most three successors) -/
def explore {Op : Type} [DecidableEq Op] (caps : Caps) (conf : Op → Op → Bool) :
    Nat → List (St Op) → List (St Op) → Option Bool
  | 0, [], _ => some true
  | 0, _ :: _, _ => none
  | _ + 1, [], _ => some true
  | fuel + 1, s :: work, seen =>
    if seen.contains s then explore caps conf fuel work seen
    else if hazardB caps conf s then some false
    else explore caps conf fuel (succs caps s ++ work) (s :: seen)

def exploreFuel (caps : Caps) (n : Nat) : Nat := 4 * ((n + 1) * (caps.maxDma + 1) * (caps.maxKern + 1)) + 4

/-- `some true`: no completion schedule of `prog` reaches a hazard -/
def hazardFree {Op : Type} [DecidableEq Op] (caps : Caps) (conf : Op → Op → Bool) (prog : List (Cmd Op)) : Option Bool :=
  explore caps conf (exploreFuel caps prog.length) [initial prog] []

/-! ## Closed form: the laziest schedule dominates

`D`, `K` bound the outstanding operations from above (every reachable queue is a suffix of them):
nothing completes unless a wait or a full queue forces it.  An operation may be issued only if no
operation that can still be outstanding in the other queue conflicts with it.
`Props/C04.lean` proves `lazyCheck … = true → HazardFree …` and the converse. -/

/-- the last `n` elements -/
def lastN {α : Type} (n : Nat) (l : List α) : List α := l.drop (l.length - n)

def lazyCheck {Op : Type} (caps : Caps) (conf : Op → Op → Bool) : List (Cmd Op) → List Op → List Op → Bool
  | [], _, _ => true
  | .dmaWait n :: p, D, K => lazyCheck caps conf p (lastN n D) K
  | .kernWait n :: p, D, K => lazyCheck caps conf p D (lastN n K)
  | .dma o :: p, D, K =>
    if caps.maxDma = 0 then true       -- the command can never be issued: the machine stops here
    else !(K.any (fun y => conf y o)) && lazyCheck caps conf p (lastN (caps.maxDma - 1) D ++ [o]) K
  | .kern o :: p, D, K =>
    if caps.maxKern = 0 then true
    else !(D.any (fun y => conf y o)) && lazyCheck caps conf p D (lastN (caps.maxKern - 1) K ++ [o])

/-- index (in program order) of the first operation `lazyCheck` rejects, with the index of a
    conflicting operation that may still be outstanding (for messages) -/
def lazyFirst {Op : Type} (caps : Caps) (conf : Op → Op → Bool) :
    List (Cmd Op) → List (Nat × Op) → List (Nat × Op) → Nat → Option (Nat × Nat)
  | [], _, _, _ => none
  | .dmaWait n :: p, D, K, i => lazyFirst caps conf p (lastN n D) K i
  | .kernWait n :: p, D, K, i => lazyFirst caps conf p D (lastN n K) i
  | .dma o :: p, D, K, i =>
    if caps.maxDma = 0 then none else
    match K.find? (fun y => conf y.2 o) with
    | some y => some (i, y.1)
    | none => lazyFirst caps conf p (lastN (caps.maxDma - 1) D ++ [(i, o)]) K (i + 1)
  | .kern o :: p, D, K, i =>
    if caps.maxKern = 0 then none else
    match D.find? (fun y => conf y.2 o) with
    | some y => some (i, y.1)
    | none => lazyFirst caps conf p D (lastN (caps.maxKern - 1) K ++ [(i, o)]) (i + 1)

end VelaVerif.AsyncHw
