import VelaVerif.Spec.NpuWide
/-!
# Execution of an output model over its tensor arena (specification side)

The output file carries an offline memory allocation (`OfflineMemoryAllocation` metadata): every
non-constant tensor of the subgraph lives at a fixed byte offset of one arena, which is also the scratch
region (region 1) of the Ethos-U operators. `evalGraphArena` runs the operators in file order over that one
byte array: graph inputs are written at their offsets, a CPU operator reads its operands from the arena and
writes its results there, an Ethos-U operator executes its command stream directly on the arena. A tensor
that is overwritten before its last reader runs is therefore *seen* as overwritten (the functional
interpreter `TfliteRef.evalGraph` cannot see that).

The arena starts poisoned (0xCD), so reading a tensor nothing has written yet yields recognisable garbage
instead of zeros.
-/
namespace VelaVerif.ArenaExec
open VelaVerif.TfliteRef VelaVerif.NpuSem VelaVerif.NpuWide

def writeAt (arena : ByteArray) (off : Nat) (dt : DType) (data : Array Int) : Except String ByteArray := do
  let nb := dt.bytes
  if off + data.size * nb > arena.size then throw s!"tensor at offset {off} lies outside the arena (size {arena.size})"
  let mut b := arena
  for i in [0:data.size] do
    b := putElem b (off + i * nb) nb (data.getD i 0)
  return b

def readAt (arena : ByteArray) (off : Nat) (dt : DType) (shape : List Nat) : Except String Tensor := do
  let nb := dt.bytes
  let n := prod shape
  if off + n * nb > arena.size then throw s!"tensor at offset {off} lies outside the arena (size {arena.size})"
  let mut out : Array Int := Array.mkEmpty n
  for i in [0:n] do
    let mut v := 0
    for k in [0:nb] do
      v := v + (arena.get! (off + i * nb + k)).toNat * 256 ^ k
    out := out.push (if dt.signed then toSigned v (8 * nb) else v)
  return { shape := shape, data := out }

/-- value of tensor `i` as an operator sees it: constant data, or the bytes at its arena offset -/
def fetch (g : Graph) (offs : Array Int) (arena : ByteArray) (i : Nat) : Except String Tensor := do
  match g.tensors[i]? with
  | none => throw s!"tensor {i} does not exist"
  | some td =>
    match td.const with
    | some d => pure { shape := td.shape, data := d }
    | none =>
      let off := offs.getD i (-1)
      if off < 0 then throw "unsupported:tensor-without-arena-offset"
      readAt arena off.toNat td.dtype td.shape

/-- run the output graph over the arena; `npu` executes an Ethos-U operator on the arena -/
def evalGraphArena (g : Graph) (offs : Array Int) (arenaSize : Nat) (inputs : List Tensor)
    (npu : OpDef → ByteArray → Except String ByteArray) : Except String Env := do
  let mut arena := poison arenaSize
  if inputs.length ≠ g.inputs.length then throw "graph: input count"
  for (i, t) in g.inputs.zip inputs do
    if t.data.size ≠ prod (g.shape i) then throw "graph: input size"
    let off := offs.getD i (-1)
    if off < 0 then throw "unsupported:graph-input-without-arena-offset"
    arena ← writeAt arena off.toNat (g.dtype i) t.data
  let consts : Env := g.tensors.map fun td => td.const.map fun d => { shape := td.shape, data := d }
  for op in g.ops do
    if op.kind = "NPU" then
      arena ← npu op arena
    else
      -- operands as they are in the arena now
      let mut env := consts
      for i in op.ins do
        if i ≥ 0 then
          env := env.setIfInBounds i.toNat (some (← fetch g offs arena i.toNat))
      verifyParams g op
      let res ← evalOp g env op
      if res.length ≠ op.outs.length then throw s!"{op.kind}: output count"
      for (o, t) in op.outs.zip res do
        let os := g.shape o
        if prod os ≠ t.data.size then throw s!"{op.kind}: output {o} has {t.data.size} elements, declared shape {os}"
        let dt := g.dtype o
        if t.data.any (fun v => v < dt.lo ∨ v > dt.hi) then throw s!"{op.kind}: output {o} out of range of its type"
        let off := offs.getD o (-1)
        if off < 0 then throw "unsupported:tensor-without-arena-offset"
        arena ← writeAt arena off.toNat dt t.data
  let mut env := consts
  for o in g.outputs do
    env := env.setIfInBounds o (some (← fetch g offs arena o))
  return env

end VelaVerif.ArenaExec
