import VelaVerif.Spec.Decode
import VelaVerif.Model.NpuOp
import VelaVerif.Gen.Core
import VelaVerif.Spec.Shram
/-!
# C06 specification: "the stream encodes exactly the operations it was given"

The *judge* for real command streams.  The words are decoded by `Spec/Decode.lean` (register file
tracked across the whole stream, so a value the generator elided is still seen), and every decoded
field is compared with the field of the operation that was sent — at the level of meaning (region,
address, extent, stride, signedness, element size, layout, …), never by re-encoding.  Nothing in this
file is derived from Vela's generator; the hardware encodings (sub-operation numbers, activation
numbers, default strides of the two layouts, alignment rules) are written down here by hand.

Only plain data is imported from the model side (`Model/NpuOp.lean`: the api.py vocabulary).
-/
namespace VelaVerif.OpCheck
open VelaVerif VelaVerif.Decode VelaVerif.NpuOp VelaVerif.Isa

/-! ## hardware encodings (hand-written) -/

/-- `NPU_OP_POOL` parameter for api.NpuPoolingOp ordinal (MAX, AVERAGE, REDUCE_SUM) -/
def specPoolMode : Nat → Option Nat
  | 0 => some 0 | 1 => some 1 | 2 => some 2 | _ => none

/-- `NPU_OP_ELEMENTWISE` parameter for api.NpuElementWiseOp ordinal
    (ADD, SUB, MUL, ABS, MIN, MAX, LRELU, CLZ, SHR, SHL) -/
def specEwMode : Nat → Option Nat
  | 0 => some 1 | 1 => some 2 | 2 => some 0 | 3 => some 6 | 4 => some 3 | 5 => some 4 | 6 => some 5
  | 7 => some 7 | 8 => some 8 | 9 => some 9 | _ => none

/-- api ordinals of the unary elementwise operations (ABS, LRELU, CLZ) -/
def specEwUnary (ord : Nat) : Bool := ord = 3 || ord = 6 || ord = 7

/-- api ordinals of elementwise operations that use the global OFM scale (ADD, SUB, MUL, ABS, LRELU) -/
def specEwGlobalScale (ord : Nat) : Bool := ord = 0 || ord = 1 || ord = 2 || ord = 3 || ord = 6

/-- `NPU_SET_ACTIVATION` value: NONE 0, TANH 3, SIGMOID 4, table lookup 16 + index;
    bits 13:12 = 3 selects the int8 clip range for a 32-bit OFM going through a table -/
def specActivation (a : Activation) (ofm32 : Bool) : Option Nat :=
  match a.opType with
  | 0 => some 0 | 1 => some 3 | 2 => some 4
  | 3 => if 0 ≤ a.lutIndex ∧ a.lutIndex < 8 then some (16 + a.lutIndex.toNat + (if ofm32 then 3 * 4096 else 0)) else none
  | _ => none

def roundUp16 (x : Int) : Int := (x + 15) / 16 * 16

/-- default strides (Y, X, C) of the two memory layouts -/
def specStrides (fm : NpuOp.FM) : Int × Int × Int :=
  match fm.strides with
  | some s => (s.height, s.width, s.depth)
  | none =>
    let es := fm.dtype.bytes
    if fm.nhcwb16 then (es * fm.shape.width * roundUp16 fm.shape.depth, 16 * es, 16 * es * fm.shape.width)
    else (fm.shape.width * fm.shape.depth * es, fm.shape.depth * es, es)

/-! ## what the hardware needs for the operation, independent of any allocator -/

/-- every feature map of the operation carries a quantisation scale (the output is rescaled from the accumulators) -/
def allScaled (op : NpuOp.BlockOp) : Bool :=
  op.ifm.scaled && op.ofm.scaled && (match op.ifm2 with | some f => f.scaled | none => true)

/-- Accumulator width the operation requires: products / sums of 16-bit inputs that are rescaled need 40-bit
    accumulators; maximum and average pooling never do (no products are accumulated); everything else 32 bit. -/
def requiredAccBitsCore (plainPooling : Bool) (ifmBits : Nat) (scaled : Bool) : Nat :=
  if ifmBits = 16 && scaled && !plainPooling then 40 else 32

def requiredAccBits (op : NpuOp.BlockOp) : Nat :=
  let plainPooling := op.kind == .pool && (op.subOp = 0 || op.subOp = 1)      -- MAX, AVERAGE (not REDUCE_SUM)
  requiredAccBitsCore plainPooling op.ifm.dtype.bits (allScaled op)

/-- `NPU_SET_ACC_FORMAT`: 0 = 32-bit integer, 1 = 40-bit integer (2 = 16-bit float, never required here) -/
def specAccFormat (bits : Nat) : Int := if bits = 40 then 1 else 0

/-- the operation as the SHRAM specification of C15 sees it (`Spec/Shram.lean`) -/
def shramView (op : NpuOp.BlockOp) : Spec.Shram.OpView :=
  let isEw := op.kind == .elementwise
  let binaryTensor := isEw && !specEwUnary op.subOp && op.ifm2Scalar.isNone
  let k : Kernel := if isEw then ⟨1, 1, 1, 1, 1, 1⟩ else op.kernel.getD ⟨1, 1, 1, 1, 1, 1⟩
  { usage := if binaryTensor then .ewBinary else if isEw then .ewUnary else .mac,
    equalDepth := isEw || op.kind == .depthwise || (op.kind == .pool && op.subOp ≠ 2),
    ifmBits := op.ifm.dtype.bits, ifmDepth := op.ifm.shape.depth.toNat,
    partKernel := op.kind == .conv && op.partKernelFirst,
    kernelW := k.width.toNat, kernelH := k.height.toNat, strideX := k.strideX.toNat, strideY := k.strideY.toNat,
    dilX := k.dilationX.toNat, dilY := k.dilationY.toNat,
    upscale := if op.upscale = 0 then 1 else 2, nearest := op.upscale = 1,
    ofmHeight := op.ofm.shape.height.toNat,
    usesLut := (match op.activation with | some a => a.opType = 3 | none => false) }

/-- The SHRAM partitions programmed at the operation (`IFM_IB_END`, `IFM2_IB_START`, `AB_START`; the IFM partition
    starts after the banks of the output stage, the accumulators end where the lookup table / unusable tail begins)
    must be ordered and large enough to double-buffer the IFM block and the accumulators **of the width the operation
    requires** — judged by `Spec.Shram.checkConfig`, not by what the allocator says it reserved. -/
def shramVerdict (srow : Gen.Shram.Row) (unusedTail : Nat) (op : NpuOp.BlockOp) (d : Decode.BlockOp) : String :=
  let v := shramView op
  let ibStart : Int := srow.reservedOutputBanks
  let lutStart : Int := if v.usesLut then (srow.lutAddress / srow.bankSizeBytes : Nat) else (srow.cfgShramBanks - unusedTail : Nat)
  let ib2 : Int := if v.usage == .ewBinary then (match d.ib2Start with | some x => (x : Int) | none => -1) else ibStart
  Spec.Shram.checkConfig srow unusedTail v ⟨d.blkW, d.blkH, d.blkD⟩ (requiredAccBits op)
    ⟨ibStart, ib2, d.ibEnd, d.abStart, lutStart⟩

/-! ## comparison -/

abbrev Msgs := List String

def chk (name : String) (exp got : Int) : Msgs :=
  if exp = got then [] else [s!"{name}:exp={exp}:got={got}"]

def chkB (name : String) (exp got : Bool) : Msgs :=
  if exp = got then [] else [s!"{name}:exp={exp}:got={got}"]

def natsToInts (l : List Nat) : List Int := l.map Int.ofNat

def chkL (name : String) (exp got : List Int) : Msgs :=
  if exp = got then [] else [s!"{name}:exp={exp}:got={got}".replace " " ""]

def cmpFM (nm : String) (fm : NpuOp.FM) (d : Decode.FM) (extent : Bool) : Msgs :=
  let (sy, sx, sc) := specStrides fm
  chk (nm ++ ".region") fm.region d.region ++
  chkL (nm ++ ".base") fm.addresses (natsToInts d.base) ++
  chk (nm ++ ".height0") fm.height0 d.height0 ++ chk (nm ++ ".height1") fm.height1 d.height1 ++
  chk (nm ++ ".width0") fm.width0 d.width0 ++
  chk (nm ++ ".strideY") sy d.strideY ++ chk (nm ++ ".strideX") sx d.strideX ++ chk (nm ++ ".strideC") sc d.strideC ++
  chk (nm ++ ".elemBytes") fm.dtype.bytes d.elemBytes ++ chkB (nm ++ ".signed") fm.dtype.signed d.signed ++
  chkB (nm ++ ".nhcwb16") fm.nhcwb16 d.nhcwb16 ++
  chk (nm ++ ".zeroPoint") (if fm.hasQuant then fm.zeroPoint else 0) d.zeroPoint ++
  (if extent then chk (nm ++ ".height") fm.shape.height d.height ++ chk (nm ++ ".width") fm.shape.width d.width ++
                  chk (nm ++ ".depth") fm.shape.depth d.depth else [])

def cmpRanges (nm : String) (exp : List NpuOp.AddrRange) (got : List Decode.AddrRange) : Msgs :=
  -- a zero length disables a core; the decoder lists the active ranges
  let e := (exp.filter (·.length ≠ 0)).map fun r => [r.region, r.address, r.length]
  let g := got.map fun r => [(r.region : Int), r.addr, r.len]
  if e = g then [] else [s!"{nm}:exp={e}:got={g}".replace " " ""]

def optNat (o : Option Nat) : Int := match o with | some v => v | none => -1

/-- expected raw value of a scale register: payload = scale, parameter = shift -/
def cmpScale (nm : String) (exp : Option (Int × Int)) (got : Option Nat) : Msgs :=
  match exp with
  | none => []
  | some (s, sh) =>
    match got with
    | none => [s!"{nm}:never-written"]
    | some g => chk (nm ++ ".scale") s (g % 2 ^ 32 : Nat) ++ chk (nm ++ ".shift") sh (g / 2 ^ 32 : Nat)

def wantWait (w : Int) : Int := if w ≥ 0 then w else -1

/-- the operation programs the global OFM scale: elementwise by sub-operation; pooling: average / reduce-sum without
    padding, or explicit per-tensor scaling -/
def usesGlobalScale (op : NpuOp.BlockOp) : Bool :=
  let padSum : Int := match op.padding with | some p => p.top + p.left + p.bottom + p.right | none => 0
  match op.kind with
  | .elementwise => specEwGlobalScale op.subOp
  | .pool => if op.rescaleKind = 2 then true else if op.rescaleKind = 3 then false
             else (op.subOp = 1 || op.subOp = 2) && padSum = 0
  | _ => false

def cmpBlock (arch : Arch) (strict : Bool) (op : NpuOp.BlockOp) (d : Decode.BlockOp) (regs : RegFile)
    (kw dw : Option Nat) (srow : Option Gen.Shram.Row) (unusedTail : Nat) : Msgs :=
  let isEw := op.kind == .elementwise
  let kindOk := match op.kind, d.kind with
    | .conv, .conv => true | .depthwise, .depthwise => true | .pool, .pool => true
    | .elementwise, .elementwise => true | _, _ => false
  let subExp : Int := match op.kind with
    | .pool => (specPoolMode op.subOp).elim (-1) Int.ofNat
    | .elementwise => (specEwMode op.subOp).elim (-1) Int.ofNat
    | _ => 0
  let binary := isEw && !specEwUnary op.subOp
  let ofm32 := op.ofm.dtype.bits = 32
  -- IFM: the register file has no IFM height/width; the decoder derives the extent the hardware walks over
  let ifmMsgs := cmpFM "ifm" op.ifm d.ifm false ++
    chk "ifm.depthReg" op.ifm.shape.depth (regs.get0D IFM_DEPTH_M1 0 + 1 : Nat) ++
    (if strict then
       -- the extent the hardware walks over (from OFM extent, kernel, stride, padding, upscaling) is the declared IFM
       chk "ifm.impliedHeight" op.ifm.shape.height d.ifm.height ++ chk "ifm.impliedWidth" op.ifm.shape.width d.ifm.width
     else [])
  let ifm2Msgs : Msgs :=
    if !binary then [] else
    match op.ifm2 with
    | none => ["ifm2:missing-in-operation"]
    | some f2 =>
      let prec2 := regs.get0D IFM2_PRECISION 0
      let common := chkB "ifm2.signed" f2.dtype.signed (prec2 % 2 = 1) ++
        chk "ifm2.elemBits" f2.dtype.bits (8 * 2 ^ (prec2 / 4 % 4) : Nat) ++
        chk "ifm2.zeroPointReg" (if f2.hasQuant then f2.zeroPoint else 0) (s16 (regs.get0D IFM2_ZERO_POINT 0)) ++
        chkB "reversedOperands" op.reversedOperands (d.ifm2Broadcast / 64 % 2 = 1)
      match op.ifm2Scalar with
      | some q =>
        let raw := optNat d.ifm2Scalar
        common ++ chkB "ifm2.useScalar" true (d.ifm2Broadcast / 128 % 2 = 1) ++
          chk "ifm2.scalar" q (if f2.dtype.signed then s16 raw.toNat else raw)
      | none =>
        match d.ifm2 with
        | none => common ++ ["ifm2:decoder-sees-scalar-or-unary"]
        | some d2 => common ++ cmpFM "ifm2" f2 d2 true ++ chk "ifm2.ibStart" op.oracle.ibStart2 (optNat d.ib2Start)
  let kernelMsgs : Msgs :=
    if isEw then [] else
    match op.kernel with
    | none => ["kernel:missing-in-operation"]
    | some k =>
      chk "kernel.width" (k.dilationX * (k.width - 1) + 1) d.kernelW ++ chk "kernel.height" (k.dilationY * (k.height - 1) + 1) d.kernelH ++
      chk "kernel.strideX" k.strideX d.strideX ++ chk "kernel.strideY" k.strideY d.strideY ++
      chk "kernel.dilationX" k.dilationX d.dilationX ++ chk "kernel.dilationY" k.dilationY d.dilationY ++
      chkB "kernel.partKernelFirst" (op.kind == .conv && op.partKernelFirst) d.partKernelFirst
  let padMsgs : Msgs :=
    match op.padding with
    | some p => if isEw then [] else
      chk "pad.top" p.top d.padTop ++ chk "pad.left" p.left d.padLeft ++ chk "pad.bottom" p.bottom d.padBottom ++
      chk "pad.right" p.right d.padRight
    | none => []
  let hasW := op.kind == .conv || op.kind == .depthwise
  let wMsgs : Msgs := if hasW && !op.weights.isEmpty then cmpRanges "weights" op.weights d.weights else []
  let bMsgs : Msgs := if hasW && !op.biases.isEmpty then cmpRanges "scales" op.biases d.scales else []
  let act : Activation := op.activation.getD ⟨0, none, none, 0⟩
  let dmin := op.ofm.dtype.minValue
  let dmax := op.ofm.dtype.maxValue
  let lut32 := act.opType = 3 && ofm32
  let emin := max (max (act.qmin.getD dmin) dmin) (if lut32 then -128 else -32768)
  let emax := min (min (act.qmax.getD dmax) dmax) (if lut32 then 127 else 32767)
  let actMsgs := chk "activation" ((specActivation act ofm32).elim (-1) Int.ofNat) d.activation ++
    chk "activation.min" emin d.actMin ++ chk "activation.max" emax d.actMax
  let gs : Bool := usesGlobalScale op
  let precMsgs := chkB "ofm.globalScale" gs (d.ofmPrecision / 256 % 2 = 1) ++
    chk "ofm.rounding" op.rounding (d.ofmPrecision / 16384 % 4 : Nat) ++
    chk "ifm.opToScale" op.oracle.opToScale (d.ifmPrecision / 256 % 4 : Nat)
  (if kindOk then [] else ["kind"]) ++ chk "subOp" subExp d.subOp ++
  ifmMsgs ++ ifm2Msgs ++ cmpFM "ofm" op.ofm d.ofm true ++ kernelMsgs ++ padMsgs ++
  chk "upscale" op.upscale d.upscale ++ wMsgs ++ bMsgs ++ actMsgs ++
  chk "block.height" op.blockConfig.height d.blkH ++ chk "block.width" op.blockConfig.width d.blkW ++
  chk "block.depth" op.blockConfig.depth d.blkD ++
  chk "shram.ibEnd" op.oracle.ibEnd d.ibEnd ++ chk "shram.abStart" op.oracle.abStart d.abStart ++
  chk "accFormat" op.oracle.accFormat d.accFormat ++
  chk "accFormat.required" (specAccFormat (requiredAccBits op)) d.accFormat ++
  (match srow with
   | some sr => let v := shramVerdict sr unusedTail op d; if v == "1" then [] else [s!"shram.layout:{v}"]
   | none => ["shram.row-missing"]) ++
  chk "blockdep" op.oracle.blockdep d.blockdep ++
  precMsgs ++
  (if gs then cmpScale "ofmScale" op.oracle.ofmScale d.ofmScale else []) ++
  (if isEw && (op.subOp = 0 || op.subOp = 1) then
     cmpScale "opaScale" op.oracle.opaScale d.opaScale ++ cmpScale "opbScale" op.oracle.opbScale d.opbScale else []) ++
  chk "kernelWait" (wantWait op.oracle.kernelWait) (optNat kw |> fun x => x) ++
  chk "dmaWait" (wantWait op.oracle.dmaWait) (optNat dw) ++
  (if arch.ncores = 0 then ["ncores"] else [])

def cmpDma (op : NpuOp.DmaOp) (d : Decode.DmaOp) (kw dw : Option Nat) : Msgs :=
  chk "src.region" op.src.region d.src.region ++ chk "src.address" op.src.address d.src.addr ++
  chk "length" op.src.length d.src.len ++
  chk "dst.region" op.dst.region d.dst.region ++ chk "dst.address" op.dst.address d.dst.addr ++
  chk "param" (op.channel * 16 + op.mode) d.param ++
  chk "kernelWait" (wantWait op.kernelWait) (optNat kw) ++ chk "dmaWait" (wantWait op.dmaWait) (optNat dw)

/-! ## fits: every field of the operation is representable in its register -/

def inRange (name : String) (lo hi v : Int) : Msgs :=
  if lo ≤ v ∧ v < hi then [] else [s!"{name}={v}"]

def fitsFM (nm : String) (fm : NpuOp.FM) (maxAddr : Int) : Msgs :=
  let (sy, sx, sc) := specStrides fm
  inRange (nm ++ ".region") 0 8 fm.region ++
  (fm.addresses.flatMap fun a => inRange (nm ++ ".base") 0 maxAddr a) ++
  inRange (nm ++ ".height0") 1 65537 fm.height0 ++ inRange (nm ++ ".height1") 1 65537 fm.height1 ++
  inRange (nm ++ ".width0") 1 65537 fm.width0 ++
  inRange (nm ++ ".strideY") 0 maxAddr sy ++ inRange (nm ++ ".strideX") 0 maxAddr sx ++ inRange (nm ++ ".strideC") 0 maxAddr sc ++
  inRange (nm ++ ".zeroPoint") (-32768) 32768 (if fm.hasQuant then fm.zeroPoint else 0)

def fitsShape (nm : String) (s : Shape3) : Msgs :=
  inRange (nm ++ ".height") 1 65537 s.height ++ inRange (nm ++ ".width") 1 65537 s.width ++ inRange (nm ++ ".depth") 1 65537 s.depth

def fitsRange (nm : String) (r : NpuOp.AddrRange) (maxAddr : Int) (shramOk : Bool) : Msgs :=
  (if shramOk && r.region = (REGION_SHRAM : Int) then [] else inRange (nm ++ ".region") 0 8 r.region) ++
  inRange (nm ++ ".address") 0 maxAddr r.address

def fitsBlock (op : NpuOp.BlockOp) (maxAddr : Int) : Msgs :=
  fitsFM "ifm" op.ifm maxAddr ++ inRange "ifm.depth" 1 65537 op.ifm.shape.depth ++
  fitsFM "ofm" op.ofm maxAddr ++ fitsShape "ofm" op.ofm.shape ++
  (match op.ifm2, op.ifm2Scalar with
   | some f2, none => fitsFM "ifm2" f2 maxAddr
   | some f2, some q => inRange "ifm2.zeroPoint" (-32768) 32768 (if f2.hasQuant then f2.zeroPoint else 0) ++
       (if f2.dtype.signed then inRange "ifm2.scalar" (-32768) 32768 q else inRange "ifm2.scalar" 0 65536 q)
   | none, _ => []) ++
  (match op.kernel with
   | some k => if op.kind == .elementwise then [] else
       inRange "kernel.width" 1 65537 (k.dilationX * (k.width - 1) + 1) ++ inRange "kernel.height" 1 65537 (k.dilationY * (k.height - 1) + 1) ++
       inRange "kernel.strideX" 1 4 k.strideX ++ inRange "kernel.strideY" 1 4 k.strideY ++
       inRange "kernel.dilationX" 1 3 k.dilationX ++ inRange "kernel.dilationY" 1 3 k.dilationY
   | none => []) ++
  (match op.padding with
   | some p => inRange "pad.top" 0 65536 p.top ++ inRange "pad.left" 0 65536 p.left ++ inRange "pad.bottom" 0 65536 p.bottom ++
               inRange "pad.right" 0 65536 p.right
   | none => []) ++
  (op.weights.flatMap fun r => fitsRange "weights" r maxAddr false ++ inRange "weights.length" 0 (2 ^ 32) r.length) ++
  (op.biases.flatMap fun r => fitsRange "scales" r maxAddr false ++ inRange "scales.length" 0 (2 ^ 32) r.length) ++
  inRange "block.height" 1 65537 op.blockConfig.height ++ inRange "block.width" 1 65537 op.blockConfig.width ++
  inRange "block.depth" 1 65537 op.blockConfig.depth ++
  inRange "blockdep" 0 4 op.oracle.blockdep ++
  (match op.oracle.ofmScale with | some (s, sh) => inRange "ofmScale" 0 (2 ^ 32) s ++ inRange "ofmShift" 0 64 sh | none => []) ++
  (match op.oracle.opaScale with | some (s, sh) => inRange "opaScale" 0 (2 ^ 32) s ++ inRange "opaShift" 0 64 sh | none => []) ++
  (match op.oracle.opbScale with | some (s, _) => inRange "opbScale" 0 (2 ^ 16) s | none => [])

def fitsDma (d : NpuOp.DmaOp) (maxAddr : Int) : Msgs :=
  fitsRange "src" d.src maxAddr true ++ fitsRange "dst" d.dst maxAddr true ++ inRange "length" 0 maxAddr d.src.length ++
  inRange "param" 0 65536 (d.channel * 16 + d.mode)

/-! ## operations outside the legal range: a scale no register can hold

`fitsBlock` names the fields of the *given* operation that no register can hold.  For most of them the generator has no
check: it masks the value into the field (`Props/C06.lean`: `truncation_witness`, `scale_mask_is_residue`).  An operation
list with such a field is outside the property's quantifier ("legal operation lists"); what can still be said about its
stream is that it encodes the operation **with the unrepresentable scale reduced modulo 2^32** - `legalise` - and nothing
else differs.  `truncScales` lists the scale fields concerned, the comparison of the legalised operation is the *residual*. -/

def legaliseScale : Option (Int × Int) → Option (Int × Int)
  | some (s, sh) => some (s % 4294967296, sh)
  | none => none

/-- the operation the stream can encode at best: scales reduced to the unsigned 32-bit field -/
def legalise (op : NpuOp.BlockOp) : NpuOp.BlockOp :=
  { op with oracle := { op.oracle with ofmScale := legaliseScale op.oracle.ofmScale, opaScale := legaliseScale op.oracle.opaScale } }

def scaleOutside (nm : String) (v : Option (Int × Int)) : Msgs :=
  match v with
  | some (s, _) => if 0 ≤ s ∧ s < 4294967296 then [] else [s!"{nm}={s}"]
  | none => []

/-- scale fields of the given operation outside [0, 2^32).  An elementwise MUL whose IFM is 32 bit wide is marked `:mul32`
    (the operation Vela builds for a multiplication by an integer constant that *is* a quantised multiplier - SOFTMAX, and the
    16-bit LEAKY_RELU with a negative alpha, where the constant and hence the scale derived from it are negative). -/
def truncScales (op : NpuOp.BlockOp) : Msgs :=
  let mark := if op.kind == .elementwise && op.subOp = 2 && op.ifm.dtype.bits = 32 then ":mul32" else ""
  ((if usesGlobalScale op then scaleOutside "ofmScale" op.oracle.ofmScale else []) ++
   (if op.kind == .elementwise && (op.subOp = 0 || op.subOp = 1) then scaleOutside "opaScale" op.oracle.opaScale else [])).map (· ++ mark)

/-! ## alignment rules, checked on the *decoded* registers -/

def aligned (name : String) (v a : Nat) : Msgs := if a ≠ 0 ∧ v % a = 0 then [] else [s!"{name}={v}%{a}"]

def alignFM (nm : String) (d : Decode.FM) : Msgs :=
  if d.nhcwb16 then
    (d.base.flatMap fun b => aligned (nm ++ ".base") b 16) ++ aligned (nm ++ ".strideY") d.strideY 16 ++
    aligned (nm ++ ".strideC") d.strideC 16
  else
    (d.base.flatMap fun b => aligned (nm ++ ".base") b d.elemBytes) ++ aligned (nm ++ ".strideY") d.strideY d.elemBytes ++
    aligned (nm ++ ".strideX") d.strideX d.elemBytes

def alignBlock (d : Decode.BlockOp) : Msgs × Msgs :=
  (alignFM "ifm" d.ifm ++ alignFM "ofm" d.ofm ++ (match d.ifm2 with | some f => alignFM "ifm2" f | none => []) ++
   (d.weights.flatMap fun r => aligned "weights.base" r.addr 16 ++ aligned "weights.length" r.len 16) ++
   (d.scales.flatMap fun r => aligned "scales.length" r.len 16),
   -- the scale base: hardware rule (16-byte), not checked by the generator; reported separately
   d.scales.flatMap fun r => aligned "scales.base" r.addr 16)

/-- DMA: Ethos-U55 needs 16-byte aligned source, destination and length; Ethos-U65 only for the
    on-chip side (address, and the length when the destination is on chip) -/
def alignDma (isU65 : Bool) (d : Decode.DmaOp) : Msgs :=
  if isU65 then
    (if d.src.region = REGION_SHRAM then aligned "src" d.src.addr 16 else []) ++
    (if d.dst.region = REGION_SHRAM then aligned "dst" d.dst.addr 16 ++ aligned "length" d.src.len 16 else [])
  else aligned "src" d.src.addr 16 ++ aligned "dst" d.dst.addr 16 ++ aligned "length" d.src.len 16

/-! ## the verdict for one stream -/

def opRegs : List Event → List RegFile
  | [] => []
  | .op _ _ r :: rest => r :: opRegs rest
  | .stop _ :: _ => []
  | _ :: rest => opRegs rest

def tag (i : Nat) (ms : Msgs) : Msgs := ms.map fun m => s!"op{i}.{m}"

def firstFew (l : Msgs) (n : Nat := 8) : String := "~".intercalate (l.take n)

structure Verdict where
  decode : String
  nops : Nat
  stopOk : Bool
  cmp : Msgs
  fits : Msgs
  align : Msgs
  scaleBase : Msgs

def judge (row : Gen.AccRow) (arch : Arch) (strict : Bool) (ops : List Op) (words : List Nat) : Verdict :=
  match decodeStream words, (splitCmds words >>= events) with
  | .error e, _ => ⟨e.replace " " "_", 0, false, [], [], [], []⟩
  | _, .error e => ⟨e.replace " " "_", 0, false, [], [], [], []⟩
  | .ok st, .ok evs =>
    let regs := opRegs evs
    let maxAddr : Int := row.maxAddressOffset
    let stopOk := st.stops = 1 && st.endsWithStop && st.trailing = 0
    let parOk := if row.isU65 then st.ncores = row.cores else true
    let srow := Gen.Shram.rows.find? (·.name == row.name)
    if st.ops.length ≠ ops.length || regs.length ≠ ops.length then
      ⟨"ok", st.ops.length, stopOk, [s!"op-count:exp={ops.length}:got={st.ops.length}"], [], [], []⟩
    else
      let rows := (ops.zip (st.ops.zip regs)).zipIdx
      let r := rows.foldl (fun (acc : Msgs × Msgs × Msgs × Msgs) (x : (Op × StreamOp × RegFile) × Nat) =>
        let ((op, so, rf), i) := x
        match op, so.op with
        | .block b, .block d =>
          let (al, sb) := alignBlock d
          (acc.1 ++ tag i (cmpBlock arch strict b d rf so.kernelWait so.dmaWait srow row.shramReservedUnusedBanks), acc.2.1 ++ tag i (fitsBlock b maxAddr),
           acc.2.2.1 ++ tag i al, acc.2.2.2 ++ tag i sb)
        | .dma b, .dma d =>
          (acc.1 ++ tag i (cmpDma b d so.kernelWait so.dmaWait), acc.2.1 ++ tag i (fitsDma b maxAddr),
           acc.2.2.1 ++ tag i (alignDma row.isU65 d), acc.2.2.2)
        | _, _ => (acc.1 ++ [s!"op{i}.kind"], acc.2.1, acc.2.2.1, acc.2.2.2)) ([], [], [], [])
      ⟨"ok", st.ops.length, stopOk, (if parOk then [] else [s!"parallelMode:exp={row.cores}:got={st.ncores}"]) ++ r.1,
       r.2.1, r.2.2.1, r.2.2.2⟩

def legaliseOp : Op → Op
  | .block b => .block (legalise b)
  | o => o

/-- out-of-range scale fields of the whole list, tagged with the operation index -/
def truncAll (ops : List Op) : Msgs :=
  (ops.zipIdx.map fun (o, i) => match o with | .block b => tag i (truncScales b) | .dma _ => []).flatten

def verdict (row : Gen.AccRow) (arch : Arch) (ops : List Op) (words : List Nat) (strict : Bool := true) : String :=
  let v := judge row arch strict ops words
  let tr := truncAll ops
  -- only when a scale is out of range: does the stream encode the legalised list exactly?
  let res : Msgs := if tr.isEmpty then v.cmp else (judge row arch strict (ops.map legaliseOp) words).cmp
  s!"decode={v.decode} ops={v.nops} stop={if v.stopOk then 1 else 0} | cmp={v.cmp.length} {firstFew v.cmp} | " ++
  s!"fits={v.fits.length} {firstFew v.fits} | align={v.align.length} {firstFew v.align} | scalebase={v.scaleBase.length} {firstFew v.scaleBase}" ++
  s!" | trunc={tr.length} {firstFew tr} | truncmul32={(tr.filter (·.endsWith ":mul32")).length} | residual={res.length} {firstFew res}"

end VelaVerif.OpCheck
