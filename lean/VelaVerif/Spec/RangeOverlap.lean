/-!
# "Two range sets share an address" (specification side, C04)

The quadratic definition `RangeSet.intersects` is supposed to decide; ranges are `(start, end)` pairs,
half-open.
-/
namespace VelaVerif.RangeOverlap

def overlapB (r s : Int × Int) : Bool := decide (max r.1 s.1 < min r.2 s.2)

/-- some range of `a` overlaps some range of `b` -/
def overlapsAny (a b : List (Int × Int)) : Bool := a.any fun r => b.any fun s => overlapB r s

end VelaVerif.RangeOverlap
