import VelaVerif.Spec.TfliteRef
import VelaVerif.Model.Rewrites
/-!
# What the operators before and after a graph-optimiser rewrite compute (specification side)

Per-element meanings, written with the reference kernels of `Spec/TfliteRef.lean` (`mbqm`, `clamp`, `mulElem`,
`convAcc`, `dwAcc`, `poolSumCount`) so that `Props/C01Rewrites.lean` can state "the rewritten operator(s) compute
the tensor the original operator computes", and so that `Handlers/Rewrites.lean` can evaluate both sides on concrete
inputs when the real rewrite and its model disagree (failing-input search).
-/
namespace VelaVerif.RewriteSem
open VelaVerif.Requant VelaVerif.TfliteRef VelaVerif.Rewrites

/-! ## Activation ranges -/

/-- clamp with optional bounds (lower bound first, as `clamp` does) -/
def clampO (r : ActRange Int) (x : Int) : Int :=
  let y := match r.lo with | some l => (if x < l then l else x) | none => x
  match r.hi with | some h => (if y > h then h else y) | none => y

def clampOpt (r : Option (ActRange Int)) (x : Int) : Int :=
  match r with | none => x | some r => clampO r x

/-- the operators of a pass applied one after the other -/
def clampSeq (ops : List (ActRange Int)) (x : Int) : Int := ops.foldl (fun v r => clampO r v) x

def ActRange.nonempty (r : ActRange Int) : Prop :=
  match r.lo, r.hi with
  | some l, some h => l ≤ h
  | _, _ => True

instance (r : ActRange Int) : Decidable (ActRange.nonempty r) := by
  unfold ActRange.nonempty; cases r.lo <;> cases r.hi <;> infer_instance

/-! ## LeakyReLU -/

/-- reference LEAKY_RELU on one element `v` (`Spec/TfliteRef.lean`, `evalOp`): identity multiplier `(idm, ids)`, alpha
    multiplier `(am, as)` -/
def lreluRef (v zpIn zpOut idm ids am as lo hi : Int) : Int :=
  let x := v - zpIn
  clamp (zpOut + (if x ≥ 0 then mbqm x idm ids else mbqm x am as)) lo hi

/-- reference MUL of the element with a constant scalar of quantised value `q`, zero point `zpC` -/
def mulConst (v zpIn q zpC m s zpOut lo hi : Int) : Int := mulElem v q (-zpIn) (-zpC) m s zpOut lo hi

/-- `Maximum(Mul(ifm, alpha), ifm)`: what `convert_lrelu_to_mul_max` builds when IFM and OFM scaling are equal
    (alpha tensor: value 1, zero point 0, scale alpha; the Mul's multiplier is the reference's alpha multiplier) -/
def lreluMulMaxDirect (v zp am as lo hi : Int) : Int :=
  max (mulConst v zp 1 0 am as zp lo hi) v

/-- `Maximum(Mul(ifm, alpha), Mul(ifm, 1))` (scalings differ) -/
def lreluMulMaxId (v zpIn zpOut idm ids am as lo hi : Int) : Int :=
  max (mulConst v zpIn 1 0 am as zpOut lo hi) (mulConst v zpIn 1 0 idm ids zpOut lo hi)

/-- `Maximum(x, Mul(x, c))` with IFM, OFM and Mul-OFM quantisation equal (zero point `zp`) -/
def mulMaxOrig (v zp q zpC m s lo hi : Int) : Int := max v (mulConst v zp q zpC m s zp lo hi)

/-- the table `convert_lrelu_to_lut` builds for a LeakyRelu that carries `alpha_scaling = (a, m, s)`, IFM and OFM
    quantisation equal: entries below the zero point are scaled with alpha, the others with the identity multiplier of
    equal scales `(2^30, 1)` -/
def lreluLutEntry (v zp a m s lo hi : Int) : Int :=
  if v < zp then clamp (zp + mbqm (a * (v - zp)) m s) lo hi
  else clamp (zp + mbqm (v - zp) 1073741824 1) lo hi

/-- ABS with equal quantisation: `|v - zp| + zp`, clamped -/
def absEntry (v zp lo hi : Int) : Int := clamp (zp + (if v - zp ≥ 0 then v - zp else -(v - zp))) lo hi

/-- RELU with equal quantisation -/
def reluEntry (v zp lo hi : Int) : Int := clamp (max v zp) lo hi

/-- what the operator `convert_mul_max_to_abs_or_lrelu` (followed by `convert_lrelu` for alpha = 0) leaves behind computes -/
def mulMaxPlanEval (p : MulMaxPlan) (v zp q zpC m s lo hi : Int) : Int :=
  match p with
  | .keep => mulMaxOrig v zp q zpC m s lo hi
  | .abs => absEntry v zp lo hi
  | .lrelu a z => if z then reluEntry v zp lo hi else lreluLutEntry v zp a m s lo hi

/-! ## PAD in front of a window operator -/

/-- the tensor a PAD produces: `pv` outside the original `H × W` -/
def padded (H W : Nat) (ifm : Nat → Nat → Nat → Int) (t l : Nat) (pv : Int) : Nat → Nat → Nat → Int :=
  fun y x c => if t ≤ y ∧ y - t < H ∧ l ≤ x ∧ x - l < W then ifm (y - t) (x - l) c else pv

/-- one channel of it -/
def padded2 (H W : Nat) (ifm : Nat → Nat → Int) (t l : Nat) (pv : Int) : Nat → Nat → Int :=
  fun y x => if t ≤ y ∧ y - t < H ∧ l ≤ x ∧ x - l < W then ifm (y - t) (x - l) else pv

/-! ## FULLY_CONNECTED -/

/-- accumulator of the reference FULLY_CONNECTED for batch row `b`, output `o` (`TfliteRef.fullyConnected`) -/
def fcAcc (I : Nat) (x w : Nat → Int) (inOff wOff : Int) (b o : Nat) : Int :=
  sumRange I fun i => (x (b * I + i) + inOff) * (w (o * I + i) + wOff)

/-! ## Concatenation / split along one axis -/

/-- which input owns coordinate `a` of the concatenation axis, and at which coordinate of its own (the search loop of
    `TfliteRef.concat`) -/
def locate : List Nat → Nat → Option (Nat × Nat)
  | [], _ => none
  | d :: ds, a => if a < d then some (0, a) else (locate ds (a - d)).map fun (k, j) => (k + 1, j)

/-- the copies `rewrite_concat_ops` creates, executed in order: input `k` (size `d`, write offset `o`) writes its coordinate `j`
    to `o + j`; `acc` is what position `a` held before -/
def writtenFrom (k : Nat) : List (Nat × Nat) → Nat → Option (Nat × Nat) → Option (Nat × Nat)
  | [], _, acc => acc
  | (d, o) :: rest, a, acc => writtenFrom (k + 1) rest a (if o ≤ a ∧ a < o + d then some (k, a - o) else acc)

/-- number of copies that write position `a` -/
def writers : List (Nat × Nat) → Nat → Nat
  | [], _ => 0
  | (d, o) :: rest, a => (if o ≤ a ∧ a < o + d then 1 else 0) + writers rest a

/-- write offsets as a recursion (what `concatOffsets` computes with a fold) -/
def offsFrom (base : Nat) : List Nat → List Nat
  | [] => []
  | d :: ds => base :: offsFrom (base + d) ds

def sumL (l : List Nat) : Nat := l.foldl (· + ·) 0

/-! ## Width folding of a strided convolution (`fixup_strided_conv`) -/

/-- the IFM with `r` columns folded into the depth: column `x'`, channel `c'` is column `r * x' + c' / C`, channel `c' % C` (the
    row-major re-interpretation of `[H, W, C]` as `[H, W / r, r * C]`) -/
def foldedIfm (r C : Nat) (ifm : Nat → Nat → Nat → Int) : Nat → Nat → Nat → Int :=
  fun y x' c' => ifm y (r * x' + c' / C) (c' % C)

/-- the filter with `L` zero columns in front (and zeros behind) -/
def paddedFilter (L kw : Nat) (wgt : Nat → Nat → Nat → Int) : Nat → Nat → Nat → Int :=
  fun ky kxp c => if L ≤ kxp ∧ kxp - L < kw then wgt ky (kxp - L) c else 0

/-- the padded filter re-interpreted the same way -/
def foldedFilter (r C L kw : Nat) (wgt : Nat → Nat → Nat → Int) : Nat → Nat → Nat → Int :=
  fun ky kx' c' => paddedFilter L kw wgt ky (r * kx' + c' / C) (c' % C)


/-! ## Dilation in software (`fixup_dilation_gt2`) -/

/-- the kernel with `sc - 1` neutral taps (zero-point-corrected value 0) inserted between the original ones -/
def sparseFilter (sch scw : Nat) (wgt : Nat → Nat → Nat → Int) : Nat → Nat → Nat → Int :=
  fun ky kx c => if ky % sch = 0 ∧ kx % scw = 0 then wgt (ky / sch) (kx / scw) c else 0


end VelaVerif.RewriteSem
