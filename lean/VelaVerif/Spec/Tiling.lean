/-!
# Stripes of a local operator (specification side, abstract rows)

An operator maps input rows to output rows. It is *local* when output row `y` depends only on the input rows
of its receptive field `[lo y, hi y)`. A stripe computes a range of output rows from the memory it sees at the
time it runs (a rolling buffer, a full tensor, …). `Props/C01.lean` proves that covering stripes reproduce
the single execution.
-/
namespace VelaVerif.Tiling

/-- `op` is local with receptive field `[lo y, hi y)`: output row `y` depends only on those input rows -/
def IsLocal {α β : Type} (op : (Nat → α) → Nat → β) (lo hi : Nat → Nat) : Prop :=
  ∀ (y : Nat) (m m' : Nat → α), (∀ r, lo y ≤ r → r < hi y → m r = m' r) → op m y = op m' y

/-- a stripe: the output rows `[first, last)` computed from the memory `mem` the stripe sees -/
structure Stripe (α : Type) where
  first : Nat
  last : Nat
  mem : Nat → α

def Stripe.covers {α : Type} (s : Stripe α) (y : Nat) : Prop := s.first ≤ y ∧ y < s.last

/-- executing one stripe overwrites its output rows -/
def stepStripe {α β : Type} (op : (Nat → α) → Nat → β) (s : Stripe α) (out : Nat → β) : Nat → β :=
  fun y => if s.first ≤ y ∧ y < s.last then op s.mem y else out y

def execStripes {α β : Type} (op : (Nat → α) → Nat → β) : List (Stripe α) → (Nat → β) → Nat → β
  | [], out => out
  | s :: rest, out => execStripes op rest (stepStripe op s out)

/-- the memory of a stripe agrees with the full input on the receptive field of every row it computes -/
def Stripe.sees {α : Type} (s : Stripe α) (inp : Nat → α) (lo hi : Nat → Nat) : Prop :=
  ∀ y, s.covers y → ∀ r, lo y ≤ r → r < hi y → s.mem r = inp r

end VelaVerif.Tiling
