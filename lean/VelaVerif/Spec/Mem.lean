import VelaVerif.Spec.Footprint
/-!
# C02 / C03 specification checkers over a decoded stream

* `checkBounds` (C02): every byte of every access lies inside the published extent of the region it
  names; nothing is written to the constants region.
* `execTagged` (C03): sequential execution over a tagged memory. Every written byte carries
  `(tensor id, delta)`; every read must find exactly the tag it expects. Uninitialised, stale
  (rolling buffer wrapped) and foreign-tensor bytes are all failures.
-/
namespace VelaVerif.Mem
open VelaVerif.Decode VelaVerif.Footprint VelaVerif.Isa

/-! ## Interval map (sorted, disjoint, non-empty segments) -/

structure Seg where
  lo : Nat
  hi : Nat          -- exclusive
  tid : Nat
  delta : Int
deriving Repr, DecidableEq, Inhabited

abbrev IMap := List Seg

/-- per-byte view: the tag stored at byte `b` -/
def IMap.get (m : IMap) (b : Nat) : Option (Nat × Int) :=
  match m with
  | [] => none
  | s :: rest => if s.lo ≤ b ∧ b < s.hi then some (s.tid, s.delta) else IMap.get rest b

/-- remove `[lo, hi)` from the map -/
def IMap.cut (m : IMap) (lo hi : Nat) : IMap :=
  match m with
  | [] => []
  | s :: rest =>
    if s.hi ≤ lo then s :: IMap.cut rest lo hi
    else if hi ≤ s.lo then s :: rest      -- sorted: nothing further overlaps
    else
      let left := if s.lo < lo then [{ s with hi := lo }] else []
      let right := if hi < s.hi then [{ s with lo := hi }] else []
      left ++ (if hi < s.hi then right ++ rest else IMap.cut rest lo hi)

def IMap.insertSorted (m : IMap) (n : Seg) : IMap :=
  match m with
  | [] => [n]
  | s :: rest => if n.hi ≤ s.lo then n :: s :: rest else s :: IMap.insertSorted rest n

def IMap.write (m : IMap) (lo hi tid : Nat) (delta : Int) : IMap :=
  if hi ≤ lo then m else IMap.insertSorted (IMap.cut m lo hi) ⟨lo, hi, tid, delta⟩

/-- first byte of `[lo, hi)` whose tag differs from `(tid, delta)`, with what was found there -/
def IMap.firstMismatch (m : IMap) (lo hi tid : Nat) (delta : Int) : Option (Nat × Option (Nat × Int)) :=
  match m with
  | [] => if hi ≤ lo then none else some (lo, none)
  | s :: rest =>
    if hi ≤ lo then none
    else if s.hi ≤ lo then IMap.firstMismatch rest lo hi tid delta
    else if lo < s.lo then some (lo, none)                       -- gap before this segment
    else if s.tid ≠ tid ∨ s.delta ≠ delta then some (lo, some (s.tid, s.delta))
    else if hi ≤ s.hi then none
    else IMap.firstMismatch rest s.hi hi tid delta

/-! ## Side information supplied with a stream (tensor identities and box origins) -/

structure FmInfo where
  tid : Nat
  y0 : Nat
  x0 : Nat
  c0 : Nat
  shifts : List Int := [0, 0, 0, 0]   -- per-tile base offsets the operation applies on top of the box origin (tile_base_offsets), tile order of `fmAddr`
deriving Repr, Inhabited

structure OpInfo where
  ifm : FmInfo
  ifm2 : FmInfo
  ofm : FmInfo
  wsrc : List Int        -- expected constants-region address of each weight range (−1: lives in constants itself)
  ssrc : List Int
  lutsrc : Int           -- expected constants-region address of the LUT, −1 if none
  lutLen : Nat
deriving Repr, Inhabited

structure DmaInfo where
  srcTid : Nat
  srcDelta : Int
  dstTid : Nat
  dstDelta : Int
  valid : Nat := 0       -- bytes of real tensor data in the transfer (0 = all): a feature-map DMA is rounded up to 16 bytes
deriving Repr, Inhabited

/-- number of meaningful bytes a DMA moves; the rest (up to the 16-byte rounded length) is padding
    inside both tensors' own allocations -/
def DmaInfo.validLen (i : DmaInfo) (len : Nat) : Nat := if i.valid = 0 ∨ i.valid > len then len else i.valid

/-- tag of padding bytes a rounded-up DMA drags along: never equal to what a reader expects -/
def junkTid : Nat := 4294967295

inductive Info where
  | block (i : OpInfo)
  | dma (d : DmaInfo)
deriving Repr, Inhabited

structure Env where
  extents : List (Nat × Nat)      -- region ↦ published size in bytes
  constRegion : Nat := 0
  shramBytes : Nat
  lutBase : Nat                   -- SHRAM byte address of the LUT window
deriving Repr, Inhabited

def Env.extent (e : Env) (region : Nat) : Option Nat :=
  if region = REGION_SHRAM then some e.shramBytes else (e.extents.find? (·.1 = region)).map (·.2)

/-! ## C02 -/

structure Access where
  region : Nat
  write : Bool
  what : String
  pieces : List Piece
deriving Repr, Inhabited

def rangePiece (r : AddrRange) : List Piece := if r.len = 0 then [] else [⟨r.addr, r.len, 0⟩]

/-- LUT activation: table index `i` (ACTIVATION register 16 + i) -/
def lutIndex (activation : Nat) : Option Nat :=
  if activation % 32 ≥ 16 then some (activation % 8) else none

/-- Precision (bytes) of the value the activation stage — and with it the table lookup — works on: the OFM precision,
    unless the ACTIVATION register forces a range (`clip_range`, bits 12..15 of the register: 2 = uint8, 3 = int8,
    5 = int16; `ethos_u55_regs.clip_range`). Vela forces int8 when the OFM is int32 (the softmax exponent table). -/
def actBytes (b : BlockOp) : Nat :=
  let clip := b.activation / 4096 % 16
  if clip = 2 ∨ clip = 3 then 1 else if clip = 5 then 2 else b.ofm.elemBytes

/-- Bytes of the table a TABLE_LOOKUP activation reads, decided by the *programmed* precisions (hand-written from the
    register description and from the table formats `lut.create_lut_tensor` builds / `lut.get_lut_index` addresses):
    an 8-bit activation value indexes 256 entries of OFM width — 256 bytes for an 8-bit result, 1 KiB for the int32
    result of the softmax exponent table — and a 16-bit one interpolates in 512 entries of 32 bits (base and slope):
    2 KiB, the whole table window. The IFM precision plays no role: a requantising operation (int8 -> int16) fused with
    a 16-bit table reads the 2 KiB table. Anything else counts as the whole window. -/
def lutTableBytes (b : BlockOp) : Nat :=
  if actBytes b = 1 then 256 * b.ofm.elemBytes else 2048

/-- SHRAM address of the table selected by activation value 16 + `li`: the index counts 256-byte units of the table window
    whatever the table size (`lut.optimize_high_level_cmd_stream` programs (address − window start) / 256 when it places a
    table: a 1 KiB table in the upper half of the window is index 4, a 2 KiB table only fits index 0).
    `lut.get_lut_index`, used when an equal table is found in SHRAM again, divides by the table size instead; the two agree
    for 256-byte tables and for offset 0. -/
def lutAddr (e : Env) (_b : BlockOp) (li : Nat) : Nat := e.lutBase + li * 256

def blockAccesses (b : BlockOp) (i : OpInfo) (e : Env) : List Access :=
  [ ⟨b.ifm.region, false, "IFM", fmPieces b.ifm i.ifm.y0 i.ifm.x0 i.ifm.c0⟩ ] ++
  (match b.ifm2 with
   | some f => [⟨f.region, false, "IFM2", fmPieces f i.ifm2.y0 i.ifm2.x0 i.ifm2.c0⟩]
   | none => []) ++
  b.weights.map (fun w => ⟨w.region, false, "WEIGHTS", rangePiece w⟩) ++
  b.scales.map (fun w => ⟨w.region, false, "SCALES", rangePiece w⟩) ++
  (match lutIndex b.activation with
   | some idx => [⟨REGION_SHRAM, false, "LUT", [⟨lutAddr e b idx, lutTableBytes b, 0⟩]⟩]
   | none => []) ++
  [ ⟨b.ofm.region, true, "OFM", fmPieces b.ofm i.ofm.y0 i.ofm.x0 i.ofm.c0⟩ ]

def dmaAccesses (d : DmaOp) : List Access :=
  [ ⟨d.src.region, false, "DMA-SRC", rangePiece d.src⟩, ⟨d.dst.region, true, "DMA-DST", rangePiece d.dst⟩ ]

def accessesOf (op : DecOp) (info : Info) (e : Env) : List Access :=
  match op, info with
  | .block b, .block i => blockAccesses b i e
  | .block b, _ => blockAccesses b default e
  | .dma d, _ => dmaAccesses d

def checkAccessBounds (e : Env) (idx : Nat) (a : Access) : List String :=
  match e.extent a.region with
  | none => [s!"op {idx} {a.what}: region {a.region} is not published by the output file"]
  | some ext =>
    (if a.write ∧ a.region = e.constRegion then [s!"op {idx} {a.what}: write to the constants region"] else []) ++
    (match hull a.pieces with
     | none => []
     | some (_, hi) => if hi > ext then [s!"op {idx} {a.what}: touches byte {hi - 1} of region {a.region}, extent {ext}"] else [])

def checkBounds (e : Env) (ops : List DecOp) (infos : List Info) : List String :=
  (ops.zip infos).zipIdx.flatMap fun ((op, info), idx) =>
    (accessesOf op info e).flatMap (checkAccessBounds e idx)

/-! ## C03 -/

abbrev Memory := List (Nat × IMap)     -- region ↦ interval map

def Memory.getMap (m : Memory) (region : Nat) : IMap := ((m.find? (·.1 = region)).map (·.2)).getD []

def Memory.setMap (m : Memory) (region : Nat) (im : IMap) : Memory :=
  if m.any (·.1 = region) then m.map (fun p => if p.1 = region then (region, im) else p) else (region, im) :: m

def showTag : Option (Nat × Int) → String
  | none => "undefined"
  | some (t, d) => s!"tensor {t} delta {d}"

def readPieces (m : Memory) (region tid : Nat) (ps : List Piece) (shift : Int := 0) : Option String :=
  let im := m.getMap region
  ps.findSome? fun p =>
    match IMap.firstMismatch im p.addr (p.addr + p.len) tid (p.delta + shift) with
    | none => none
    | some (b, found) => some s!"byte {b} of region {region}: expected tensor {tid} delta {p.delta + shift}, found {showTag found}"

def writePieces (m : Memory) (region tid : Nat) (ps : List Piece) (shift : Int := 0) : Memory :=
  m.setMap region (ps.foldl (fun im p => IMap.write im p.addr (p.addr + p.len) tid (p.delta + shift)) (m.getMap region))

/-- tensor id 0 = constant data; its "delta" is (constants-region address) − (address of the copy) -/
def constTid : Nat := 0

/-- one checked read of an operation: the bytes of `pieces` in `region` must all carry
    `(tid, piece.delta + shift)` -/
structure Read where
  what : String
  region : Nat
  tid : Nat
  pieces : List Piece
  shift : Int
deriving Repr, Inhabited

/-- feature-map read (data living in the constants region is never written by the stream and is not tracked) -/
def fmRead (e : Env) (what : String) (fm : FM) (fi : FmInfo) : List Read :=
  if fm.region = e.constRegion then [] else [⟨what, fm.region, fi.tid, fmPiecesS fm fi.y0 fi.x0 fi.c0 fi.shifts, 0⟩]

/-- weight / scale ranges: each must hold the copy of the constants-region bytes at `src` -/
def constReads (e : Env) (what : String) (rs : List AddrRange) (srcs : List Int) : List Read :=
  (rs.zip srcs).flatMap fun (r, src) =>
    if r.region = e.constRegion then [] else [⟨what, r.region, constTid, [⟨r.addr, r.len, src - r.addr⟩], 0⟩]

/-- the table read of a TABLE_LOOKUP activation: slot and size follow from the decoded registers alone (activation
    index, IFM / OFM precision); only the identity of the expected table (`lutsrc`) is side information. A table of another
    size loaded over the slot — or a smaller one than the operation reads — leaves bytes with a different tag. -/
def lutRead (e : Env) (b : BlockOp) (i : OpInfo) : List Read :=
  match lutIndex b.activation with
  | some li =>
    let a := lutAddr e b li
    [⟨"LUT", REGION_SHRAM, constTid, [⟨a, lutTableBytes b, i.lutsrc - a⟩], 0⟩]
  | none => []

/-- everything a block operation reads, in reporting order -/
def blockReads (e : Env) (b : BlockOp) (i : OpInfo) : List Read :=
  fmRead e "IFM" b.ifm i.ifm ++ (match b.ifm2 with | some f => fmRead e "IFM2" f i.ifm2 | none => []) ++
    constReads e "WEIGHTS" b.weights i.wsrc ++ constReads e "SCALES" b.scales i.ssrc ++ lutRead e b i

def dmaReads (e : Env) (d : DmaOp) (i : DmaInfo) : List Read :=
  if d.src.region = e.constRegion then [] else [⟨"DMA-SRC", d.src.region, i.srcTid, [⟨d.src.addr, i.validLen d.src.len, i.srcDelta⟩], 0⟩]

def readErr (m : Memory) (idx : Nat) (r : Read) : List String :=
  match readPieces m r.region r.tid r.pieces r.shift with
  | some msg => [s!"op {idx} {r.what}: {msg}"]
  | none => []

/-! ### SHRAM working buffers of a kernel operation

SHRAM is a row of 1 KiB banks. A block operation owns the IFM-buffer partition `[0, IB_END)` and, unless it is
elementwise, the accumulator partition `[AB_START, top)`; `top` is the start of the lookup-table window when
the operation uses a table, otherwise the end of the SHRAM it may use. Configurations with more than 16 banks
keep the last two banks (the table window) out of that; the 16-bank configurations do not, so there an
operation without a table destroys the table window. Which bytes of a partition the hardware really touches
is not architecturally visible, so the whole partition counts as overwritten (hand-written; this is also
what `lut.optimize_high_level_cmd_stream` assumes when it re-issues the table DMA). -/

def shramBankBytes : Nat := 1024

/-- SHRAM bytes a kernel operation without a lookup table may use -/
def Env.usableShram (e : Env) : Nat := if e.shramBytes > 16 * shramBankBytes then e.shramBytes - 2 * shramBankBytes else e.shramBytes

def isElementwise (b : BlockOp) : Bool := b.kind == .elementwise

def shramTop (e : Env) (b : BlockOp) : Nat :=
  if (lutIndex b.activation).isSome then min e.lutBase e.usableShram else e.usableShram

def clobberPieces (ibEnd abStart top : Nat) (mac : Bool) : List Piece :=
  (if 0 < min ibEnd top then [⟨0, min ibEnd top, 0⟩] else []) ++
  (if mac = true ∧ abStart < top then [⟨abStart, top - abStart, 0⟩] else [])

def shramClobber (e : Env) (b : BlockOp) : List Piece :=
  clobberPieces (b.ibEnd * shramBankBytes) (b.abStart * shramBankBytes) (shramTop e b) (!isElementwise b)

def stepBlock (e : Env) (m : Memory) (idx : Nat) (b : BlockOp) (i : OpInfo) : List String × Memory :=
  ((blockReads e b i).flatMap (readErr m idx),
   writePieces (writePieces m REGION_SHRAM junkTid (shramClobber e b) 0)
     b.ofm.region i.ofm.tid (fmPiecesS b.ofm i.ofm.y0 i.ofm.x0 i.ofm.c0 i.ofm.shifts) 0)

def stepDma (e : Env) (m : Memory) (idx : Nat) (d : DmaOp) (i : DmaInfo) : List String × Memory :=
  ((dmaReads e d i).flatMap (readErr m idx),
   writePieces (writePieces m d.dst.region junkTid [⟨d.dst.addr, d.dst.len, 0⟩])
     d.dst.region i.dstTid [⟨d.dst.addr, i.validLen d.dst.len, i.dstDelta⟩])

/-- one step of the tagged-memory machine: the errors of its reads (against the memory *before* the
    step) and the memory after its write -/
def step (e : Env) (m : Memory) (idx : Nat) : DecOp → Info → List String × Memory
  | .block b, .block i => stepBlock e m idx b i
  | .dma d, .dma i => stepDma e m idx d i
  | _, _ => ([s!"op {idx}: side information does not match the decoded operation kind"], m)

def execGo (e : Env) (l : List ((DecOp × Info) × Nat)) (m : Memory) (acc : List String) : List String :=
  match l with
  | [] => acc
  | ((op, info), idx) :: rest =>
    let r := step e m idx op info
    execGo e rest r.2 (acc ++ r.1)

def execTagged (e : Env) (init : Memory) (ops : List DecOp) (infos : List Info) : List String :=
  execGo e (ops.zip infos).zipIdx init []

/-! ## Constant operands addressed in place

Weights, scales and constant feature maps that an operation reads *directly* from the constants
region are never written by the stream, so the tagged memory says nothing about them. What can
still go wrong is the address: the operation must name the bytes of *its own* constant. -/

def constRangeProblems (e : Env) (idx : Nat) (what : String) (rs : List AddrRange) (srcs : List Int) : List String :=
  (if rs.length ≠ srcs.length then [s!"op {idx} {what}: {rs.length} ranges decoded, {srcs.length} expected"] else []) ++
  (rs.zip srcs).flatMap fun (r, src) =>
    if r.region = e.constRegion ∧ src ≥ 0 ∧ (r.addr : Int) ≠ src then
      [s!"op {idx} {what}: reads constants at {r.addr} but its own data is at {src}"]
    else []

def constSourceProblems (e : Env) (ops : List DecOp) (infos : List Info) : List String :=
  (ops.zip infos).zipIdx.flatMap fun ((op, info), idx) =>
    match op, info with
    | .block b, .block i =>
      constRangeProblems e idx "WEIGHTS" b.weights i.wsrc ++ constRangeProblems e idx "SCALES" b.scales i.ssrc
    | _, _ => []

/-- the size of the table Vela believes it loaded (`lutLen`, side information) against the size the operation reads -/
def lutSideProblems (ops : List DecOp) (infos : List Info) : List String :=
  (ops.zip infos).zipIdx.flatMap fun ((op, info), idx) =>
    match op, info with
    | .block b, .block i =>
      (match lutIndex b.activation with
       | some li =>
         if i.lutLen ≠ lutTableBytes b then
           [s!"op {idx} LUT: the table loaded for it has {i.lutLen} bytes, the operation reads {lutTableBytes b} bytes at slot {li} (activation on {actBytes b}-byte values, OFM {b.ofm.elemBytes}-byte elements)"]
         else []
       | none => [])
    | _, _ => []

end VelaVerif.Mem
