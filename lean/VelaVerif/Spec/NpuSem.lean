import VelaVerif.Spec.Footprint
import VelaVerif.Spec.TfliteRef
/-!
# Executable semantics of decoded Ethos-U command streams (specification side)

`execStream` runs the operations of a decoded stream (`Spec/Decode.lean` records) in program order over
byte memories for the regions (0 constants, 1 scratch, 2 fast scratch, SHRAM for the LUT): every block
operation reads its IFM/IFM2 elements through the tile/stride addressing of `Footprint.fmAddr`, applies
the NPU arithmetic and writes its OFM elements; a DMA copies bytes.

The arithmetic is the Ethos-U behaviour as Vela programs it (register meanings from
`register_command_stream_generator.py`, `scaling.py`, `weight_compressor.py` and the public register
documentation); it is *not* derived from what Vela happens to emit. What is trusted about it is listed
in `design.d/C01.md`. Anything whose arithmetic is not modelled answers `unsupported:<what>` and the
network is counted as not simulated.

Weights are an input of this executor (OHWI integers per operation, zero point already removed): the
MLW stream is not decoded here (C07/C08). Bias/scale records, LUT tables and constant IFM2 tensors are
read from the region bytes at the addresses in the stream.
-/
namespace VelaVerif.NpuSem
open VelaVerif.Decode VelaVerif.Footprint VelaVerif.Requant VelaVerif.TfliteRef VelaVerif.Isa

/-! ## Memory -/

structure Mem where
  regions : Array ByteArray        -- slot 0 constants, 1 scratch, 2 fast scratch, 3 SHRAM
deriving Inhabited

def regionSlot (r : Nat) : Option Nat :=
  if r < 3 then some r else if r = REGION_SHRAM then some 3 else none

def Mem.readByte (m : Mem) (region addr : Nat) : Except String Nat :=
  match regionSlot region with
  | none => throw s!"read from unknown region {region}"
  | some s =>
    let b := m.regions.getD s ByteArray.empty
    if addr < b.size then pure (b.get! addr).toNat else throw s!"read outside region {region} at {addr} (size {b.size})"

/-- little-endian unsigned value of `n` bytes (structural fold: `Props/C01.scatter_readback`) -/
def Mem.readUnsigned (m : Mem) (region addr n : Nat) : Except String Nat :=
  (List.range n).foldlM (fun v i => do return v + (← m.readByte region (addr + i)) * 256 ^ i) 0

def toSigned (v bits : Nat) : Int := if v ≥ 2 ^ (bits - 1) then (v : Int) - (2 : Int) ^ bits else v

def Mem.readElem (m : Mem) (region addr nbytes : Nat) (signed : Bool) : Except String Int := do
  let v ← m.readUnsigned region addr nbytes
  return if signed then toSigned v (8 * nbytes) else v

def putElem (b : ByteArray) (addr nbytes : Nat) (v : Int) : ByteArray :=
  let u : Nat := (v % (2 : Int) ^ (8 * nbytes)).toNat
  (List.range nbytes).foldl (fun (acc : ByteArray) i => acc.set! (addr + i) (UInt8.ofNat (u / 256 ^ i % 256))) b

/-- take a writable region out of the memory, transform it, put it back (keeps the byte array unshared) -/
def Mem.modifyRegion (m : Mem) (region : Nat) (f : ByteArray → Except String ByteArray) : Except String Mem :=
  match regionSlot region with
  | none => throw s!"write to unknown region {region}"
  | some s =>
    if s = 0 then throw "write to the constants region" else do
    let b := m.regions.getD s ByteArray.empty
    let regions := m.regions.setIfInBounds s ByteArray.empty
    let b' ← f b
    pure { regions := regions.setIfInBounds s b' }

/-- the coordinates of an `h × w × d` box in NHWC order -/
def coords3 (h w d : Nat) : List (Nat × Nat × Nat) :=
  (List.range h).flatMap fun y => (List.range w).flatMap fun x => (List.range d).map fun c => (y, x, c)

/-- the elements of the box a feature-map register set describes, in NHWC order: element `(y, x, c)` is read at
    `fmAddr fm y x c` (structural, so that `Props/C01.lean` can reason about it: `gatherList_get`) -/
def gatherList (m : Mem) (fm : FM) : Except String (List Int) :=
  (coords3 fm.height fm.width fm.depth).mapM fun (y, x, c) => m.readElem fm.region (fmAddr fm y x c) fm.elemBytes fm.signed

/-- what the memory holds for element `(y, x, c)` of a feature map (0 where the read fails) -/
def memFm (m : Mem) (fm : FM) (y x c : Nat) : Int :=
  match m.readElem fm.region (fmAddr fm y x c) fm.elemBytes fm.signed with
  | .ok v => v
  | .error _ => 0


/-- logical NHWC array of the box a feature-map register set describes -/
def gather (m : Mem) (fm : FM) : Except String (Array Int) := do
  return (← gatherList m fm).toArray

/-- what a stored element reads back as: the value modulo `2^(8n)`, reinterpreted as signed if the feature map is -/
def wrapElem (n : Nat) (signed : Bool) (v : Int) : Int :=
  let u := (v % (2 : Int) ^ (8 * n)).toNat
  if signed then toSigned u (8 * n) else u


/-- one write of `scatter`: element `v` at address `addr`, inside the region -/
def writeElem (region nbytes : Nat) (b : ByteArray) (addr : Nat) (v : Int) : Except String ByteArray :=
  if addr + nbytes > b.size then throw s!"write outside region {region} at {addr} (size {b.size})"
  else pure (putElem b addr nbytes v)

/-- the writes of `scatter` on the bytes of the region, in NHWC order: element `(y, x, c)` of `vals` goes to `fmAddr fm y x c` -/
def scatterBytes (fm : FM) (vals : Array Int) (b0 : ByteArray) : Except String ByteArray :=
  (coords3 fm.height fm.width fm.depth).foldlM
    (fun b (y, x, c) => writeElem fm.region fm.elemBytes b (fmAddr fm y x c) (vals.getD ((y * fm.width + x) * fm.depth + c) 0)) b0

def scatter (m : Mem) (fm : FM) (vals : Array Int) : Except String Mem :=
  m.modifyRegion fm.region (scatterBytes fm vals)

/-! ## Side information -/

/-- weights of one operation: `vals[((o*kh + ky)*kw + kx)*ic + i]`, zero point already removed -/
structure Weights where
  oc : Nat
  kh : Nat
  kw : Nat
  ic : Nat
  vals : Array Int
deriving Inhabited

def Weights.at (w : Weights) (o ky kx i : Nat) : Int := w.vals.getD (((o * w.kh + ky) * w.kw + kx) * w.ic + i) 0

/-! ## Scale records (10 bytes: 40-bit bias, 32-bit scale, 6-bit shift) -/

structure ScaleRec where
  bias : Int
  scale : Nat
  shift : Nat
deriving Repr, Inhabited, DecidableEq

def decodeScaleRec (bytes : List Nat) : ScaleRec :=
  let b := fun i => bytes.getD i 0
  let bias40 := b 0 + 256 * b 1 + 65536 * b 2 + 16777216 * b 3 + 4294967296 * b 4
  { bias := toSigned bias40 40, scale := b 5 + 256 * b 6 + 65536 * b 7 + 16777216 * b 8, shift := b 9 % 64 }

/-- record of OFM channel `c` (relative to the operation): core `c % ncores`, position `c / ncores` -/
def readScaleRec (m : Mem) (ranges : List AddrRange) (ncores c : Nat) : Except String ScaleRec := do
  let core := c % ncores
  let idx := c / ncores
  match ranges[core]? with
  | none => throw s!"no scale range for core {core}"
  | some r =>
    if 10 * (idx + 1) > r.len then throw s!"scale record {idx} outside its range (len {r.len})"
    let bytes ← (List.range 10).mapM fun i => m.readByte r.region (r.addr + 10 * idx + i)
    return decodeScaleRec bytes

/-! ## Per-element arithmetic (pure) -/

/-- convolution accumulator of the NPU: kernel positions whose (upscaled) IFM coordinate falls into the
    padding contribute nothing -/
def convAcc (H W C : Nat) (ifm : Nat → Nat → Nat → Int) (kh kw : Nat) (wgt : Nat → Nat → Nat → Int)
    (sy sx dy dx : Nat) (padTop padLeft : Nat) (zp : Int) (oy ox : Nat) : Int :=
  sumRange kh fun ky => sumRange kw fun kx =>
    let uy := oy * sy + ky * dy
    let ux := ox * sx + kx * dx
    if padTop ≤ uy ∧ uy - padTop < H ∧ padLeft ≤ ux ∧ ux - padLeft < W then
      sumRange C fun ic => (ifm (uy - padTop) (ux - padLeft) ic - zp) * wgt ky kx ic
    else 0

def dwAcc (H W : Nat) (ifm : Nat → Nat → Int) (kh kw : Nat) (wgt : Nat → Nat → Int)
    (sy sx dy dx : Nat) (padTop padLeft : Nat) (zp : Int) (oy ox : Nat) : Int :=
  sumRange kh fun ky => sumRange kw fun kx =>
    let uy := oy * sy + ky * dy
    let ux := ox * sx + kx * dx
    if padTop ≤ uy ∧ uy - padTop < H ∧ padLeft ≤ ux ∧ ux - padLeft < W then
      (ifm (uy - padTop) (ux - padLeft) - zp) * wgt ky kx
    else 0

/-- values of the valid window positions -/
def windowVals (H W : Nat) (ifm : Nat → Nat → Int) (kh kw sy sx padTop padLeft : Nat) (oy ox : Nat) : List Int :=
  (List.range kh).flatMap fun ky => (List.range kw).filterMap fun kx =>
    let uy := oy * sy + ky
    let ux := ox * sx + kx
    if padTop ≤ uy ∧ uy - padTop < H ∧ padLeft ≤ ux ∧ ux - padLeft < W then some (ifm (uy - padTop) (ux - padLeft)) else none

/-- rounding division, ties away from zero (what the averaging unit does when it has to divide by the
    number of valid elements itself; this case is in the approximated class) -/
def divRoundAway (a : Int) (n : Nat) : Int :=
  if n = 0 then 0 else
  let h : Int := ((n / 2 : Nat) : Int)
  if a ≥ 0 then Int.tdiv (a + h) n else Int.tdiv (a - h) n

/-- operand scaling of ADD/SUB.
    mode 0: both operands multiplied by their 16-bit scales;
    mode 1 / 2: operand A / B is shifted left by `L` (20 for 8-bit, 15 for 16-bit inputs) and scaled with
    the 32-bit OPA scale and shift using the TFL double rounding, the other operand is shifted by `L - 1`. -/
def addOperands (mode : Nat) (bits16 : Bool) (a b : Int) (opaScale opaShift opbScale : Nat) : Int × Int :=
  let L : Nat := if bits16 then 15 else 20
  if mode = 0 then (a * (opaScale % 65536), b * (opbScale % 65536))
  else if mode = 1 then (npuScaleTfl (a * (2 : Int) ^ L) opaScale (opaShift + L), b * (2 : Int) ^ (L - 1))
  else (a * (2 : Int) ^ (L - 1), npuScaleTfl (b * (2 : Int) ^ L) opaScale (opaShift + L))

/-- OFM values of a convolution / depthwise block before the activation clamp, in NHWC order: element
    `(oy, ox, oc)` is the accumulator of that position (`convAcc` / `dwAcc`) plus the bias of channel `oc`, scaled with the
    channel's scale record, plus the OFM zero point (pure and structural: `Props/C01.convValues_get`) -/
def convValues (depthwise : Bool) (H W C : Nat) (ifmAt : Nat → Nat → Nat → Int) (kh kw : Nat)
    (wAt : Nat → Nat → Nat → Nat → Int) (sy sx dy dx padTop padLeft : Nat) (zp ozp : Int) (rounding : Rounding)
    (recs : Array ScaleRec) (oh ow od : Nat) : List Int :=
  (List.range oh).flatMap fun oy => (List.range ow).flatMap fun ox => (List.range od).map fun oc =>
    let acc := if depthwise then
        dwAcc H W (fun y x => ifmAt y x oc) kh kw (fun ky kx => wAt oc ky kx 0) sy sx dy dx padTop padLeft zp oy ox
      else
        convAcc H W C ifmAt kh kw (fun ky kx ic => wAt oc ky kx ic) sy sx dy dx padTop padLeft zp oy ox
    let r := recs.getD oc default
    npuScale rounding (acc + r.bias) r.scale r.shift + ozp

/-! ## Block operations -/

def lo32 (v : Nat) : Nat := v % 4294967296
def hi6 (v : Nat) : Nat := v / 4294967296 % 64

structure Ctx where
  ncores : Nat
  lutBase : Nat
deriving Inhabited

def ofmRange (fm : FM) : Int × Int :=
  let bits := 8 * fm.elemBytes
  if fm.signed then (-((2 : Int) ^ (bits - 1)), (2 : Int) ^ (bits - 1) - 1) else (0, (2 : Int) ^ bits - 1)

/-- fused activation applied to the clamped OFM-precision value -/
def applyActivation (m : Mem) (ctx : Ctx) (b : BlockOp) (v : Int) : Except String Int := do
  let act := b.activation % 4096
  if act = 0 then return v
  if act ≥ 16 ∧ act < 24 then
    if b.ofm.elemBytes ≠ 1 ∨ b.activation ≥ 4096 then throw "unsupported:lut16"
    let (lo, _) := ofmRange b.ofm
    let idx := (v - lo).toNat
    if idx ≥ 256 then throw "lut index out of range"
    let raw ← m.readByte REGION_SHRAM (ctx.lutBase + (act - 16) * 256 + idx)
    return if b.ofm.signed then toSigned raw 8 else raw
  throw s!"unsupported:activation{act}"

/-- the convolution / depthwise branch of `execBlock`: the OFM values after the activation, in NHWC order. `ifm` is the
    (possibly upscaled) IFM box of extent `H × W × b.ifm.depth` as an NHWC array. -/
def convBranch (m : Mem) (ctx : Ctx) (b : BlockOp) (w : Option Weights) (rounding : Rounding) (ifm : Array Int) (H W : Nat) :
    Except String (List Int) := do
  let C := b.ifm.depth
  let od := b.ofm.depth
  let some w := w | throw "weights of the operation were not supplied"
  let kh := (b.kernelH - 1) / b.dilationY + 1
  let kw := (b.kernelW - 1) / b.dilationX + 1
  -- weights encoded for more output channels than the operation has are accepted only when every channel carries the
  -- same values (then the assignment of stream positions to channels cannot matter)
  let chanSize := w.kh * w.kw * w.ic
  let uniform := (List.range w.oc).all fun o => (List.range chanSize).all fun i => w.vals.getD (o * chanSize + i) 0 == w.vals.getD i 0
  if w.kh ≠ kh ∨ w.kw ≠ kw ∨ w.oc < od ∨ (w.oc > od ∧ !uniform) then
    throw s!"supplied weights {w.oc}x{w.kh}x{w.kw}x{w.ic} do not fit kernel {kh}x{kw} depth {od}"
  if b.kind == .conv ∧ w.ic ≠ C then throw "supplied weights do not fit the IFM depth"
  if b.kind == .depthwise ∧ (w.ic ≠ 1 ∨ C ≠ od) then throw "depthwise weights / depth mismatch"
  let recs ← (List.range od).mapM fun c => readScaleRec m b.scales ctx.ncores c
  let vals := convValues (b.kind == .depthwise) H W C (fun y x c => ifm.getD ((y * W + x) * C + c) 0) kh kw
    (fun oc ky kx ic => w.at oc ky kx ic) b.strideY b.strideX b.dilationY b.dilationX b.padTop b.padLeft
    b.ifm.zeroPoint b.ofm.zeroPoint rounding recs.toArray b.ofm.height b.ofm.width od
  vals.mapM fun v => applyActivation m ctx b (clamp v b.actMin b.actMax)

/-- value of one pooling window before the activation clamp: MAX (`subOp = 0`) or AVERAGE over the valid elements `vals` -/
def poolValue (b : BlockOp) (rounding : Rounding) (globalScale : Bool) (scale shift : Nat) (vals : List Int) : Except String Int :=
  match vals with
  | [] => throw "pooling window without a valid element"
  | v0 :: rest =>
    if b.subOp = 0 then pure (rest.foldl max v0 - b.ifm.zeroPoint + b.ofm.zeroPoint)
    else
      let s := vals.foldl (fun acc x => acc + (x - b.ifm.zeroPoint)) 0
      if globalScale then pure (npuScale rounding s scale shift + b.ofm.zeroPoint)
      else pure (divRoundAway s vals.length + b.ofm.zeroPoint)

/-- the pooling branch of `execBlock`: the OFM values after the activation, in NHWC order -/
def poolBranch (m : Mem) (ctx : Ctx) (b : BlockOp) (rounding : Rounding) (globalScale : Bool) (ifm : Array Int) (H W : Nat) :
    Except String (List Int) := do
  let C := b.ifm.depth
  if b.subOp > 1 then throw "unsupported:reduce_sum"
  if b.dilationX ≠ 1 ∨ b.dilationY ≠ 1 then throw "pooling with dilation"
  let (scale, shift) ← if globalScale then
      match b.ofmScale with
      | some s => pure (lo32 s, hi6 s)
      | none => throw "global scale selected but OFM_SCALE never written"
    else pure (1, 0)
  (coords3 b.ofm.height b.ofm.width b.ofm.depth).mapM fun (oy, ox, oc) => do
    let vals := windowVals H W (fun y x => ifm.getD ((y * W + x) * C + oc) 0) b.kernelH b.kernelW b.strideY b.strideX b.padTop b.padLeft oy ox
    let v ← poolValue b rounding globalScale scale shift vals
    applyActivation m ctx b (clamp v b.actMin b.actMax)

/-- second operand of an elementwise block: its NHWC array and extent (a tensor gathered from memory, the scalar of the
    registers, or nothing for a unary operation) -/
def ewOperand2 (m : Mem) (b : BlockOp) (regs : RegFile) : Except String (Array Int × Nat × Nat × Nat) :=
  let ifm2Prec := regs.get0D IFM2_PRECISION 0
  match b.ifm2, b.ifm2Scalar with
  | some fm, _ => do pure (← gather m fm, fm.height, fm.width, fm.depth)
  | none, some s =>
    let bits := if ifm2Prec / 4 % 4 = 0 then 8 else 16
    let sv : Int := if ifm2Prec % 2 = 1 then (if bits = 8 then toSigned (s % 256) 8 else s16 s) else (s % 2 ^ bits : Nat)
    pure (#[sv], 1, 1, 1)
  | none, none => if elementwiseIsUnary b.subOp then pure (#[], 1, 1, 1) else throw "binary elementwise operation without second operand"

/-- element `(oy, ox, oc)` of the second operand with broadcasting, zero point removed (0 for a unary operation) -/
def ewX2 (b : BlockOp) (op2 : Array Int × Nat × Nat × Nat) (ifm2Zp : Int) (oy ox oc : Nat) : Int :=
  if elementwiseIsUnary b.subOp then 0 else
    op2.1.getD (((if op2.2.1 = 1 then 0 else oy) * op2.2.2.1 + (if op2.2.2.1 = 1 then 0 else ox)) * op2.2.2.2 + (if op2.2.2.2 = 1 then 0 else oc)) 0 - ifm2Zp

/-- value of one elementwise element before the activation clamp; `a`, `bb` are the operands after zero-point removal (and
    reversal) -/
def ewValue (b : BlockOp) (rounding : Rounding) (globalScale : Bool) (a bb : Int) : Except String Int :=
  let opa := b.opaScale.getD 0
  let opb := b.opbScale.getD 0
  let ofs := b.ofmScale.getD 1
  let opToScale := b.ifmPrecision / 256 % 4
  let ozp := b.ofm.zeroPoint
  match b.subOp with
  | 0 => pure (npuScale rounding (a * bb) (lo32 ofs) (hi6 ofs) + ozp)                       -- MUL
  | 1 | 2 =>                                                                                 -- ADD / SUB
    if !globalScale then throw "unsupported:add-without-scaling" else
    let (sa, sb) := addOperands opToScale (b.ifm.elemBytes = 2) a bb (lo32 opa) (hi6 opa) (lo32 opb)
    pure (npuScale rounding (if b.subOp = 1 then sa + sb else sa - sb) (lo32 ofs) (hi6 ofs) + ozp)
  | 3 => pure (min a bb + ozp)
  | 4 => pure (max a bb + ozp)
  | 5 => pure ((if a ≥ 0 then a else npuScale rounding a (lo32 ofs) (hi6 ofs)) + ozp)      -- LRELU
  | 6 => pure (npuScale rounding (if a ≥ 0 then a else -a) (lo32 ofs) (hi6 ofs) + ozp)      -- ABS
  | mode => throw s!"unsupported:elementwise{mode}"

/-- the elementwise branch of `execBlock`: the OFM values after the activation, in NHWC order; `ifm` is the IFM box as an
    NHWC array of width `W` -/
def ewBranch (m : Mem) (ctx : Ctx) (b : BlockOp) (regs : RegFile) (rounding : Rounding) (globalScale : Bool) (ifm : Array Int) (W : Nat) :
    Except String (List Int) := do
  let C := b.ifm.depth
  if b.subOp > 6 ∨ b.subOp = 7 then throw s!"unsupported:elementwise{b.subOp}"
  let reversed := b.ifm2Broadcast / 64 % 2 = 1
  let ifm2Zp : Int := s16 (regs.get0D IFM2_ZERO_POINT 0)
  let op2 ← ewOperand2 m b regs
  (coords3 b.ofm.height b.ofm.width b.ofm.depth).mapM fun (oy, ox, oc) => do
    let x1 := ifm.getD ((oy * W + ox) * C + oc) 0 - b.ifm.zeroPoint
    let x2 := ewX2 b op2 ifm2Zp oy ox oc
    let v ← if reversed then ewValue b rounding globalScale x2 x1 else ewValue b rounding globalScale x1 x2
    applyActivation m ctx b (clamp v b.actMin b.actMax)

def execBlock (m : Mem) (ctx : Ctx) (b : BlockOp) (regs : RegFile) (w : Option Weights) : Except String Mem := do
  if b.upscale > 2 then throw "reserved upscale mode"
  if b.upscale ≠ 0 ∧ b.kind == .elementwise then throw "unsupported:upscale-elementwise"
  if b.accFormat = 2 then throw "unsupported:fp16acc"
  if b.ofm.elemBytes = 4 ∨ b.ifm.elemBytes = 4 then throw "unsupported:int32"
  let some rounding := Rounding.ofBits (b.ofmPrecision / 16384 % 4) | throw "reserved rounding mode"
  let globalScale := b.ofmPrecision / 256 % 2 = 1
  let ifm0 ← gather m b.ifm
  let H0 := b.ifm.height
  let W0 := b.ifm.width
  let C := b.ifm.depth
  -- IFM upscaling: the window runs over a 2x upscaled image. NEAREST replicates every element 2x2, TRANSPOSE
  -- puts the element at the even position and elements that contribute nothing (the zero point) elsewhere.
  -- The extent of the upscaled image is what the OFM extent, kernel, stride and padding imply.
  let upH := if b.upscale = 0 then H0 else (b.ofm.height - 1) * b.strideY + b.kernelH - b.padTop - b.padBottom
  let upW := if b.upscale = 0 then W0 else (b.ofm.width - 1) * b.strideX + b.kernelW - b.padLeft - b.padRight
  if b.upscale ≠ 0 ∧ ((upH + 1) / 2 ≠ H0 ∨ (upW + 1) / 2 ≠ W0) then throw "upscaled extent inconsistent with the IFM extent"
  let H := upH
  let W := upW
  let ifm : Array Int ← if b.upscale = 0 then pure ifm0 else do
    let mut up : Array Int := Array.mkEmpty (H * W * C)
    for y in [0:H] do
      for x in [0:W] do
        for c in [0:C] do
          let v := if b.upscale = 1 ∨ (y % 2 = 0 ∧ x % 2 = 0) then ifm0.getD (((y / 2) * W0 + x / 2) * C + c) 0 else b.ifm.zeroPoint
          up := up.push v
    pure up
  let oh := b.ofm.height
  let ow := b.ofm.width
  let od := b.ofm.depth
  let zp := b.ifm.zeroPoint
  let ozp := b.ofm.zeroPoint
  let ifmAt := fun y x c => ifm.getD ((y * W + x) * C + c) 0
  let finish := fun (v : Int) => applyActivation m ctx b (clamp v b.actMin b.actMax)
  let mut out : Array Int := Array.mkEmpty (oh * ow * od)
  match b.kind with
  | .conv | .depthwise =>
    out := (← convBranch m ctx b w rounding ifm H W).toArray
  | .pool =>
    out := (← poolBranch m ctx b rounding globalScale ifm H W).toArray
  | .elementwise =>
    out := (← ewBranch m ctx b regs rounding globalScale ifm W).toArray
  | .dma => throw "dma is not a block operation"
  scatter m b.ofm out

def execDma (m : Mem) (d : DmaOp) : Except String Mem := do
  if d.param % 16 ≠ 0 then throw "unsupported:dma-mode"
  let some ss := regionSlot d.src.region | throw "dma from unknown region"
  let some ds := regionSlot d.dst.region | throw "dma to unknown region"
  if ds = 0 then throw "dma into the constants region"
  let src := m.regions.getD ss ByteArray.empty
  let dst := m.regions.getD ds ByteArray.empty
  if d.src.addr + d.src.len > src.size then throw s!"dma source outside region {d.src.region}"
  if d.dst.addr + d.src.len > dst.size then throw s!"dma destination outside region {d.dst.region}"
  let dst' := src.copySlice d.src.addr dst d.dst.addr d.src.len
  return { m with regions := m.regions.setIfInBounds ds dst' }

/-- operations of a stream together with the register file each one saw -/
def opsWithRegs (words : List Nat) : Except String (List (DecOp × RegFile) × Nat) := do
  let st ← decodeStream words
  let cmds ← splitCmds words
  let evs ← events cmds
  -- register files of the operations issued before the first STOP
  let rec collect (es : List Event) (acc : List RegFile) : List RegFile :=
    match es with
    | [] => acc.reverse
    | .stop _ :: _ => acc.reverse
    | .op _ _ regs :: rest => collect rest (regs :: acc)
    | _ :: rest => collect rest acc
  let regs := collect evs []
  if regs.length ≠ st.ops.length then throw "decoder disagreement on the number of operations"
  return ((st.ops.map (·.op)).zip regs, st.ncores)

/-- sequential execution in program order -/
def execStream (m : Mem) (lutBase : Nat) (words : List Nat) (weights : Nat → Option Weights) : Except String (Mem × Nat) := do
  let (ops, ncores) ← opsWithRegs words
  let ctx : Ctx := { ncores := ncores, lutBase := lutBase }
  let mut mem := m
  let mut k := 0
  let mut blocks := 0
  for (op, regs) in ops do
    match op with
    | .dma d => mem ← execDma mem d
    | .block b =>
      mem ← (execBlock mem ctx b regs (weights k)).mapError fun e => if e.startsWith "unsupported:" then e else s!"op {k}: {e}"
      blocks := blocks + 1
    k := k + 1
  return (mem, blocks)

/-! ## The Ethos-U custom operator of an output model -/

structure Placement where
  offset : Nat                 -- arena offset (OfflineMemoryAllocation) = address in region 1
  dtype : DType
  shape : List Nat
deriving Inhabited

structure Program where
  words : List Nat
  scratchSize : Nat
  fastSize : Nat
  shramSize : Nat
  lutBase : Nat
  ins : List Placement
  outs : List Placement
  weights : Array (Option Weights)     -- per operation of the stream (DMAs included in the numbering)
deriving Inhabited

def poison (n : Nat) : ByteArray := ByteArray.mk (Array.replicate n 0xCD)

def writeTensor (m : Mem) (p : Placement) (t : Tensor) : Except String Mem := do
  if t.data.size ≠ prod p.shape then throw "custom operator input has the wrong number of elements"
  let nb := p.dtype.bytes
  m.modifyRegion 1 fun b0 => do
    if p.offset + t.data.size * nb > b0.size then throw "custom operator input lies outside the scratch tensor"
    let mut b := b0
    for i in [0:t.data.size] do
      b := putElem b (p.offset + i * nb) nb (t.data.getD i 0)
    return b

def readTensor (m : Mem) (p : Placement) : Except String Tensor := do
  let nb := p.dtype.bytes
  let n := prod p.shape
  let mut out : Array Int := Array.mkEmpty n
  for i in [0:n] do
    out := out.push (← m.readElem 1 (p.offset + i * nb) nb p.dtype.signed)
  return { shape := p.shape, data := out }

def runProgram (flash : ByteArray) (p : Program) (inputs : List Tensor) : Except String (List Tensor × Nat) := do
  if inputs.length ≠ p.ins.length then throw "custom operator input count"
  let mut mem : Mem := { regions := #[flash, poison p.scratchSize, poison p.fastSize, poison p.shramSize] }
  for (pl, t) in p.ins.zip inputs do
    mem ← writeTensor mem pl t
  let (mem', blocks) ← execStream mem p.lutBase p.words (fun k => p.weights.getD k none)
  let outs ← p.outs.mapM fun pl => readTensor mem' pl
  return (outs, blocks)

end VelaVerif.NpuSem
