import VelaVerif.Spec.Mem
/-!
# C03 across the whole inference

The tagged-memory machine of `Spec/Mem.lean` is run over the operator sequence of the *output graph*:
CPU-resident operators read their arena operands (which must carry the right tags) and define their
results; every Ethos-U operator executes its decoded command stream on the same memory. A tensor
that an NPU subgraph (or a CPU operator) overwrites while a later operator still needs it shows up
as a foreign or stale tag at that later read.
-/
namespace VelaVerif.Inference
open VelaVerif.Mem VelaVerif.Decode VelaVerif.Footprint

structure Tagged where
  region : Nat
  addr : Nat
  len : Nat
  tid : Nat
  delta : Int
deriving Repr, Inhabited

inductive Step where
  | cpu (name : String) (reads writes : List Tagged)
  | npu (ops : List DecOp) (infos : List Info)
deriving Inhabited

/-- a whole stream: messages and the memory it leaves behind -/
def runStream (e : Env) (m : Memory) (ops : List DecOp) (infos : List Info) : List String × Memory :=
  (ops.zip infos).zipIdx.foldl
    (fun (acc : List String × Memory) x =>
      let r := step e acc.2 x.2 x.1.1 x.1.2
      (acc.1 ++ r.1, r.2))
    ([], m)

def cpuStep (m : Memory) (k : Nat) (name : String) (reads writes : List Tagged) : List String × Memory :=
  let errs := reads.filterMap fun t =>
    (readPieces m t.region t.tid [⟨t.addr, t.len, t.delta⟩]).map fun msg => s!"step {k} CPU {name}: {msg}"
  (errs, writes.foldl (fun mm t => writePieces mm t.region t.tid [⟨t.addr, t.len, t.delta⟩]) m)

def execInference (e : Env) (m0 : Memory) (steps : List Step) : List String :=
  (steps.zipIdx.foldl
    (fun (acc : List String × Memory) x =>
      match x.1 with
      | .cpu name reads writes =>
        let r := cpuStep acc.2 x.2 name reads writes
        (acc.1 ++ r.1, r.2)
      | .npu ops infos =>
        let r := runStream e acc.2 ops infos
        (acc.1 ++ r.1.map (fun s => s!"step {x.2} NPU: {s}"), r.2))
    ([], m0)).1

end VelaVerif.Inference
