import VelaVerif.Gen.Shram
/-!
# Specification for C15 — what makes a block configuration and its shared-buffer layout valid

Written from the hardware's point of view, independently of `architecture_allocator.py`:

* the OFM block is a positive multiple of the OFM micro-block in every axis and not larger than the
  maximum block;
* SHRAM is a row of banks `0 … cfgShramBanks`.  Banks `[0, reservedOutput)` belong to the output stage.
  The IFM partition is `[ibStart, ibEnd)`; for a binary elementwise operation with a tensor IFM2 it is
  split at `ibStart2` into IFM `[ibStart, ibStart2)` and IFM2 `[ibStart2, ibEnd)`.  The accumulator
  partition is `[abStart, lutStart)`.  Banks from `lutStart` on are not used by the operation: they hold the
  lookup table when one is used, and the unused tail of the larger configurations;
* partitions are ordered and do not overlap, and stay inside the bank count;
* every partition can hold *two* copies (double buffering) of its block, each copy in whole banks, the
  total rounded up to the partition's bank granule (`shram_granules[element kind]` of the raw
  accelerator table);
* with a lookup table, the bytes `[lutAddress, lutAddress + lutSize)` that the LUT DMA writes lie at or
  after `lutStart` and inside SHRAM.

The executable checkers (`…B`) are applied by the harness to the layouts the *implementation* returns and
to the registers the command-stream generator emits; `Lemmas/Shram.lean` proves them equivalent to the
`Prop`s.
-/
namespace VelaVerif.Spec.Shram
open VelaVerif.Gen VelaVerif.Gen.Shram

/-- kind of data a partition holds, used to pick the granule -/
inductive Elem where
  | ifm8 | ifm16 | ifm8Ew | ifm16Ew | ifm32 | acc16 | acc32 | acc40
deriving Repr, DecidableEq

def Elem.index : Elem → Nat
  | .ifm8 => elIFM8 | .ifm16 => elIFM16 | .ifm8Ew => elIFM8Ew | .ifm16Ew => elIFM16Ew
  | .ifm32 => elIFM32 | .acc16 => elAcc16 | .acc32 => elAcc32 | .acc40 => elAcc40

/-- bank granule of an element kind: the raw `shram_granules` entry (`none` if the table is too short) -/
def granuleOf (row : Row) (e : Elem) : Option Nat := row.rawGranules[e.index]?

/-- IFM element kind for a bit width (`none`: no such IFM precision) -/
def ifmElem (bits : Nat) (elementwise : Bool) : Option Elem :=
  if bits = 8 then some (if elementwise then .ifm8Ew else .ifm8)
  else if bits = 16 then some (if elementwise then .ifm16Ew else .ifm16)
  else if bits = 32 then some .ifm32
  else none

/-- accumulator element kind from its width in bits -/
def accElem (bits : Nat) : Option Elem :=
  if bits = 16 then some .acc16 else if bits = 32 then some .acc32 else if bits = 40 then some .acc40 else none

def ceilDiv (a b : Nat) : Nat := (a + b - 1) / b
def ceilTo (a m : Nat) : Nat := ceilDiv a m * m

/-- bytes of one IFM block in SHRAM: every pixel's channel vector is padded to 8 bytes -/
def ifmBlockBytes (w h d bits : Nat) : Nat := w * h * ceilTo (d * (bits / 8)) 8

/-- bytes of the accumulators of one OFM block: channels padded to 8, `accBits` bits each -/
def accBlockBytes (w h d accBits : Nat) : Nat := w * h * ceilTo d 8 * accBits / 8

/-- A partition of `banks` banks can double-buffer `bytes` bytes at granule `g`:
    there are `n` banks per copy and a multiple `m` of the granule with `2n ≤ m ≤ banks`. -/
def Fits (banks : Int) (bytes bankSize g : Nat) : Prop :=
  ∃ n m : Nat, bytes ≤ n * bankSize ∧ 2 * n ≤ m ∧ m % g = 0 ∧ (m : Int) ≤ banks

/-- least number of banks that `Fits` -/
def banksNeeded (bytes bankSize g : Nat) : Nat := ceilTo (2 * ceilDiv bytes bankSize) g

def fitsB (banks : Int) (bytes bankSize g : Nat) : Bool := decide ((banksNeeded bytes bankSize g : Int) ≤ banks)

/-- the five bank positions of a layout -/
structure Regions where
  ibStart : Int
  ibStart2 : Int
  ibEnd : Int
  abStart : Int
  lutStart : Int
deriving Repr, DecidableEq

/-- ordered, non-overlapping, inside the bank count -/
def Ordered (row : Row) (r : Regions) : Prop :=
  (row.reservedOutputBanks : Int) = r.ibStart ∧ r.ibStart ≤ r.ibStart2 ∧ r.ibStart2 ≤ r.ibEnd ∧
  r.ibEnd ≤ r.abStart ∧ r.abStart ≤ r.lutStart ∧ r.lutStart ≤ row.cfgShramBanks

def orderedB (row : Row) (r : Regions) : Bool :=
  decide ((row.reservedOutputBanks : Int) = r.ibStart) && decide (r.ibStart ≤ r.ibStart2) &&
  decide (r.ibStart2 ≤ r.ibEnd) && decide (r.ibEnd ≤ r.abStart) && decide (r.abStart ≤ r.lutStart) &&
  decide (r.lutStart ≤ row.cfgShramBanks)

/-- the banks from `lutStart` on contain what must not be touched: the LUT bytes when a LUT is used, and
    the `unusedTail` banks (`arch.shram_reserved_unused_banks`, from the Core table) in any case -/
def TailReserved (row : Row) (unusedTail : Nat) (usesLut : Bool) (r : Regions) : Prop :=
  r.lutStart + unusedTail ≤ row.cfgShramBanks ∧
  (usesLut = true → r.lutStart * row.bankSizeBytes ≤ row.lutAddress ∧
      row.lutAddress + row.lutSize ≤ row.cfgShramBanks * row.bankSizeBytes)

def tailReservedB (row : Row) (unusedTail : Nat) (usesLut : Bool) (r : Regions) : Bool :=
  decide (r.lutStart + unusedTail ≤ row.cfgShramBanks) &&
  (!usesLut || (decide (r.lutStart * row.bankSizeBytes ≤ row.lutAddress) &&
      decide (row.lutAddress + row.lutSize ≤ row.cfgShramBanks * row.bankSizeBytes)))

/-- How the operation uses the IFM partition -/
inductive Usage where
  | mac          -- convolution / pooling / reduce-sum …: IFM + accumulators
  | ewBinary     -- elementwise with a tensor IFM2: IFM + IFM2, no accumulators
  | ewUnary      -- elementwise with one tensor input (unary, or IFM2 is a scalar)
deriving Repr, DecidableEq

/-- every partition is large enough to double-buffer its block at its granule -/
def Sufficient (row : Row) (u : Usage) (ifmBytes accBytes gIfm gAcc : Nat) (r : Regions) : Prop :=
  match u with
  | .mac => Fits (r.ibEnd - r.ibStart) ifmBytes row.bankSizeBytes gIfm ∧
            Fits (r.lutStart - r.abStart) accBytes row.bankSizeBytes gAcc
  | .ewBinary => Fits (r.ibStart2 - r.ibStart) ifmBytes row.bankSizeBytes gIfm ∧
                 Fits (r.ibEnd - r.ibStart2) ifmBytes row.bankSizeBytes gIfm
  | .ewUnary => Fits (r.ibEnd - r.ibStart) ifmBytes row.bankSizeBytes gIfm

def sufficientB (row : Row) (u : Usage) (ifmBytes accBytes gIfm gAcc : Nat) (r : Regions) : Bool :=
  match u with
  | .mac => fitsB (r.ibEnd - r.ibStart) ifmBytes row.bankSizeBytes gIfm &&
            fitsB (r.lutStart - r.abStart) accBytes row.bankSizeBytes gAcc
  | .ewBinary => fitsB (r.ibStart2 - r.ibStart) ifmBytes row.bankSizeBytes gIfm &&
                 fitsB (r.ibEnd - r.ibStart2) ifmBytes row.bankSizeBytes gIfm
  | .ewUnary => fitsB (r.ibEnd - r.ibStart) ifmBytes row.bankSizeBytes gIfm

/-- positive multiple of the micro-block, within the maximum block -/
def BlockOk (row : Row) (b : Blk) : Prop :=
  (0 < b.width ∧ b.width % row.ofmUblock.width = 0 ∧ b.width ≤ row.ofmBlockMax.width) ∧
  (0 < b.height ∧ b.height % row.ofmUblock.height = 0 ∧ b.height ≤ row.ofmBlockMax.height) ∧
  (0 < b.depth ∧ b.depth % row.ofmUblock.depth = 0 ∧ b.depth ≤ row.ofmBlockMax.depth)

def blockOkB (row : Row) (b : Blk) : Bool :=
  (decide (0 < b.width) && decide (b.width % row.ofmUblock.width = 0) && decide (b.width ≤ row.ofmBlockMax.width)) &&
  (decide (0 < b.height) && decide (b.height % row.ofmUblock.height = 0) && decide (b.height ≤ row.ofmBlockMax.height)) &&
  (decide (0 < b.depth) && decide (b.depth % row.ofmUblock.depth = 0) && decide (b.depth ≤ row.ofmBlockMax.depth))

/-! ### which IFM block an OFM block needs -/

/-- what the Spec needs to know about the operation -/
structure OpView where
  usage : Usage
  /-- IFM block depth equals OFM block depth (elementwise, pooling, depthwise) -/
  equalDepth : Bool
  ifmBits : Nat
  /-- depth of the (larger) IFM and traversal order: they fix the IFM block depth of a convolution -/
  ifmDepth : Nat
  partKernel : Bool
  kernelW : Nat
  kernelH : Nat
  strideX : Nat
  strideY : Nat
  dilX : Nat
  dilY : Nat
  /-- 1 (none) or 2 (nearest / transpose) -/
  upscale : Nat
  nearest : Bool
  ofmHeight : Nat
  usesLut : Bool
deriving Repr, DecidableEq

/-- IFM extent needed along one axis for `n` outputs: the receptive field of the first sub-kernel
    (at most `limit` taps), divided by the upscaling factor, rounded up -/
def ifmExtent (n stride kernel dil limit upscale : Nat) (nearest : Bool) : Nat :=
  ceilDiv ((n - 1) * stride + min ((kernel - 1) * dil + 1) limit + (if nearest then 1 else 0)) upscale

/-- the IFM block the hardware fetches for OFM block `b` -/
def ifmBlockNeeded (row : Row) (v : OpView) (b : Blk) : Blk :=
  { width := ceilTo (ifmExtent b.width v.strideX v.kernelW v.dilX subKernelLimit.width v.upscale v.nearest) row.ofmUblock.width,
    height := ceilTo (ifmExtent b.height v.strideY v.kernelH v.dilY subKernelLimit.height v.upscale v.nearest) row.ofmUblock.height,
    depth :=
      if v.equalDepth then b.depth
      else if v.ifmBits = 16 then ceilTo (min v.ifmDepth 16) 4
      else ceilTo (min v.ifmDepth (if v.partKernel then 16 else 32)) row.ifmUblock.depth }

/-- the OFM block that needs accumulators: the block itself, except for the documented Conv1D
    optimisation of the 2-row micro-block configurations (OFM height 1, kernel height 1), where only one
    row is ever produced -/
def accBlock (row : Row) (v : OpView) (b : Blk) : Blk :=
  if v.ofmHeight = 1 ∧ v.kernelH = 1 ∧ row.ofmUblock.height = 2 then ⟨b.width, min b.height 1, b.depth⟩ else b

/-- **The property** for one (accelerator row, operation, OFM block, accumulator width, layout). -/
def ConfigValid (row : Row) (unusedTail : Nat) (v : OpView) (b : Blk) (accBits : Nat) (r : Regions) : Prop :=
  BlockOk row b ∧ Ordered row r ∧ TailReserved row unusedTail v.usesLut r ∧
  ∃ gIfm gAcc, (ifmElem v.ifmBits (v.usage ≠ .mac)).bind (granuleOf row) = some gIfm ∧
    (accElem accBits).bind (granuleOf row) = some gAcc ∧
    let ib := ifmBlockNeeded row v b
    let ab := accBlock row v b
    Sufficient row v.usage (ifmBlockBytes ib.width ib.height ib.depth v.ifmBits)
      (accBlockBytes ab.width ab.height ab.depth accBits) gIfm gAcc r

/-- executable form; the answer names the first clause that fails -/
def checkConfig (row : Row) (unusedTail : Nat) (v : OpView) (b : Blk) (accBits : Nat) (r : Regions) : String :=
  if !blockOkB row b then "0:block"
  else if !orderedB row r then "0:order"
  else if !tailReservedB row unusedTail v.usesLut r then "0:lut"
  else
    match (ifmElem v.ifmBits (v.usage ≠ .mac)).bind (granuleOf row), (accElem accBits).bind (granuleOf row) with
    | some gIfm, some gAcc =>
      let ib := ifmBlockNeeded row v b
      let ab := accBlock row v b
      if sufficientB row v.usage (ifmBlockBytes ib.width ib.height ib.depth v.ifmBits)
          (accBlockBytes ab.width ab.height ab.depth accBits) gIfm gAcc r then "1"
      else "0:size"
    | _, _ => "0:granule"

end VelaVerif.Spec.Shram
