/-!
# Spec: the SHRAM lookup-table window, byte by byte (property C03 at the table window)

Independent of `lut.py`: a stream of events over the 2 KiB table window at the end of SHRAM.

* `load content size addr` — a DMA copies a table (`size` bytes, byte-content class `content`) to SHRAM address `addr`;
* `use content size idx` — a kernel with a TABLE_LOOKUP activation programmed with table index `idx` that must see the table
  `content`: the hardware index counts 256-byte slots from the start of the window whatever the size of the table (the
  reading `Spec/Mem.lean` `lutAddr` takes, fixed there from the register description), so the kernel reads the `size`
  bytes at `lutStart + 256 * idx`;
* `kernel` — a kernel without table lookup. On a configuration where the window is not outside the SHRAM such a kernel may
  use (`clobbers`, hand-written per configuration: the 16-bank configurations, see `Spec/Mem.lean` `shramClobber` and
  `Props/C03.clobber_covers_lut_window_16_banks`) it leaves nothing defined in the window;
* `nop` — anything else (weight / feature-map DMA): does not touch SHRAM.

Two tables have the same content class iff they are the same bytes. The window maps a byte address to the class and the
byte offset of what was last loaded there. C03 at this level: every `use` finds, at every byte it reads, exactly its own
table's byte at that offset; loads and reads stay inside the window; the index fits the 3-bit field.
-/
namespace VelaVerif.Spec.LutWindow

structure Geom where
  lutStart : Nat
  lutSize : Nat
  clobbers : Bool
deriving Repr, DecidableEq

inductive Ev
  | load (content size addr : Nat)
  | use (content size idx : Nat)
  | kernel
  | nop
deriving Repr, DecidableEq

/-- byte address ↦ (content class, offset inside that table) of the byte last loaded there -/
abbrev Window := Nat → Option (Nat × Nat)

def Window.empty : Window := fun _ => none

def Window.load (w : Window) (content size addr : Nat) : Window :=
  fun b => if addr ≤ b ∧ b < addr + size then some (content, b - addr) else w b

def slotBytes : Nat := 256

def useAddr (g : Geom) (idx : Nat) : Nat := g.lutStart + slotBytes * idx

/-- the table `content` (`size` bytes) is what a lookup at index `idx` reads -/
def Holds (g : Geom) (w : Window) (content size idx : Nat) : Prop :=
  idx < 8 ∧ useAddr g idx + size ≤ g.lutStart + g.lutSize ∧ ∀ k, k < size → w (useAddr g idx + k) = some (content, k)

def InWindow (g : Geom) (size addr : Nat) : Prop := g.lutStart ≤ addr ∧ addr + size ≤ g.lutStart + g.lutSize

def stepW (g : Geom) (w : Window) : Ev → Window
  | .load c n a => w.load c n a
  | .kernel => if g.clobbers then Window.empty else w
  | _ => w

/-- the event is fine in the window it executes in -/
def EvOk (g : Geom) (w : Window) : Ev → Prop
  | .load _ n a => InWindow g n a
  | .use c n i => Holds g w c n i
  | _ => True

/-- the property: every event of the stream is fine in the window left by the events before it -/
def StreamOk (g : Geom) : Window → List Ev → Prop
  | _, [] => True
  | w, e :: es => EvOk g w e ∧ StreamOk g (stepW g w e) es

/-! ## executable checker (applied to what the real pass decided) -/

def holdsB (g : Geom) (w : Window) (content size idx : Nat) : Bool :=
  decide (idx < 8) && decide (useAddr g idx + size ≤ g.lutStart + g.lutSize) &&
    (List.range size).all fun k => w (useAddr g idx + k) == some (content, k)

def inWindowB (g : Geom) (size addr : Nat) : Bool := decide (g.lutStart ≤ addr) && decide (addr + size ≤ g.lutStart + g.lutSize)

def showByte : Option (Nat × Nat) → String
  | none => "nothing defined"
  | some (c, k) => s!"byte {k} of table content {c}"

/-- why a `use` fails (first reason) -/
def useProblem (g : Geom) (w : Window) (content size idx : Nat) : String :=
  if ¬ idx < 8 then s!"table index {idx} does not fit the 3-bit field"
  else if ¬ useAddr g idx + size ≤ g.lutStart + g.lutSize then
    s!"table of {size} bytes at index {idx} (address {useAddr g idx}) runs past the end of the table window {g.lutStart + g.lutSize}"
  else match (List.range size).find? fun k => !(w (useAddr g idx + k) == some (content, k)) with
    | some k => s!"lookup at index {idx} (address {useAddr g idx}, {size} bytes of table content {content}): byte {k} at {useAddr g idx + k} holds {showByte (w (useAddr g idx + k))}"
    | none => "?"

def evOkB (g : Geom) (w : Window) : Ev → Bool
  | .load _ n a => inWindowB g n a
  | .use c n i => holdsB g w c n i
  | _ => true

def problemsFrom (g : Geom) : Nat → Window → List Ev → List String
  | _, _, [] => []
  | i, w, e :: es =>
    (if evOkB g w e then [] else
      match e with
      | .load _ n a => [s!"event {i}: table load of {n} bytes to {a} is not inside the table window [{g.lutStart}, {g.lutStart + g.lutSize})"]
      | .use c n idx => [s!"event {i}: " ++ useProblem g w c n idx]
      | _ => []) ++ problemsFrom g (i + 1) (stepW g w e) es

def problems (g : Geom) (evs : List Ev) : List String := problemsFrom g 0 Window.empty evs

def streamOkB (g : Geom) : Window → List Ev → Bool
  | _, [] => true
  | w, e :: es => evOkB g w e && streamOkB g (stepW g w e) es

/-! ## the list of resident tables: no two share a byte -/

/-- tables as (name, address, size) -/
def shareByte (a b : Nat × Nat × Nat) : Bool :=
  decide (max a.2.1 b.2.1 < min (a.2.1 + a.2.2) (b.2.1 + b.2.2))

/-- first pair of tables that share a byte -/
def tablesOverlap : List (Nat × Nat × Nat) → Option (Nat × Nat)
  | [] => none
  | t :: rest =>
    match rest.find? (shareByte t) with
    | some u => some (t.1, u.1)
    | none => tablesOverlap rest

end VelaVerif.Spec.LutWindow
