/-!
# Spec for C05 — what a correct tensor allocation is (independent of any allocator)

A *placed* buffer is a live range `[start, end_]` (both inclusive, as the allocators treat it),
a byte size, a requested alignment, the address the allocator chose and an equivalence class
(`cls = 0`: none declared; two buffers with the same non-zero class were explicitly declared
equivalent and may share one address).

The property: any two buffers alive at a common time step occupy disjoint byte intervals
(unless declared equivalent and at one address), every address honours the alignment, the
reported total is the highest end address; and (for HillClimb) the total is never below the
peak sum of simultaneously live sizes.

`ok` and friends are the executable checkers that the harness applies to the addresses returned
by the *implementation*; `*_iff` tie them to the `Prop`s.
-/
namespace VelaVerif.Spec.Alloc

structure Placed where
  start : Nat
  end_ : Nat
  size : Nat
  align : Nat
  addr : Nat
  cls : Nat
deriving Repr, DecidableEq

/-! ### the property as `Prop` -/

def LiveAt (p : Placed) (t : Nat) : Prop := p.start ≤ t ∧ t ≤ p.end_

/-- alive at a common time step -/
def LiveTogether (a b : Placed) : Prop := ∃ t, LiveAt a t ∧ LiveAt b t

/-- disjoint byte intervals `[addr, addr+size)` -/
def Disjoint (a b : Placed) : Prop := a.addr + a.size ≤ b.addr ∨ b.addr + b.size ≤ a.addr

/-- explicitly declared equivalent and placed at one address -/
def Shared (a b : Placed) : Prop := a.cls ≠ 0 ∧ a.cls = b.cls ∧ a.addr = b.addr

def NoConflict (a b : Placed) : Prop := LiveTogether a b → Disjoint a b ∨ Shared a b

/-- every two distinct entries (positions) of the list are conflict free -/
def NoOverlap (ps : List Placed) : Prop := ps.Pairwise NoConflict

def Aligned (ps : List Placed) : Prop := ∀ p ∈ ps, p.align ∣ p.addr

/-- `total` is the highest end address (0 for no buffers) -/
def IsHighestEnd (ps : List Placed) (total : Nat) : Prop :=
  (∀ p ∈ ps, p.addr + p.size ≤ total) ∧ (ps = [] → total = 0) ∧
  (ps ≠ [] → ∃ p ∈ ps, p.addr + p.size = total)

/-- sum of the sizes of the buffers alive at `t` -/
def liveSum (ps : List Placed) (t : Nat) : Nat :=
  ((ps.filter (fun p => decide (p.start ≤ t) && decide (t ≤ p.end_))).map (·.size)).sum

/-- the footprint is never below the sum of simultaneously live sizes -/
def CoversPeak (ps : List Placed) (total : Nat) : Prop := ∀ t, liveSum ps t ≤ total

/-- The C05 property for one allocation. -/
def Ok (ps : List Placed) (total : Nat) : Prop :=
  NoOverlap ps ∧ Aligned ps ∧ IsHighestEnd ps total

/-! ### executable checkers -/

def liveTogetherB (a b : Placed) : Bool := decide (max a.start b.start ≤ min a.end_ b.end_)

def disjointB (a b : Placed) : Bool :=
  decide (a.addr + a.size ≤ b.addr) || decide (b.addr + b.size ≤ a.addr)

def sharedB (a b : Placed) : Bool := a.cls != 0 && a.cls == b.cls && a.addr == b.addr

def noConflictB (a b : Placed) : Bool := !liveTogetherB a b || (disjointB a b || sharedB a b)

def noOverlapB : List Placed → Bool
  | [] => true
  | p :: ps => ps.all (noConflictB p) && noOverlapB ps

def alignedB (ps : List Placed) : Bool := ps.all (fun p => p.addr % p.align == 0)

def highestEnd (ps : List Placed) : Nat := ps.foldr (fun p m => max (p.addr + p.size) m) 0

def roundUp (a b : Nat) : Nat := ((a + b - 1) / b) * b

/-- highest end address when every size is padded to its alignment (what Greedy reports) -/
def paddedEnd (ps : List Placed) : Nat :=
  ps.foldr (fun p m => max (p.addr + roundUp p.size p.align) m) 0

def maxEndTime (ps : List Placed) : Nat := ps.foldr (fun p m => max p.end_ m) 0

def coversPeakB (ps : List Placed) (total : Nat) : Bool :=
  (List.range (maxEndTime ps + 1)).all (fun t => decide (liveSum ps t ≤ total))

/-- the checker for `Ok` -/
def ok (ps : List Placed) (total : Nat) : Bool :=
  noOverlapB ps && alignedB ps && total == highestEnd ps

end VelaVerif.Spec.Alloc
