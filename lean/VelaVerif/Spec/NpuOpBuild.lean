import VelaVerif.Model.NpuOp
import VelaVerif.Spec.FloatExact
import VelaVerif.Spec.TensorBounds
/-!
# What an `NpuOperation` must say about the scheduled operation it was built from (specification side)

Judges the **real** `NpuOperation` objects handed to the register generator against facts of the *source* operator
(its two operands, its weight / scale tensors with their encoded ranges, its fused activation) — never against the
builder's own intermediate values.  Nothing here is derived from `high_level_command_to_npu_op.py`.

* `rolesVerdict` — binary elementwise: the hardware computes `IFM ∘ IFM2`, or `IFM2 ∘ IFM` when the reverse-operand bit
  is set.  With `A`, `B` the operator's first and second operand: the feature map in the `A` role carries `A`'s tensor,
  data type, quantisation (scale *and* zero point) and extent, likewise `B`; the scalar flag is set exactly when the
  IFM2-role operand is a scalar and carries its value; only IFM2 is broadcast.
* `weightsVerdict` — the per-core weight and scale ranges of the operation are, for the depth slice of the stripe, exactly
  the sections the encoder recorded (`WeightRange`: offset, scale bytes, weight offset, weight bytes) rounded up to the
  16-byte fetch granule, inside the tensor they point into, 16-byte aligned; for a buffered copy the position inside the
  buffer is the image of the section under the DMA (`buffer + (offset − offset of the first core)`).
* `weightDmaVerdict` — the DMA that fills such a buffer starts at the first core's section, is a multiple of 16 bytes,
  stays inside source and buffer, and covers every byte the cores will fetch.
* `dmaDestVerdict` — a lookup-table transfer lands in the LUT area of SHRAM (region `0x103`), anything else in the region of
  its destination tensor.
* `clampVerdict` — RELU-family clamp: the bounds that reach `ACTIVATION_MIN/MAX` equal TensorFlow Lite's
  `CalculateActivationRangeQuantized` for the OFM *tensor's* quantisation (`Requant.activationRange` for RELU / RELU6 /
  RELU_N1_TO_1, the same formula for arbitrary bounds), intersected with the range of the OFM type — whatever scale or
  zero point the operation programs for its own arithmetic.
-/
namespace VelaVerif.NpuOpSpec
open VelaVerif VelaVerif.NpuOp

abbrev Msgs := List String

def chk (name : String) (exp got : Int) : Msgs :=
  if exp = got then [] else [s!"{name}:exp={exp}:got={got}"]

def chkB (name : String) (exp got : Bool) : Msgs :=
  if exp = got then [] else [s!"{name}:exp={exp}:got={got}"]

def optStr (o : Option Nat) : String := match o with | some v => toString v | none => "n"

def chkO (name : String) (exp got : Option Nat) : Msgs :=
  if exp = got then [] else [s!"{name}:exp={optStr exp}:got={optStr got}"]

def roundUp16 (x : Int) : Int := (x + 15) / 16 * 16

/-! ## (b) operand roles of a binary elementwise operation -/

/-- an operand of the source operator -/
structure Operand where
  region : Int
  /-- allocation `[lo, hi)` of the tensor -/
  lo : Int
  hi : Int
  dtype : DType
  hasQuant : Bool
  /-- binary64 bit pattern of the scale (`none`: no scale) -/
  scale : Option Nat
  zeroPoint : Int
  /-- operator-level extent (height, width, depth); `none`: a scalar -/
  shape : Option Shape3
  /-- bit pattern of the scalar's real value -/
  scalar : Option Nat
deriving Repr, DecidableEq, Inhabited

/-- the zero point the hardware must subtract: none for 32-bit inputs -/
def expZeroPoint (o : Operand) : Int := if o.dtype.bits = 32 then 0 else o.zeroPoint

def fmQuantMsgs (nm : String) (o : Operand) (fm : FM) (scale : Option Nat) : Msgs :=
  chk (nm ++ ".bits") o.dtype.bits fm.dtype.bits ++ chkB (nm ++ ".signed") o.dtype.signed fm.dtype.signed ++
  chkB (nm ++ ".hasQuant") o.hasQuant fm.hasQuant ++
  (if o.hasQuant then chk (nm ++ ".zeroPoint") (expZeroPoint o) fm.zeroPoint ++ chkO (nm ++ ".scale") o.scale scale else [])

def dimMsgs (nm : String) (opDim fmDim : Int) : Msgs :=
  if fmDim < 1 ∨ fmDim > opDim ∨ (opDim = 1 ∧ fmDim ≠ 1) then [s!"{nm}:operand={opDim}:fm={fmDim}"] else []

def fmRoleMsgs (nm : String) (o : Operand) (fm : FM) (scale : Option Nat) : Msgs :=
  chk (nm ++ ".region") o.region fm.region ++
  (match fm.addresses with
   | a :: _ => if o.lo ≤ a ∧ a < o.hi then [] else [s!"{nm}.base:{a}:outside:{o.lo}:{o.hi}"]
   | [] => [nm ++ ".base:missing"]) ++
  fmQuantMsgs nm o fm scale ++
  (match o.shape with
   | none => [nm ++ ":scalar-operand-as-feature-map"]
   | some s => dimMsgs (nm ++ ".height") s.height fm.shape.height ++ dimMsgs (nm ++ ".width") s.width fm.shape.width ++
               dimMsgs (nm ++ ".depth") s.depth fm.shape.depth)

def broadcastMsgs (ifm ifm2 : Shape3) : Msgs :=
  let one (nm : String) (a b : Int) : Msgs := if b = a ∨ b = 1 then [] else [s!"broadcast.{nm}:ifm={a}:ifm2={b}"]
  one "height" ifm.height ifm2.height ++ one "width" ifm.width ifm2.width ++ one "depth" ifm.depth ifm2.depth

/-- ADD / SUB with differing input scales rescale one operand only (`IFM_PRECISION[9:8]`: 1 = operand A, 2 = operand B, in
    hardware order: A is IFM2 when the reverse bit is set).  It must be the one whose scale is the smaller: the positive
    scales compare like their bit patterns. -/
def opToScaleMsgs (op : BlockOp) (ifmScale ifm2Scale : Option Nat) : Msgs :=
  if op.oracle.opToScale = 0 then [] else
  match ifmScale, ifm2Scale with
  | some s1, some s2 =>
    let (sa, sb) := if op.reversedOperands then (s2, s1) else (s1, s2)
    if sa < sb ∧ op.oracle.opToScale ≠ 1 then [s!"opToScale:exp=1:got={op.oracle.opToScale}"]
    else if sb < sa ∧ op.oracle.opToScale ≠ 2 then [s!"opToScale:exp=2:got={op.oracle.opToScale}"]
    else []
  | _, _ => ["opToScale:operand-without-scale"]

/-- `a`, `b`: first and second operand of the source operator; `op`: the real operation; `ifmScale`, `ifm2Scale`:
    the scales of its two input quantisations; `scalarBits`: its `ifm2_scalar` -/
def rolesMsgs (a b : Operand) (op : BlockOp) (ifmScale ifm2Scale scalarBits : Option Nat) : Msgs :=
  let (x, y) := if op.reversedOperands then (b, a) else (a, b)
  opToScaleMsgs op ifmScale ifm2Scale ++
  fmRoleMsgs "ifm" x op.ifm ifmScale ++
  match op.ifm2 with
  | none => ["ifm2:missing"]
  | some f2 =>
    match y.shape with
    | none =>
      (if op.ifm2Scalar.isNone then ["ifm2.scalar:missing"] else []) ++ fmQuantMsgs "ifm2" y f2 ifm2Scale ++
      chkO "ifm2.scalarValue" y.scalar scalarBits
    | some _ =>
      (if op.ifm2Scalar.isSome then ["ifm2.scalar:unexpected"] else []) ++ fmRoleMsgs "ifm2" y f2 ifm2Scale ++
      broadcastMsgs op.ifm.shape f2.shape

/-! ## (c) weight / scale ranges and the DMA that buffers them -/

/-- one `WeightRange` of an encoded tensor, keyed by (core, start channel of the depth slice) -/
structure Section where
  core : Nat
  depth : Nat
  offset : Nat
  scaleBytes : Nat
  weightOffset : Nat
  weightBytes : Nat
deriving Repr, DecidableEq, Inhabited

/-- a tensor's allocation -/
structure Alloc where
  region : Int
  addr : Int
  size : Int
deriving Repr, DecidableEq, Inhabited

def sectionsAt (secs : List Section) (ncores depth : Nat) : List Section :=
  (List.range ncores).filterMap fun core => secs.find? fun s => s.core = core ∧ s.depth = depth

def insideMsgs (nm : String) (r : AddrRange) (a : Alloc) : Msgs :=
  (if r.region = a.region then [] else [s!"{nm}.region:exp={a.region}:got={r.region}"]) ++
  (if a.addr ≤ r.address ∧ r.address + r.length ≤ a.addr + roundUp16 a.size then []
   else [s!"{nm}:{r.address}+{r.length}:outside:{a.addr}+{a.size}"])

def alignedMsgs (nm : String) (r : AddrRange) : Msgs :=
  (if r.address % 16 = 0 then [] else [s!"{nm}.address%16:{r.address}"]) ++
  (if r.length % 16 = 0 then [] else [s!"{nm}.length%16:{r.length}"])

def showRanges (l : List AddrRange) : String :=
  ",".intercalate (l.map fun r => s!"{r.region}:{r.address}:{r.length}")

/-- `src`: the encoded weight tensor in memory; `buffer`: the buffered copy the operation reads instead (if any);
    `scaleT`: a stand-alone scale tensor with its own sections (if any) -/
def weightsMsgs (ncores depth : Nat) (secs : List Section) (src : Alloc) (buffer : Option Alloc)
    (scaleT : Option (Alloc × List Section)) (weights biases : List AddrRange) : Msgs :=
  let here := sectionsAt secs ncores depth
  let first : Int := match here with | s :: _ => s.offset | [] => 0
  let base (s : Section) : Int := match buffer with
    | none => src.addr + s.offset
    | some b => b.addr + ((s.offset : Int) - first)
  let wAlloc := buffer.getD src
  let expW : List AddrRange := here.map fun s => ⟨wAlloc.region, base s + s.weightOffset, roundUp16 s.weightBytes⟩
  let expB : List (Option AddrRange) := here.map fun s =>
    match scaleT with
    | none => some ⟨wAlloc.region, base s, roundUp16 s.scaleBytes⟩
    | some (sa, ssecs) =>
      (ssecs.find? fun t => t.core = s.core ∧ t.depth = depth).map fun t => ⟨sa.region, sa.addr + t.offset, roundUp16 t.scaleBytes⟩
  let bAlloc := match scaleT with | some (sa, _) => sa | none => wAlloc
  (if expW = weights then [] else [s!"weights:exp={showRanges expW}:got={showRanges weights}"]) ++
  (if expB.all (·.isSome) then
     let e := expB.filterMap id
     if e = biases then [] else [s!"scales:exp={showRanges e}:got={showRanges biases}"]
   else ["scales:section-missing-in-scale-tensor"]) ++
  (weights.flatMap fun r => insideMsgs "weights" r wAlloc ++ alignedMsgs "weights" r) ++
  (biases.flatMap fun r => insideMsgs "scales" r bAlloc ++ alignedMsgs "scales" r)

/-- bytes a core fetches from its section, counted from the section's start -/
def sectionSpan (s : Section) : Int :=
  max (roundUp16 s.scaleBytes) ((s.weightOffset : Int) + roundUp16 s.weightBytes)

def weightDmaMsgs (ncores depth : Nat) (secs : List Section) (src buffer : Alloc) (s d : AddrRange) : Msgs :=
  let here := sectionsAt secs ncores depth
  match here with
  | [] => ["dma:no-section-for-this-slice"]
  | f :: _ =>
    chk "dma.src.address" (src.addr + f.offset) s.address ++ chk "dma.dst.address" buffer.addr d.address ++
    chk "dma.lengths" s.length d.length ++
    (if s.length % 16 = 0 then [] else [s!"dma.length%16:{s.length}"]) ++
    insideMsgs "dma.src" s src ++ insideMsgs "dma.dst" d buffer ++
    (here.flatMap fun t =>
      let need : Int := (t.offset : Int) - f.offset + sectionSpan t
      if need ≤ s.length then [] else [s!"dma.covers:core{t.core}:needs={need}:length={s.length}"])

/-- destination of a DMA: `isLut` = the destination tensor is a lookup table -/
def dmaDestMsgs (isLut : Bool) (lutBase lutSize : Int) (dstT : Alloc) (d : AddrRange) : Msgs :=
  if isLut then
    chk "dma.dst.region" 0x103 d.region ++
    (if lutBase ≤ d.address ∧ d.address + d.length ≤ lutBase + lutSize then []
     else [s!"dma.dst:{d.address}+{d.length}:outside-lut-area:{lutBase}+{lutSize}"])
  else insideMsgs "dma.dst" d dstT

/-! ## (d) clamp bounds of a RELU-family activation -/

/-- real-valued bound `f` (bit pattern) in the quantisation (scale, zero point): `zp + round(float32(f) / float32(scale))` -/
def quantBound (f scale : Nat) (zp : Int) : Option Int := (FloatExact.qdiv f scale).map (zp + ·)

/-- TensorFlow Lite's `CalculateActivationRangeQuantized` for arbitrary real bounds, intersected with `[lo, hi]` -/
def activationRangeGen (fmin fmax : Option Nat) (scale : Nat) (zp lo hi : Int) : Option (Int × Int) := do
  let a ← match fmin with | some f => (quantBound f scale zp).map (max lo) | none => some lo
  let b ← match fmax with | some f => (quantBound f scale zp).map (min hi) | none => some hi
  some (a, b)

/-- bit patterns of 0.0, 1.0, -1.0, 6.0 -/
def bits0 : Nat := 0
def bits1 : Nat := 0x3FF0000000000000
def bitsM1 : Nat := 0xBFF0000000000000
def bits6 : Nat := 0x4018000000000000

/-- fused activation code of the three standard functions (1 RELU, 2 RELU_N1_TO_1, 3 RELU6) from its real bounds -/
def fafCode (fmin fmax : Option Nat) : Option Nat :=
  if fmin = some bits0 ∧ fmax = none then some 1
  else if fmin = some bitsM1 ∧ fmax = some bits1 then some 2
  else if fmin = some bits0 ∧ fmax = some bits6 then some 3
  else if fmin = none ∧ fmax = none then some 0
  else none

/-- binary32 bit pattern of a float32-representable binary64 pattern (what `Requant.activationRange` takes) -/
def f32Bits (bits : Nat) : Option Nat := do
  let v ← FloatExact.toF32 bits
  if v.m = 0 ∨ v.neg then none else
  let l := Nat.log2 v.m
  if l ≠ 23 then none else
  let biased : Int := v.e + 23 + 127
  if biased < 1 ∨ biased > 254 then none else some (biased.toNat * 2 ^ 23 + (v.m - 2 ^ 23))

/-- expected (`ACTIVATION_MIN`, `ACTIVATION_MAX`) for a RELU-family clamp on an OFM tensor with quantisation
    (`scale`, `zp`) of type `dt`: `Requant.activationRange` where it is defined, the general formula otherwise -/
def expectedClamp (fmin fmax : Option Nat) (scale : Option Nat) (zp : Int) (dt : DType) : Option (Int × Int) :=
  let lo := max dt.minValue (-32768)
  let hi := min dt.maxValue 32767
  let sc := scale.getD bits1
  match fafCode fmin fmax, f32Bits sc with
  | some code, some s32 => Requant.activationRange code s32 zp lo hi
  | _, _ => activationRangeGen fmin fmax sc zp lo hi

/-- `qmin`, `qmax`: the clamp bounds of the real operation, quantised with the real operation's OFM quantisation
    (what the register generator writes before it intersects with the type range) -/
def clampMsgs (fmin fmax : Option Nat) (scale : Option Nat) (zp : Int) (dt : DType) (qmin qmax : Option Int) : Msgs :=
  if dt.bits = 32 then [] else
  let lo := max dt.minValue (-32768)
  let hi := min dt.maxValue 32767
  match expectedClamp fmin fmax scale zp dt with
  | none => ["clamp:expected-range-not-computable"]
  | some (emin, emax) =>
    -- the two formulations of the reference range (`Requant.activationRange` for the standard functions, the general
    -- formula over exact float32 arithmetic) must agree wherever both are defined
    (match activationRangeGen fmin fmax (scale.getD bits1) zp lo hi with
     | some g => if g = (emin, emax) then [] else [s!"clamp:spec-formulas-disagree:{g.1}:{g.2}:{emin}:{emax}"]
     | none => []) ++
    chk "activation.min" emin (max (qmin.getD lo) lo) ++ chk "activation.max" emax (min (qmax.getD hi) hi)

/-! ## every feature map stays inside the allocation of the tensor it was created from (`Spec/TensorBounds.lean`) -/

def defaultStrides (fm : FM) : Int × Int × Int :=
  match fm.strides with
  | some s => (s.height, s.width, s.depth)
  | none =>
    let es := fm.dtype.bytes
    if fm.nhcwb16 then (es * fm.shape.width * roundUp16 fm.shape.depth, 16 * es, 16 * es * fm.shape.width)
    else (fm.shape.width * fm.shape.depth * es, fm.shape.depth * es, es)

def footprintMsgs (nm : String) (fm : FM) (addr size : Int) : Msgs :=
  let (sy, sx, sc) := defaultStrides fm
  let ints := fm.addresses ++ [fm.height0, fm.height1, fm.width0, sx, sy, sc, fm.shape.height, fm.shape.width, fm.shape.depth, addr, size]
  if ints.any (· < 0) then [nm ++ ":negative-field"] else
  let d : Decode.FM := { region := fm.region.toNat, base := fm.addresses.map Int.toNat, height0 := fm.height0.toNat,
                         height1 := fm.height1.toNat, width0 := fm.width0.toNat, strideX := sx.toNat, strideY := sy.toNat,
                         strideC := sc.toNat, height := fm.shape.height.toNat, width := fm.shape.width.toNat,
                         depth := fm.shape.depth.toNat, elemBytes := fm.dtype.bytes.toNat, signed := fm.dtype.signed,
                         nhcwb16 := fm.nhcwb16, zeroPoint := 0 }
  if TensorBounds.footprintInsideAllocation d addr.toNat size.toNat then [] else
  match TensorBounds.firstOutside (Footprint.fmPieces d 0 0 0) addr.toNat size.toNat with
  | some p => [s!"{nm}:bytes[{p.addr},{p.addr + p.len}):outside:[{addr},{addr + size})"]
  | none => [nm ++ ":outside"]

/-- insertion into a list sorted by stride -/
def insertDim (d : Int × Int) : List (Int × Int) → List (Int × Int)
  | [] => [d]
  | x :: xs => if d.1 ≤ x.1 then d :: x :: xs else x :: insertDim d xs

def nestedFrom (prevSpan : Int) : List (Int × Int) → Bool
  | [] => true
  | (st, ext) :: rest => decide (st ≥ prevSpan) && nestedFrom (st * ext) rest

/-- Distinct elements of an OFM are written to distinct bytes.  Decided through a sufficient criterion every layout Vela
    uses meets (plain, transposed, multiplied strides): ordered by stride, each dimension steps over the whole span of the
    previous one, the smallest over one element. -/
def ofmInjectiveMsgs (fm : FM) : Msgs :=
  let (sy, sx, sc) := defaultStrides fm
  let es := fm.dtype.bytes
  let dims : List (Int × Int) :=
    if fm.nhcwb16 then [(sy, fm.shape.height), (sx, fm.shape.width), (sc, (fm.shape.depth + 15) / 16), (es, min fm.shape.depth 16)]
    else [(sy, fm.shape.height), (sx, fm.shape.width), (sc, fm.shape.depth)]
  let sorted := (dims.filter (·.2 > 1)).foldl (fun acc d => insertDim d acc) []
  if nestedFrom es sorted then [] else [s!"ofm.overlap:strides(y,x,c)={sy},{sx},{sc}:extent={fm.shape.height},{fm.shape.width},{fm.shape.depth}"]

/-- The window walk of a convolution / pooling operation stays inside the IFM extent the operation declares: the rows and
    columns the kernel visits for the OFM extent, `(ofm − 1)·stride + dilated kernel − padding`, are at most the IFM box
    (a box may be larger than what the kernel visits, never smaller: the hardware would read rows of the next stripe as if
    they were this one's).  Without IFM upscaling only. -/
def windowMsgs (op : BlockOp) : Msgs :=
  match op.kernel, op.padding with
  | some k, some p =>
    if op.kind == .elementwise ∨ op.upscale ≠ 0 then [] else
    let needH := (op.ofm.shape.height - 1) * k.strideY + (k.dilationY * (k.height - 1) + 1) - p.top - p.bottom
    let needW := (op.ofm.shape.width - 1) * k.strideX + (k.dilationX * (k.width - 1) + 1) - p.left - p.right
    (if needH ≤ op.ifm.shape.height then [] else [s!"ifm.window.height:kernel-walks={needH}:declared={op.ifm.shape.height}"]) ++
    (if needW ≤ op.ifm.shape.width then [] else [s!"ifm.window.width:kernel-walks={needW}:declared={op.ifm.shape.width}"])
  | _, _ => []

def verdict (ms : Msgs) : String := s!"{ms.length} " ++ "~".intercalate (ms.take 6)

end VelaVerif.NpuOpSpec
