import VelaVerif.Model.TfliteTree
import VelaVerif.Model.TfliteWriter
import VelaVerif.Model.TfliteReader
/-!
# What a written file has to say (C11 / C14 at the level of the writer and the reader), as checkers on real outputs

`conforms d t` — the file `t` says what the graph `d` says. The *meaning* of the graph (which operators are written, their
TFLite operand order, the original weights behind reshaped clones, which outputs are virtual) is shared vocabulary with the
model (`Writer.prepSub`, `clearVirtual`, `removeVirtual`); every *layout decision* of the writer — the order of tensors and
operator codes, tensor / buffer / opcode numbering, buffer sharing, where metadata buffers go — is **not** recomputed but
checked relationally on the file:

1. the file is well formed: every opcode / tensor / buffer index is in range, buffer 0 carries no data, a buffer other than 0
   belongs to one tensor or one metadata entry only;
2. subgraph by subgraph and operator by operator (same count, same order): the operator code entry the operator points to has
   the builtin code, custom code and version of the graph's operator; the option payload is the graph's; the operand lists
   have the same length with `−1` exactly where the graph has `None`;
3. the pairs (graph tensor, file tensor index) read off the operand lists and the subgraph input / output lists form a
   one-to-one relation (no two graph tensors behind one file tensor, no graph tensor written twice);
4. related tensors agree in name, shape (the current shape if its element count differs from the original one's, else the
   original shape), element type, every quantisation field (presence and value of min / max / scale / zero point,
   quantized_dimension), variable flag and constant data (the content of the tensor's buffer);
5. a file tensor no operand refers to is a copy of a placeholder output of that subgraph;
6. subgraph inputs are the original inputs, outputs the output list expanded by the original positions, virtual outputs gone;
7. metadata: the graph's entries in order, then `vela_version`, then `OfflineMemoryAllocation` unless the graph already carries
   an entry of that name (as `bytes`); the generated plan has the header `[0, #subgraphs, #tensors]` and, for every related
   tensor, its address when it lives in Scratch / Scratch_fast and −1 otherwise;
8. header: file identifier, schema version, description.

`readOk` — what must hold of the graph the reader built, stated on the reader's own output: the representable range attached
to a quantised tensor is the full two's-complement / unsigned range of its element type (`fullRange`), metadata names are
`bytes`, a reshaped clone keeps the quantisation (every field), element type and range of the tensor it was cloned from.  `metadataKept t0 t1` — file to file (reader then writer, nothing in between): the entries of the source in order,
`vela_version`, and exactly one offline plan.
-/
namespace VelaVerif.Tflite.Spec
open VelaVerif.Gen
open VelaVerif.Tflite.Writer (POp PSub prepSub subgraphsToWrite clearVirtual removeVirtual numElems quantT dtypeCode omaName
  velaVersionName descriptionOf ethosU i32le)

structure Problem where
  kind : String
  detail : String
deriving Repr, DecidableEq, Inhabited

def hexDigit (n : Nat) : Char := "0123456789abcdef".toList.getD n '?'
def showName (b : Bytes) : String := String.ofList (b.flatMap fun x => [hexDigit (x / 16 % 16), hexDigit (x % 16)])

/-- the operator as it has to appear in the file -/
structure LOp where
  builtin : Nat
  custom : Option Bytes
  version : Int
  inputs : List (Option Nat)
  outputs : List Nat
  intermediates : List Nat
  payload : Payload
deriving Repr, Inhabited

def lowerOp (p : POp) : Option LOp :=
  match p.info.inv with
  | none => none
  | some (tf, hasSer, _) =>
    some { builtin := tf,
           custom := if p.info.name == "Custom" then some p.custom else if p.info.name == "CustomNpuOp" then some ethosU else none,
           version := p.version, inputs := p.inputs, outputs := p.outputs.filterMap id, intermediates := p.intermediates.filterMap id,
           payload := if hasSer then
               { optType := if p.payload.opts.isSome then p.payload.optType else 0, opts := p.payload.opts, custom := p.payload.custom,
                 customFormat := if p.payload.custom.isSome then p.payload.customFormat else 0 }
             else { optType := 0, opts := none, custom := none, customFormat := 0 } }

abbrev Rel := List (Nat × Nat)

def relOne (what : String) (r : Rel) (g : Nat) (f : Int) : Rel × List Problem :=
  if f < 0 then (r, [⟨"index-range", s!"{what}: file index {f}"⟩]) else ((g, f.toNat) :: r, [])

/-- pair up a graph operand list with a file index list -/
def relList (what : String) (r : Rel) : List (Option Nat) → List Int → Rel × List Problem
  | [], [] => (r, [])
  | none :: gs, f :: fs =>
    let (r1, ps) := relList what r gs fs
    (r1, (if f == -1 then [] else [⟨"operand-presence", s!"{what}: absent in the graph, file index {f}"⟩]) ++ ps)
  | some g :: gs, f :: fs =>
    let (r0, p0) := relOne what r g f
    let (r1, ps) := relList what r0 gs fs
    (r1, p0 ++ ps)
  | gs, fs => (r, if gs.length == fs.length then [] else [⟨"operand-count", s!"{what}: graph {gs.length} file {fs.length}"⟩])

def optList (l : Option (List Int)) : List Int := l.getD []

/-- the shape the file has to carry -/
def writtenShape (t : TensorD) : List Int := if numElems t.originalShape ≠ numElems t.shape then t.shape else t.originalShape

def tensorProblems (what : String) (m : ModelT) (g : TensorD) (f : TensorT) : List Problem :=
  let p (c : Bool) (k : String) : List Problem := if c then [] else [⟨k, what⟩]
  p (f.name == some g.name) "tensor-name" ++
  p (f.shape == some (writtenShape g)) "tensor-shape" ++
  p (some f.type == dtypeCode g.dtype) "tensor-type" ++
  p (f.quant == g.quant.map quantT) "tensor-quantisation" ++
  p (f.isVariable == g.isVariable) "tensor-variable" ++
  (match m.buffers[f.buffer]? with
   | none => [⟨"buffer-range", what⟩]
   | some b => p (b.data == g.values) "tensor-data") ++
  p (f.extra.isEmpty && (f.quant.map (·.extra.isEmpty)).getD true) "tensor-extra-fields"

def oneToOne (r : Rel) : List Problem :=
  r.flatMap fun a => r.filterMap fun b =>
    if a.1 == b.1 && a.2 != b.2 then some ⟨"tensor-written-twice", s!"graph tensor {a.1} is file tensors {a.2} and {b.2}"⟩
    else if a.1 != b.1 && a.2 == b.2 then some ⟨"tensors-merged", s!"graph tensors {a.1} and {b.1} are file tensor {a.2}"⟩
    else none

def codeProblems (what : String) (m : ModelT) (g : LOp) (f : OperatorT) : List Problem :=
  match m.opcodes[f.opcodeIndex]? with
  | none => [⟨"opcode-range", what⟩]
  | some c =>
    let b := if c.builtin == 0 then c.deprecated else c.builtin
    (if b == (g.builtin : Int) then [] else [⟨"builtin-code", s!"{what}: graph {g.builtin} file {b}"⟩]) ++
    (if c.deprecated == (if g.builtin < 127 then (g.builtin : Int) else 127) then [] else [⟨"deprecated-code", what⟩]) ++
    (if c.version == g.version then [] else [⟨"version", s!"{what}: graph {g.version} file {c.version}"⟩]) ++
    (if c.custom == g.custom then [] else [⟨"custom-code", what⟩])

def subgraphProblems (d : Desc) (m : ModelT) (k : Nat) (ps : PSub) (f : SubGraphT) : Rel × List Problem :=
  let sg := ps.sg
  let ops := (clearVirtual ps.ops sg.virtualOutputs).filter (!·.ignored)
  let outs := removeVirtual sg.outputTensors sg.virtualOutputs
  let outs2 : List Nat := match sg.originalOutputPositions with
    | none => outs
    | some pos => pos.filterMap (outs[·]?)
  let w := s!"subgraph {k}"
  let p0 : List Problem :=
    (if f.operators.length == ops.length then [] else [⟨"operator-count", s!"{w}: graph {ops.length} file {f.operators.length}"⟩]) ++
    (if f.name == some sg.name then [] else [⟨"subgraph-name", w⟩])
  let (r1, p1) := relList s!"{w} inputs" [] (sg.originalInputs.map some) (optList f.inputs)
  let (r2, p2) := relList s!"{w} outputs" r1 (outs2.map some) (optList f.outputs)
  let (r3, p3) := (ops.zip f.operators).zipIdx.foldl (fun (acc : Rel × List Problem) x =>
      let ((g, fo), j) := x
      let wo := s!"{w} operator {j}"
      match lowerOp g with
      | none => (acc.1, acc.2 ++ [⟨"not-serialisable", wo⟩])
      | some lg =>
        let (ra, pa) := relList s!"{wo} inputs" acc.1 lg.inputs (optList fo.inputs)
        let (rb, pb) := relList s!"{wo} outputs" ra (lg.outputs.map some) (optList fo.outputs)
        let (rc, pc) := relList s!"{wo} intermediates" rb (lg.intermediates.map some) (optList fo.intermediates)
        (rc, acc.2 ++ codeProblems wo m lg fo ++ pa ++ pb ++ pc ++
          (if fo.payload == lg.payload then [] else [⟨"option-payload", wo⟩]) ++
          (if fo.mutating == some [] && fo.extra.isEmpty then [] else [⟨"operator-extra-fields", wo⟩])))
    (r2, [])
  let r := r3.eraseDups
  let p4 := r.flatMap fun (g, i) =>
    match d.tensors[g]?, f.tensors[i]? with
    | some gt, some ft => tensorProblems s!"{w} tensor {i} ({showName gt.name})" m gt ft
    | none, _ => [⟨"graph-reference", s!"{w}: graph tensor {g}"⟩]
    | _, none => [⟨"index-range", s!"{w}: file tensor {i} of {f.tensors.length}"⟩]
  -- file tensors nobody refers to: copies of placeholder outputs
  let placeholders : List Nat := (ps.ops.filter (·.placeholder)).flatMap fun o => o.outputs.filterMap id
  let p5 := (List.range f.tensors.length).flatMap fun i =>
    if r.any (·.2 == i) then [] else
    match f.tensors[i]? with
    | none => []
    | some ft =>
      if placeholders.any fun g => match d.tensors[g]? with
        | some gt => (tensorProblems "" m gt ft).isEmpty
        | none => false
      then [] else [⟨"unexplained-tensor", s!"{w} tensor {i}"⟩]
  (r, p0 ++ p1 ++ p2 ++ p3 ++ oneToOne r ++ p4 ++ p5)

def isScratchMem (t : TensorD) : Bool := t.memType == WriterTbl.memTypeScratch || t.memType == WriterTbl.memTypeScratchFast

def le32 (bytes : List Nat) : List Int :=
  let rec go : Nat → List Nat → List Int
    | 0, _ => []
    | fuel + 1, a :: b :: c :: e :: rest =>
      let u := a + 256 * b + 65536 * c + 16777216 * e
      (if u ≥ 2147483648 then (u : Int) - 4294967296 else (u : Int)) :: go fuel rest
    | _, _ => []
  go bytes.length bytes

def metadataProblems (d : Desc) (m : ModelT) (rels : List (Rel × Nat)) : List Problem :=
  let have_ := d.metadata.any fun x => x.nameIsBytes && x.name == omaName
  let expected : List (Bytes × Option (Option Data)) :=
    d.metadata.map (fun x => (x.name, some x.data)) ++ [(velaVersionName, some (some (.raw d.version)))] ++
    (if have_ then [] else [(omaName, none)])
  let entry (e : Bytes × Option (Option Data)) (f : MetadataT) : List Problem :=
    (if f.name == some e.1 then [] else [⟨"metadata-name", showName e.1⟩]) ++
    (match m.buffers[f.buffer]? with
     | none => [⟨"buffer-range", "metadata " ++ showName e.1⟩]
     | some b =>
       match e.2 with
       | some data => if b.data == data then [] else [⟨"metadata-data", showName e.1⟩]
       | none =>
         -- the generated offline plan
         match b.data with
         | some (.raw bytes) =>
           let v := le32 bytes
           let total := (rels.map (·.2)).sum
           (if v.take 3 == [0, (rels.length : Int), (total : Int)] && v.length == 3 + total && bytes.length == 4 * v.length then []
            else [⟨"offline-plan-header", s!"{v.take 3} length {v.length}"⟩]) ++
           (rels.zipIdx.flatMap fun ((r, _), k) =>
             let base := 3 + ((rels.take k).map (·.2)).sum
             r.filterMap fun (g, i) =>
               match d.tensors[g]?, v[base + i]? with
               | some gt, some off =>
                 let want : Int := if isScratchMem gt then gt.address.getD 0 else -1
                 if off == want then none else some ⟨"offline-plan-offset", s!"subgraph {k} tensor {i}: plan {off} graph {want}"⟩
               | _, _ => some ⟨"offline-plan-offset", s!"subgraph {k} tensor {i}"⟩)
         | _ => [⟨"offline-plan-data", ""⟩])
  (if m.metadata.length == expected.length then [] else [⟨"metadata-count", s!"expected {expected.length} file {m.metadata.length}"⟩]) ++
  ((expected.zip m.metadata).flatMap fun (e, f) => entry e f)

def wellFormed (m : ModelT) : List Problem :=
  (match m.buffers[0]? with
   | some b => if b.data.isNone then [] else [⟨"buffer-0-not-empty", ""⟩]
   | none => [⟨"buffer-0-missing", ""⟩]) ++
  (let users : List Nat := (m.subgraphs.flatMap fun s => s.tensors.map (·.buffer)) ++ m.metadata.map (·.buffer)
   let nz := users.filter (· != 0)
   if nz.eraseDups.length == nz.length then [] else [⟨"buffer-shared", s!"{nz}"⟩]) ++
  (if m.extra.isEmpty && m.opcodes.all (·.extra.isEmpty) && m.buffers.all (·.extra.isEmpty) && m.metadata.all (·.extra.isEmpty)
      && m.subgraphs.all (·.extra.isEmpty) then [] else [⟨"extra-fields", ""⟩])

def conforms (d : Desc) (m : ModelT) : List Problem :=
  match (subgraphsToWrite d).mapM (prepSub d.tensors) with
  | .error e => [⟨"outside-domain", e⟩]
  | .ok subs =>
    let hdr : List Problem :=
      (if m.fileId == WriterTbl.fileIdentifier then [] else [⟨"file-identifier", m.fileId⟩]) ++
      (if m.version == WriterTbl.tfliteVersion then [] else [⟨"schema-version", s!"{m.version}"⟩]) ++
      (if m.description == some (descriptionOf d.version) then [] else [⟨"description", ""⟩]) ++
      (if m.subgraphs.length == subs.length then [] else [⟨"subgraph-count", s!"graph {subs.length} file {m.subgraphs.length}"⟩])
    let per := (subs.zip m.subgraphs).zipIdx.map fun ((ps, f), k) => (subgraphProblems d m k ps f, f.tensors.length)
    hdr ++ wellFormed m ++ per.flatMap (·.1.2) ++ metadataProblems d m (per.map fun x => (x.1.1, x.2))

/-! ## the domain on which this checker and the writer agree (`Props/C11Writer.conforms_write`: on it `conforms d (write d) = []`)

Outside it the checker is stricter than the writer (each clause has a `_witness` in Props/C11Writer.lean); the harness counts how
many real descriptions are inside (`wdomain`). -/

/-- the subgraph outputs as `subgraphProblems` reads them: virtual outputs removed, original positions expanded -/
def specOuts2 (ps : PSub) : List Nat :=
  match ps.sg.originalOutputPositions with
  | none => removeVirtual ps.sg.outputTensors ps.sg.virtualOutputs
  | some pos => pos.filterMap ((removeVirtual ps.sg.outputTensors ps.sg.virtualOutputs)[·]?)

/-- every subgraph output that is left after the virtual outputs were removed is listed at one of the original output positions (or
    is written anyway: an original input, an operand of a written operator or of a Placeholder). Since the repair C11-60 the writer
    puts every remaining output into the tensor table; one that the expanded output list does not name would be a tensor of the file
    nothing refers to. (Before the repair the clause was the opposite inclusion: a listed output that was not written was dropped.) -/
def outsListedB (ps : PSub) : Bool :=
  (Writer.sgOuts ps).all fun g => (specOuts2 ps).contains g || (Writer.tensorSet ps.sg.originalInputs (Writer.sgOps ps) []).contains g

/-- a Placeholder has no operands or intermediates of its own -/
def placeholdersPlainB (ps : PSub) : Bool :=
  ps.ops.all (fun p => !(p.placeholder && p.ignored) || (p.inputs ++ p.intermediates).all (· == none))

def sgDomainB (ps : PSub) : Bool := outsListedB ps && placeholdersPlainB ps

/-- the domain of `conforms_write`, as a checker: at least one subgraph is written (otherwise buffer 0 is the `vela_version`
buffer), every remaining subgraph output is listed at an original output position (or written anyway), Placeholders have no operands
of their own -/
def conformsDomainB (d : Desc) : Bool :=
  !(subgraphsToWrite d).isEmpty &&
  match (subgraphsToWrite d).mapM (prepSub d.tensors) with
  | .ok subs => subs.all sgDomainB
  | .error _ => true

/-- the first clause of the domain a description leaves (`in` when none) -/
def domainClause (d : Desc) : String :=
  if (subgraphsToWrite d).isEmpty then "no-written-subgraph" else
  match (subgraphsToWrite d).mapM (prepSub d.tensors) with
  | .ok subs =>
    if !subs.all outsListedB then "unlisted-output"
    else if !subs.all placeholdersPlainB then "placeholder-operand" else "in"
  | .error _ => "in"

/-! ## the reader's output -/

/-- the full range of an integer element type: unsigned `[0, 2^bits − 1]`, signed two's complement `[−2^(bits−1), 2^(bits−1) − 1]` -/
def fullRange (signed : Bool) (bits : Nat) : Int × Int :=
  if signed then (-((2 : Int) ^ (bits - 1)), (2 : Int) ^ (bits - 1) - 1) else (0, (2 : Int) ^ bits - 1)

/-- (signed?, bits) of the element types whose tensors carry a representable range -/
def intType (dtype : String) : Option (Bool × Nat) :=
  match dtype with
  | "uint8" => some (false, 8)
  | "int8" => some (true, 8)
  | "int16" => some (true, 16)
  | "int32" => some (true, 32)
  | "int64" => some (true, 64)
  | _ => none

def readOk (d : Desc) : List Problem :=
  (d.tensors.zipIdx.flatMap fun (t, i) =>
    match t.range, intType t.dtype with
    | some r, some (s, b) => if r == fullRange s b then [] else [⟨"representable-range", s!"tensor {i} ({showName t.name}) {t.dtype}: {r.1}..{r.2}"⟩]
    | some r, none => [⟨"representable-range", s!"tensor {i} {t.dtype}: {r.1}..{r.2}"⟩]
    | none, some _ => if t.quant.isSome then [⟨"representable-range", s!"tensor {i} {t.dtype}: none"⟩] else []
    | none, none => []) ++
  (d.metadata.flatMap fun x => if x.nameIsBytes then [] else [⟨"metadata-name-type", showName x.name⟩]) ++
  -- a reshaped clone of a constant describes the same numbers: quantisation and element type of its source
  (d.tensors.zipIdx.flatMap fun (t, i) =>
    match t.src.bind (d.tensors[·]?) with
    | some s => if t.quant == s.quant && t.dtype == s.dtype && t.range == s.range then []
                else [⟨"clone-quantisation", s!"tensor {i} ({showName t.name})"⟩]
    | none => [])

def metaData (m : ModelT) (f : MetadataT) : Option (Option Data) := (m.buffers[f.buffer]?).map fun b =>
  match b.data with
  | some d => if d.len == 0 then none else some d
  | none => none

/-- file to file: the source's named metadata entries in order, then `vela_version`, and exactly one offline plan in total -/
def metadataKept (version : Bytes) (t0 t1 : ModelT) : List Problem :=
  let src := t0.metadata.filter (·.name.isSome)
  let n := src.length
  let kept := (src.zip t1.metadata).flatMap fun (a, b) =>
    if a.name == b.name && metaData t0 a == metaData t1 b then [] else [⟨"metadata-changed", showName (a.name.getD [])⟩]
  let plans := (t1.metadata.filter (·.name == some omaName)).length
  let plans0 := (t0.metadata.filter (·.name == some omaName)).length
  (if t1.metadata.length < n + 1 then [⟨"metadata-lost", s!"source {n} file {t1.metadata.length}"⟩] else []) ++ kept ++
  (match t1.metadata[n]? with
   | some v => if v.name == some velaVersionName && metaData t1 v == some (some (.raw version)) then [] else [⟨"vela-version-entry", ""⟩]
   | none => []) ++
  (if plans == (if plans0 == 0 then 1 else plans0) then [] else [⟨"offline-plan-count", s!"source {plans0} file {plans}"⟩])

end VelaVerif.Tflite.Spec
