/-!
# Spec for live ranges, judged on the implementation's own `LiveRangeGraph`

Independent of `Model/LiveRange.lean`: the input is (a) the ranges Vela computed for the arena
(`start_time`, `end_time`, identity of the `LiveRange` object, per tensor equivalence id) and (b) the sequence of
accesses the compiled network performs — the high-level commands of every NPU subgraph in stream order, in the
position of their call-out, and the CPU passes — each with the time index Vela gave its operation
(`op_info.time_index`, `cps.time`).  Only tensors that live in the arena are listed.

Time has the granularity of the extraction: an operation at index `t` owns the ticks `t` (body) and `t+1`
(tail; the tick at which the next operation's pre-buffered weights are fetched).  The requirements:

* `uncovered`  — every access happens inside the range of the tensor it touches:
  feature maps of a stripe / memory copy / CPU pass: `[t, t+1]`;
  the weight buffer a stripe reads: `[t, t]`, and `[t, t+1]` for the last stripe of its operation;
  the DMA that fills a weight buffer: `[t, t]`, and `[t-1, t]` if the scheduler decided to pre-buffer it
  under the previous operation (`pre_buffer`).
* `ioProblems` — network inputs are live from tick 0, network outputs until the tick after the last operation.
* `regressions` — ticks follow the execution order: along the command sequence the time index never decreases
  (operations whose commands interleave — a cascade — must therefore share one index).
* `clobbers`   — two different tensors may share one `LiveRange` object (hence one address) only if no value is
  lost: between the write of a value and each read of it no *other* operation writes a different tensor of
  the same `LiveRange` — except a copy *of that value* inside the range object (source and destination are the
  same bytes; Vela emits a NOP for it), which changes nothing.  (Positions are command positions, so this is finer than ticks across operations; the
  order of accesses inside one operation — and inside one cascade, whose operations share a time index — is the
  subject of C03/C10, not of this Spec.)
-/
namespace VelaVerif.LiveRangeSpec

/-- the implementation's range for one tensor (keyed by equivalence id) -/
structure RealRange where
  tensor : Nat
  /-- identity of the `LiveRange` object -/
  lr : Nat
  start : Int
  end_ : Int
deriving Repr, DecidableEq, Inhabited

inductive Kind where
  | stripe    -- NpuStripe
  | wdma      -- DMA into a weight buffer
  | copy      -- DMA / NOP of a Memcpy operation (feature map to feature map)
  | cpu       -- a CPU pass
deriving Repr, DecidableEq, Inhabited

structure Cmd where
  kind : Kind
  /-- identity of the operation (scheduled operation / CPU pass), unique in the network -/
  op : Nat
  /-- time index of the operation -/
  time : Nat
  reads : List Nat
  writes : List Nat
  /-- the arena weight buffer a stripe reads -/
  wbuf : Option Nat
  /-- `wdma`: the destination has `pre_buffer` set -/
  pre : Bool
deriving Repr, DecidableEq, Inhabited

structure Net where
  ranges : List RealRange
  cmds : List Cmd
  inputs : List Nat
  outputs : List Nat
deriving Repr, Inhabited

def rangeOf (n : Net) (t : Nat) : Option RealRange := n.ranges.find? (fun r => r.tensor == t)

/-- a requirement: tensor `tensor` must be live throughout `[lo, hi]` -/
structure Need where
  tensor : Nat
  lo : Int
  hi : Int
deriving Repr, DecidableEq, Inhabited

def Need.met (n : Net) (d : Need) : Bool :=
  match rangeOf n d.tensor with
  | some r => decide (r.start ≤ d.lo) && decide (d.hi ≤ r.end_)
  | none => false

/-- is there a later stripe of the same operation? -/
def laterStripe (c : Cmd) (rest : List Cmd) : Bool :=
  rest.any (fun d => d.kind == .stripe && d.op == c.op)

/-- the requirements of one command, given the commands that follow it -/
def needsOf (c : Cmd) (rest : List Cmd) : List Need :=
  let t : Int := c.time
  match c.kind with
  | .stripe =>
    (c.reads ++ c.writes).map (fun x => ⟨x, t, t + 1⟩) ++
    (match c.wbuf with
     | some w => [⟨w, t, if laterStripe c rest then t else t + 1⟩]
     | none => [])
  | .wdma => c.writes.map (fun x => ⟨x, if c.pre then t - 1 else t, t⟩)
  | .copy => (c.reads ++ c.writes).map (fun x => ⟨x, t, t + 1⟩)
  | .cpu => (c.reads ++ c.writes).map (fun x => ⟨x, t, t + 1⟩)

def allNeeds : List Cmd → List Need
  | [] => []
  | c :: rest => needsOf c rest ++ allNeeds rest

def uncovered (n : Net) : List Need := (allNeeds n.cmds).filter (fun d => !d.met n)

/-- last tick of the last operation -/
def lastTick (n : Net) : Nat := n.cmds.foldl (fun m c => max m (c.time + 1)) 0

def ioProblems (n : Net) : List Need :=
  (n.inputs.map (fun x => (⟨x, 0, 0⟩ : Need)) ++
   n.outputs.map (fun x => (⟨x, (lastTick n : Int) + 1, (lastTick n : Int) + 1⟩ : Need))).filter (fun d => !d.met n)

/-- commands whose time index is smaller than that of the command executed just before them -/
def regressionsFrom : Nat → List Cmd → List (Cmd × Nat)
  | _, [] => []
  | prev, c :: rest => (if c.time < prev then [(c, prev)] else []) ++ regressionsFrom c.time rest

def regressions (n : Net) : List (Cmd × Nat) := regressionsFrom 0 n.cmds

def lrOf (n : Net) (t : Nat) : Option Nat := (rangeOf n t).map (·.lr)

/-- Walking backwards from a read of `t` (range object `l`) by operation `op`: `before` holds the earlier commands,
    nearest first.  Stops at the command that wrote the value; reports a foreign write to the same range. -/
def clobberedBy (n : Net) (t l op : Nat) : List Cmd → Option Cmd
  | [] => none
  | c :: earlier =>
    -- a copy whose source `t` and destination share the range object (a Memcpy that became a NOP: MEAN / RESHAPE over a
    -- unit axis at a subgraph edge) rewrites the bytes with their own content: the value of `t` is not lost
    if c.op != op && !(c.kind == .copy && c.reads.contains t) && c.writes.any (fun y => y != t && lrOf n y == some l) then some c
    else if c.writes.contains t then none
    else clobberedBy n t l op earlier

/-- `(reader, tensor, clobbering command)` triples; `before` = commands already executed, nearest first -/
def clobbersFrom (n : Net) : List Cmd → List Cmd → List (Cmd × Nat × Cmd)
  | _, [] => []
  | before, c :: rest =>
    (c.reads ++ (match c.wbuf with | some w => [w] | none => [])).filterMap (fun t =>
      match lrOf n t with
      | none => none
      | some l => (clobberedBy n t l c.op before).map (fun w => (c, t, w))) ++
    clobbersFrom n (c :: before) rest

def clobbers (n : Net) : List (Cmd × Nat × Cmd) := clobbersFrom n [] n.cmds

structure Verdict where
  uncovered : List Need
  io : List Need
  clobbers : List (Cmd × Nat × Cmd)
  regressions : List (Cmd × Nat)
deriving Repr

def check (n : Net) : Verdict :=
  { uncovered := uncovered n, io := ioProblems n, clobbers := clobbers n, regressions := regressions n }

def Verdict.ok (v : Verdict) : Bool :=
  v.uncovered.isEmpty && v.io.isEmpty && v.clobbers.isEmpty && v.regressions.isEmpty

end VelaVerif.LiveRangeSpec
