/-!
# C13 outcome specification

`main` must end in one of two ways: an output model was written and the status is 0, or a Vela error
was printed and the status is non-zero. Everything else (an escaping Python exception, a silent exit,
a success status without an output file, a zero status after an error) violates the property.
-/
namespace VelaVerif.Outcome

inductive Ending where
  | returned (status : Int)          -- main() returned normally
  | velaError                        -- a VelaError escaped an entry point that does not map it (convert/convert_bytes)
  | sysExit (code : Int)
  | exception                        -- any other exception
deriving Repr, DecidableEq

structure Run where
  ending : Ending
  wroteOutput : Bool                 -- an output .tflite exists
  printedError : Bool                -- a line starting with "Error:" was printed
deriving Repr, DecidableEq

def acceptable (r : Run) : Bool :=
  match r.ending with
  | .returned s => (s == 0 && r.wroteOutput && !r.printedError) || (s != 0 && r.printedError && !r.wroteOutput)
  | .velaError => !r.wroteOutput
  | .sysExit _ => false
  | .exception => false

end VelaVerif.Outcome
