/-!
# C11 — model interface and CPU-resident operators are preserved verbatim (specification checker)

Everything here is computed from two canonical dumps produced by a plain flatbuffer walk (no Vela code):
the source model and the model Vela wrote. Names, custom codes and byte strings travel as hex strings,
float32 scales as their bit patterns, constant data as (length, digest).

The checker `check src out` reports
1. interface differences (subgraph inputs / outputs: order, name, shape, element type, quantisation);
2. for every operator of the output that is not the `ethos-u` custom operator: the unique source operator
   with the same output tensor names, and any difference in builtin code, custom code, version, option
   fields, custom option bytes, operand wiring (name, shape, type, quantisation, constant digest+length);
3. for every source operator that reaches a subgraph output: preserved exactly once, or absorbed (it lies in
   the backward slice from an Ethos-U operator's outputs down to its operands), or folded at compile time;
   never both preserved and absorbed; an absorbed slice may only end in operands of its Ethos-U operator,
   in constants, or in a foldable operator;
4. operator order of the output is topological;
5. well-formedness of the output (indices in range, tensor names unique, one producer per tensor).

Decisions about differences that are *not* violations (see design.d/C11.md):
* an absent option table equals a present table without fields (Vela always writes the operator's own table);
* a quantisation table without scale and zero point equals no table (also when it only carries min / max, which
  Vela's reader drops and no runtime reads); min / max next to a scale are compared exactly; a scale without zero-point vector
  means zero point 0 (the legal-but-unusual encodings the generator emits are judged by their meaning);
* trailing absent (-1) operands are not significant (CONV_2D [x, w] ≡ [x, w, -1]);
* source operators that reach no output may disappear;
* SHAPE, and operators all of whose operands are constants, may be replaced by a constant tensor of the same
  name, shape, type and quantisation (value correctness belongs to C01);
* Vela may create new tensors between two Ethos-U operators; they must stay private to Ethos-U operators.

The fixpoint iterations (`slice`, `foldable`) are run with a fuel and the result is *checked* to be closed
(`closedProblems`), so the soundness theorems do not depend on the fuel being sufficient.
-/
namespace VelaVerif.Preserve

structure Quant where
  scale : List Nat            -- float32 bit patterns
  zeroPoint : List Int
  min : List Nat
  max : List Nat
  qdim : Int
deriving DecidableEq, Repr, Inhabited

structure PTensor where
  name : String               -- hex of the UTF-8 name
  shape : List Int
  dtype : String
  quant : Option Quant
  const : Option (Nat × String)   -- (byte length, digest) of the backing buffer, `none` = no data
  isVariable : Bool
deriving DecidableEq, Repr, Inhabited

structure Opts where
  present : Bool              -- the operator has a builtin option table
  type : Nat                  -- BuiltinOptions union tag
  fields : List (Nat × String)   -- (slot, hex of the little-endian value without alignment padding / `v`+hex of a vector)
deriving DecidableEq, Repr, Inhabited

structure POp where
  builtin : Nat
  custom : String             -- hex custom code ("" = none)
  version : Int
  opts : Opts
  customOpts : String         -- hex
  inputs : List (Option Nat)  -- `none` = -1 (optional operand absent)
  outputs : List Nat
deriving DecidableEq, Repr, Inhabited

structure PGraph where
  tensors : List PTensor
  inputs : List Nat
  outputs : List Nat
  ops : List POp
deriving Repr, Inhabited

structure Problem where
  kind : String
  detail : String
deriving Repr, DecidableEq

/-- hex("ethos-u") -/
def ethosuHex : String := "6574686f732d75"

def isEthosU (op : POp) : Bool := op.builtin == 32 && op.custom == ethosuHex

def nameAt (g : PGraph) (i : Nat) : Option String := (g.tensors[i]?).map (·.name)

def isConstAt (g : PGraph) (i : Nat) : Bool :=
  match g.tensors[i]? with
  | some t => t.const.isSome
  | none => false

def isVarAt (g : PGraph) (i : Nat) : Bool :=
  match g.tensors[i]? with
  | some t => t.isVariable
  | none => false

def presentInputs (op : POp) : List Nat := op.inputs.filterMap id

def opInputs (g : PGraph) (j : Nat) : List Nat :=
  match g.ops[j]? with
  | some o => presentInputs o
  | none => []

def opOutputs (g : PGraph) (j : Nat) : List Nat :=
  match g.ops[j]? with
  | some o => o.outputs
  | none => []

/-! ## normal forms -/

/-- Quantisation parameters are compared by their *meaning* to a TFLite runtime:
    * a table without scale and without zero point says nothing about how to execute (≡ no table), even if it
      carries a min / max range: Vela's reader drops such a table (`parse_tensor`), the runtime ignores it;
    * an absent (or empty) zero-point vector next to a scale means zero point 0 for every scale entry. -/
def normQuant : Option Quant → Option Quant
  | some q =>
    if q.scale.isEmpty && q.zeroPoint.isEmpty then none
    else if q.zeroPoint.isEmpty && !q.scale.isEmpty then some { q with zeroPoint := q.scale.map fun _ => 0 }
    else some q
  | none => none

/-- which quantisation fields differ (for the problem text; min / max are compared exactly like scale / zero point) -/
def quantDiff (a b : Option Quant) : String :=
  match normQuant a, normQuant b with
  | some x, some y =>
    " ".intercalate ((if x.scale != y.scale then ["scale"] else []) ++ (if x.zeroPoint != y.zeroPoint then ["zero-point"] else []) ++
      (if x.min != y.min then ["min"] else []) ++ (if x.max != y.max then ["max"] else []) ++
      (if x.qdim != y.qdim then ["quantised-dimension"] else []))
  | none, none => ""
  | none, some _ => "added"
  | some _, none => "dropped"

/-- name, shape, element type, quantisation, variable flag -/
def descEq (a b : PTensor) : Bool :=
  a.name == b.name && a.shape == b.shape && a.dtype == b.dtype && normQuant a.quant == normQuant b.quant &&
  a.isVariable == b.isVariable

def optsEq (s o : Opts) : Bool :=
  if s.fields.isEmpty && o.fields.isEmpty then
    -- no field on either side: an absent table and an empty table of the operator's own type are the same
    (!s.present) || (!o.present) || s.type == o.type
  else s.present == o.present && s.type == o.type && s.fields == o.fields

def stripTrailingNone : List (Option Nat) → List (Option Nat)
  | [] => []
  | x :: xs =>
    match stripTrailingNone xs with
    | [] => if x.isNone then [] else [x]
    | ys => x :: ys

/-! ## well-formedness and topological order -/

/-- the elements that occur again later in the list -/
def dups [BEq α] : List α → List α
  | [] => []
  | x :: xs => (if xs.contains x then [x] else []) ++ dups xs

def inRange (g : PGraph) (i : Nat) : Bool := i < g.tensors.length

def wellFormedProblems (g : PGraph) : List Problem :=
  (if g.inputs.all (inRange g) then [] else [⟨"dangling-index", "subgraph input index out of range"⟩]) ++
  (if g.outputs.all (inRange g) then [] else [⟨"dangling-index", "subgraph output index out of range"⟩]) ++
  (g.ops.zipIdx.filterMap fun (o, k) =>
    if (presentInputs o).all (inRange g) && o.outputs.all (inRange g) then none
    else some ⟨"dangling-index", s!"operator {k} refers to a tensor index out of range"⟩) ++
  ((dups (g.tensors.map (·.name))).map fun n => ⟨"duplicate-tensor-name", n⟩) ++
  ((dups (g.ops.flatMap (·.outputs))).map fun t => ⟨"two-producers", s!"tensor {t}"⟩)

/-- operand `i` of the operator at position `k` may be read: subgraph input, constant, variable, or output of an
    operator at a position before `k` -/
def availBefore (g : PGraph) (k : Nat) (i : Nat) : Bool :=
  g.inputs.contains i || isConstAt g i || isVarAt g i || (g.ops.take k).any (fun o => o.outputs.contains i)

/-- the four leading operands of an Ethos-U operator are its memory tensors (command stream, read-only data,
    scratch, fast scratch), not values produced by the graph -/
def operandOk (g : PGraph) (op : POp) (k pos : Nat) (i : Option Nat) : Bool :=
  match i with
  | none => true
  | some i => (isEthosU op && pos < 4) || availBefore g k i

def opTopoOk (g : PGraph) (op : POp) (k : Nat) : Bool :=
  op.inputs.zipIdx.all fun (i, pos) => operandOk g op k pos i

def topoOk (g : PGraph) : Bool :=
  g.ops.zipIdx.all fun (op, k) => opTopoOk g op k

def topoProblems (g : PGraph) : List Problem :=
  g.ops.zipIdx.filterMap fun (op, k) =>
    if opTopoOk g op k then none
    else some ⟨"not-topological", s!"operator {k} (builtin {op.builtin}) reads a tensor that no earlier operator, input or constant provides"⟩

/-! ## interface -/

def interfacePairs (what : String) (src out : PGraph) (si oi : List Nat) : List Problem :=
  (si.zip oi).zipIdx.filterMap fun ((a, b), pos) =>
    match src.tensors[a]?, out.tensors[b]? with
    | some ta, some tb =>
      if ta.name != tb.name then some ⟨s!"interface-{what}-name", s!"position {pos}: {ta.name} vs {tb.name}"⟩
      else if ta.shape != tb.shape then some ⟨s!"interface-{what}-shape", s!"position {pos} {ta.name}: {ta.shape} vs {tb.shape}"⟩
      else if ta.dtype != tb.dtype then some ⟨s!"interface-{what}-type", s!"position {pos} {ta.name}: {ta.dtype} vs {tb.dtype}"⟩
      else if normQuant ta.quant != normQuant tb.quant then some ⟨s!"interface-{what}-quantisation", s!"position {pos} ({quantDiff ta.quant tb.quant}) {ta.name}"⟩
      else if ta.isVariable != tb.isVariable then some ⟨s!"interface-{what}-variable", s!"position {pos} {ta.name}"⟩
      else none
    | _, _ => some ⟨"dangling-index", s!"subgraph {what} position {pos}"⟩

/-- the two lists must have the same length and agree position by position. When the lengths differ because
    the output lost repeated entries of the source list, the remaining entries are still compared. -/
def interfaceList (what : String) (src out : PGraph) (si oi : List Nat) : List Problem :=
  if si.length = oi.length then interfacePairs what src out si oi
  else
    ⟨s!"interface-{what}-count", s!"source {si.length} output {oi.length}"⟩ ::
      (if si.eraseDups.length = oi.length then interfacePairs what src out si.eraseDups oi else [])

def interfaceProblems (src out : PGraph) : List Problem :=
  interfaceList "input" src out src.inputs out.inputs ++ interfaceList "output" src out src.outputs out.outputs

/-! ## compile-time foldable source operators -/

def shapeBuiltin : Nat := 77

def foldStep (g : PGraph) (S : List Nat) : List Nat :=
  (List.range g.ops.length).filter fun j =>
    S.contains j ||
    match g.ops[j]? with
    | some o => o.builtin == shapeBuiltin ||
        (presentInputs o).all fun t => isConstAt g t || S.any fun j' => (opOutputs g j').contains t
    | none => false

def iter (n : Nat) (f : α → α) (x : α) : α :=
  match n with
  | 0 => x
  | n + 1 => iter n f (f x)

/-- source operators whose value is known at compile time: SHAPE, and operators fed only by constants or by
    other such operators -/
def foldable (g : PGraph) : List Nat := iter (g.ops.length + 1) (foldStep g) []

def producedByFoldable (g : PGraph) (t : Nat) : Bool :=
  (foldable g).any fun j => (opOutputs g j).contains t

/-! ## absorbed operators -/

def sliceStep (g : PGraph) (start stop S : List Nat) : List Nat :=
  let need := start ++ ((S.flatMap (opInputs g)).filter fun t => !stop.contains t)
  (List.range g.ops.length).filter fun j => S.contains j || (opOutputs g j).any need.contains

/-- source operators on which the tensors `start` depend, not looking behind the tensors `stop` -/
def slice (g : PGraph) (start stop : List Nat) : List Nat :=
  iter (g.ops.length + 1) (sliceStep g start stop) []

def findByName (g : PGraph) (n : String) : Option Nat := g.tensors.findIdx? (·.name == n)

/-- feature-map operands of an Ethos-U operator: everything after the four memory tensors -/
def ethosuOperands (op : POp) : List Nat := (op.inputs.drop 4).filterMap id

structure Absorb where
  pos : Nat                   -- position of the Ethos-U operator in the output
  start : List Nat            -- source tensors named like its results
  stop : List Nat             -- source tensors named like its operands
  ops : List Nat              -- absorbed source operators
  unnamed : List String       -- names of its operands/results that the source does not have
deriving Repr

/-- does the output tensor `t` carry the name of a source tensor? -/
def knownInSource (src out : PGraph) (t : Nat) : Bool :=
  match nameAt out t with
  | some n => (findByName src n).isSome
  | none => false

/-- Vela may create new tensors *between two Ethos-U operators* (e.g. `<name>_sub` when a concatenation is written
    in place across a CPU detour). Such an operand is replaced by the operands of the Ethos-U operator producing it. -/
def expandOperands (src out : PGraph) : Nat → List Nat → List Nat
  | 0, ts => ts
  | fuel + 1, ts => ts.flatMap fun t =>
      if knownInSource src out t then [t] else
      match out.ops.find? fun o => isEthosU o && o.outputs.contains t with
      | some o => expandOperands src out fuel (ethosuOperands o)
      | none => [t]

/-- a result of an Ethos-U operator that is not a source tensor is tolerated when only Ethos-U operators read it -/
def privateResult (out : PGraph) (t : Nat) : Bool :=
  !out.outputs.contains t && out.ops.all fun o => isEthosU o || !(presentInputs o).contains t

def absorbOf (src out : PGraph) (op : POp) (k : Nat) : Absorb :=
  let names (l : List Nat) : List String := l.filterMap (nameAt out)
  let lookup (l : List String) : List Nat := l.filterMap (findByName src)
  let missing (l : List String) : List String := l.filter fun n => (findByName src n).isNone
  let outs := names (op.outputs.filter fun t => knownInSource src out t || !privateResult out t)
  let ins := names (expandOperands src out out.ops.length (ethosuOperands op))
  let start := lookup outs
  let stop := lookup ins
  { pos := k, start := start, stop := stop, ops := slice src start stop, unnamed := missing outs ++ missing ins }

def absorbs (src out : PGraph) : List Absorb :=
  out.ops.zipIdx.filterMap fun (op, k) => if isEthosU op then some (absorbOf src out op k) else none

def producerIn (g : PGraph) (S : List Nat) (t : Nat) : Bool := S.any fun j => (opOutputs g j).contains t

def absorbProblems (src : PGraph) (a : Absorb) : List Problem :=
  (a.unnamed.map fun n => ⟨"ethosu-unknown-tensor", s!"Ethos-U operator {a.pos}: tensor {n} does not exist in the source"⟩) ++
  (a.ops.flatMap fun j => if (foldable src).contains j then [] else (opInputs src j).filterMap fun t =>
    if a.stop.contains t || isConstAt src t || isVarAt src t || producerIn src a.ops t then none
    else some ⟨"ethosu-missing-operand", s!"Ethos-U operator {a.pos} absorbs source operator {j} whose operand {(nameAt src t).getD "?"} is not among its operands"⟩)

def isAbsorbed (abs : List Absorb) (j : Nat) : Bool := abs.any fun x => x.ops.contains j

/-! ## matching of preserved operators (by the names of their results) -/

def outKey (g : PGraph) (op : POp) : List (Option String) := op.outputs.map (nameAt g)

def candidates (src out : PGraph) (op : POp) : List Nat :=
  (src.ops.zipIdx.filter fun (sop, _) => outKey src sop == outKey out op).map (·.2)

def matchOf (src out : PGraph) (op : POp) : Option Nat :=
  match candidates src out op with
  | [j] => some j
  | _ => none

/-- the (output position, source position) pairs of the preserved operators -/
def matchTable (src out : PGraph) : List (Nat × Nat) :=
  out.ops.zipIdx.filterMap fun (op, k) =>
    if isEthosU op then none else (matchOf src out op).map fun j => (k, j)

def matchCount (table : List (Nat × Nat)) (j : Nat) : Nat := (table.filter fun p => p.2 == j).length

/-! ## comparison of a preserved operator with its source -/

/-- operand wiring: same tensor description, same constant data; a source tensor computed by a foldable
    operator may have become a constant -/
def operandEq (src : PGraph) (si : Nat) (ts to : PTensor) : Bool :=
  descEq ts to && (ts.const == to.const || (ts.const.isNone && to.const.isSome && producedByFoldable src si))

def operandProblems (src out : PGraph) (k b : Nat) (si oi : List (Option Nat)) : List Problem :=
  let si := stripTrailingNone si
  let oi := stripTrailingNone oi
  if si.length ≠ oi.length then [⟨"operand-count", s!"operator {k} (builtin {b}): source {si.length} output {oi.length}"⟩] else
  (si.zip oi).zipIdx.filterMap fun ((a, b'), pos) =>
    match a, b' with
    | none, none => none
    | some a, some b' =>
      match src.tensors[a]?, out.tensors[b']? with
      | some ta, some tb =>
        if operandEq src a ta tb then none
        else if ta.name != tb.name then some ⟨"operand-wiring", s!"operator {k} (builtin {b}) operand {pos}: {ta.name} vs {tb.name}"⟩
        else if ta.shape != tb.shape then some ⟨"operand-shape", s!"operator {k} (builtin {b}) operand {pos} {ta.name}: {ta.shape} vs {tb.shape}"⟩
        else if ta.dtype != tb.dtype then some ⟨"operand-type", s!"operator {k} (builtin {b}) operand {pos} {ta.name}: {ta.dtype} vs {tb.dtype}"⟩
        else if normQuant ta.quant != normQuant tb.quant then some ⟨"operand-quantisation", s!"operator {k} (builtin {b}) operand {pos} ({quantDiff ta.quant tb.quant}) {ta.name}"⟩
        else if ta.const != tb.const then some ⟨"operand-constant-data", s!"operator {k} (builtin {b}) operand {pos} {ta.name}: {ta.const} vs {tb.const}"⟩
        else some ⟨"operand-description", s!"operator {k} (builtin {b}) operand {pos} {ta.name}"⟩
      | _, _ => some ⟨"dangling-index", s!"operator {k} operand {pos}"⟩
    | _, _ => some ⟨"operand-presence", s!"operator {k} (builtin {b}) operand {pos}: optional operand present on one side only"⟩

def resultProblems (src out : PGraph) (k b : Nat) (so oo : List Nat) : List Problem :=
  (so.zip oo).zipIdx.filterMap fun ((a, b'), pos) =>
    match src.tensors[a]?, out.tensors[b']? with
    | some ta, some tb =>
      if descEq ta tb && ta.const == tb.const then none
      else if ta.shape != tb.shape then some ⟨"result-shape", s!"operator {k} (builtin {b}) result {pos} {ta.name}: {ta.shape} vs {tb.shape}"⟩
      else if ta.dtype != tb.dtype then some ⟨"result-type", s!"operator {k} (builtin {b}) result {pos} {ta.name}: {ta.dtype} vs {tb.dtype}"⟩
      else if normQuant ta.quant != normQuant tb.quant then some ⟨"result-quantisation", s!"operator {k} (builtin {b}) result {pos} ({quantDiff ta.quant tb.quant}) {ta.name}"⟩
      else some ⟨"result-description", s!"operator {k} (builtin {b}) result {pos} {ta.name}"⟩
    | _, _ => some ⟨"dangling-index", s!"operator {k} result {pos}"⟩

def opProblems (src out : PGraph) (k : Nat) (sop oop : POp) : List Problem :=
  (if sop.builtin != oop.builtin then [⟨"builtin-code", s!"operator {k} (builtin {sop.builtin}): {sop.builtin} vs {oop.builtin}"⟩] else []) ++
  (if sop.custom != oop.custom then [⟨"custom-code", s!"operator {k} (builtin {sop.builtin}): {sop.custom} vs {oop.custom}"⟩] else []) ++
  (if sop.version != oop.version then [⟨"version", s!"operator {k} (builtin {sop.builtin}): {sop.version} vs {oop.version}"⟩] else []) ++
  (if !optsEq sop.opts oop.opts then [⟨"options", s!"operator {k} (builtin {sop.builtin}): type {sop.opts.type} {sop.opts.fields} vs type {oop.opts.type} {oop.opts.fields}"⟩] else []) ++
  (if sop.customOpts != oop.customOpts then [⟨"custom-options", s!"operator {k} (builtin {sop.builtin}): {sop.customOpts} vs {oop.customOpts}"⟩] else []) ++
  operandProblems src out k sop.builtin sop.inputs oop.inputs ++ resultProblems src out k sop.builtin sop.outputs oop.outputs

def opEq (src out : PGraph) (k : Nat) (sop oop : POp) : Bool := (opProblems src out k sop oop).isEmpty

def matchProblems (src out : PGraph) : List Problem :=
  (out.ops.zipIdx.flatMap fun (op, k) =>
    if isEthosU op then [] else
    match candidates src out op with
    | [j] =>
      match src.ops[j]? with
      | some sop => opProblems src out k sop op
      | none => [⟨"internal", "candidate out of range"⟩]
    | [] => [⟨"operator-without-source", s!"output operator {k} (builtin {op.builtin}) produces {outKey out op}: no source operator produces these tensors"⟩]
    | js => [⟨"operator-ambiguous-source", s!"output operator {k}: source operators {js} produce the same tensor names"⟩]) ++
  ((dups ((matchTable src out).map (·.2))).map fun j => ⟨"operator-duplicated", s!"source operator {j} appears more than once in the output"⟩)

/-- Bool form of the matching check used by the soundness theorem -/
def matchOk (src out : PGraph) : Bool :=
  (out.ops.zipIdx.all fun (op, k) =>
    isEthosU op ||
    match candidates src out op with
    | [j] =>
      (match src.ops[j]? with
       | some sop => opEq src out k sop op
       | none => false)
    | _ => false) &&
  (dups ((matchTable src out).map (·.2))).isEmpty

/-! ## coverage of the source -/

def reach (src : PGraph) : List Nat := slice src src.outputs []

structure Cover where
  preserved : Nat
  absorbed : Nat
  folded : Nat
  dead : Nat
  problems : List Problem
deriving Repr

def coverOne (src : PGraph) (table : List (Nat × Nat)) (abs : List Absorb) (j : Nat) : Option Problem :=
  let m := matchCount table j
  let a := abs.filter fun x => x.ops.contains j
  let bi := (src.ops[j]?.map (·.builtin)).getD 0
  if m > 1 then some ⟨"operator-duplicated", s!"source operator {j} (builtin {bi}) appears {m} times in the output"⟩
  else if m == 1 && !a.isEmpty then some ⟨"preserved-and-absorbed", s!"source operator {j} (builtin {bi}) is kept on the CPU and also lies inside Ethos-U operator {a.map (·.pos)}"⟩
  else if m == 0 && a.isEmpty && !(foldable src).contains j then
    some ⟨"operator-lost", s!"source operator {j} (builtin {bi}) reaches an output but is neither preserved, absorbed nor foldable"⟩
  else none

def coverOk (src : PGraph) (table : List (Nat × Nat)) (abs : List Absorb) : Bool :=
  (reach src).all fun j => (coverOne src table abs j).isNone

def cover (src : PGraph) (table : List (Nat × Nat)) (abs : List Absorb) : Cover :=
  let r := reach src
  let un (j : Nat) : Bool := matchCount table j == 0 && !isAbsorbed abs j
  { preserved := (r.filter fun j => matchCount table j ≥ 1).length,
    absorbed := (r.filter fun j => matchCount table j == 0 && isAbsorbed abs j).length,
    folded := (r.filter fun j => un j && (foldable src).contains j).length,
    dead := src.ops.length - r.length,
    problems := (r.filterMap (coverOne src table abs)) ++ abs.flatMap (absorbProblems src) }

/-! ## the fuelled fixpoints are checked, not trusted -/

def sliceClosed (g : PGraph) (start stop S : List Nat) : Bool := sliceStep g start stop S == S

def foldClosed (g : PGraph) (S : List Nat) : Bool := foldStep g S == S

def closedProblems (src : PGraph) (abs : List Absorb) : List Problem :=
  (if sliceClosed src src.outputs [] (reach src) then [] else [⟨"internal", "reachability iteration did not reach a fixpoint"⟩]) ++
  (if foldClosed src (foldable src) then [] else [⟨"internal", "foldable iteration did not reach a fixpoint"⟩]) ++
  (abs.filterMap fun a => if sliceClosed src a.start a.stop a.ops then none else some ⟨"internal", s!"slice of Ethos-U operator {a.pos} did not reach a fixpoint"⟩)

/-! ## verdict -/

structure Verdict where
  pre : List Problem          -- the source itself is outside the domain of the check (not a violation)
  problems : List Problem
  cover : Cover
  ethosu : Nat
deriving Repr

def check (src out : PGraph) : Verdict :=
  let pre := wellFormedProblems src ++ topoProblems src
  let table := matchTable src out
  let abs := absorbs src out
  let c := cover src table abs
  { pre := pre,
    problems := interfaceProblems src out ++ wellFormedProblems out ++ topoProblems out ++ matchProblems src out ++ c.problems ++
      closedProblems src abs,
    cover := c,
    ethosu := (out.ops.filter isEthosU).length }

/-! ## second generation: the source is itself a file written by Vela

When an already compiled model is compiled again, its Ethos-U operators are CPU-resident custom operators of the
*source* as far as the second compilation is concerned: they must be passed through verbatim. `check` does not look at
them (an Ethos-U operator of the output is where source operators were *absorbed*), so this clause is separate:
every Ethos-U operator of `src` has exactly one Ethos-U operator in `out` with the same result names, and the two are
equal as operators (`opProblems`: builtin code, custom code, version, options, custom option bytes, every operand
by name / shape / type / quantisation / **constant data** — command stream and read-only data are operands 0 and 1,
the scratch tensors 2 and 3 — and the results). Ethos-U operators of `out` without a counterpart in `src` are not a
problem of this clause (a later compilation with other options may place more operators on the NPU); they are counted. -/

def ethosuCandidates (src out : PGraph) (sop : POp) : List (POp × Nat) :=
  out.ops.zipIdx.filter fun p => isEthosU p.1 && outKey out p.1 == outKey src sop

def ethosuVerbatimProblems (src out : PGraph) : List Problem :=
  src.ops.zipIdx.flatMap fun (sop, j) =>
    if !isEthosU sop then [] else
    match ethosuCandidates src out sop with
    | [(oop, k)] => opProblems src out k sop oop
    | [] => [⟨"ethosu-lost", s!"Ethos-U operator {j} of the compiled input (results {outKey src sop}) has no Ethos-U operator with these results in the output"⟩]
    | _ => [⟨"ethosu-duplicated", s!"Ethos-U operator {j} of the compiled input (results {outKey src sop}) appears more than once in the output"⟩]

/-- operand / result index pairs (compiled input, output) of a passed-through operator; absent operands are skipped -/
def operandPairs (sop oop : POp) : List (Nat × Nat) :=
  ((sop.inputs.zip oop.inputs).filterMap fun
    | (some a, some b) => some (a, b)
    | _ => none) ++ sop.outputs.zip oop.outputs

/-- The command stream of a compiled operator has the arena addresses of its operands baked in, so "verbatim" includes where
    the operands live: `splan` = arena offset per tensor index of the compiled input (its OfflineMemoryAllocation entry, -1 =
    not planned), `oplans` = the same for *every* such entry of the output. Each of them must give every operand and result of
    a passed-through Ethos-U operator the offset it had. -/
def ethosuPlacementProblems (src out : PGraph) (splan : List Int) (oplans : List (List Int)) : List Problem :=
  src.ops.zipIdx.flatMap fun (sop, j) =>
    if !isEthosU sop then [] else
    match ethosuCandidates src out sop with
    | [(oop, _)] =>
      oplans.zipIdx.flatMap fun (pl, pi) => (operandPairs sop oop).filterMap fun (a, b) =>
        if splan[a]? == pl[b]? then none
        else some ⟨"ethosu-operand-moved", s!"Ethos-U operator {j}: tensor {(nameAt src a).getD "?"} was at arena offset {splan[a]?} when the operator was compiled, plan {pi} of the output puts it at {pl[b]?}"⟩
    | _ => []

/-- Ethos-U operators of the output that the compiled input did not have -/
def ethosuNew (src out : PGraph) : Nat :=
  (out.ops.filter fun oop => isEthosU oop && !(src.ops.any fun sop => isEthosU sop && outKey src sop == outKey out oop)).length

end VelaVerif.Preserve
