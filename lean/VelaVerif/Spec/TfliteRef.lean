import VelaVerif.Spec.Requant
import VelaVerif.Spec.SoftmaxKernel
import VelaVerif.Spec.StridedSliceRef
/-!
# Integer reference semantics of quantised TensorFlow Lite operators (specification side)

Transcribed from the TensorFlow Lite *reference* kernels (`reference_ops`, `reference_integer_ops`):
per-element definitions as pure functions (`sumRange` sums, so that `Props/C01.lean` can reason
about them), whole-tensor kernels as loops over the output coordinates, and a small graph
interpreter. Quantised multipliers and activation ranges are operator parameters (exact integers);
tensors are flat `Array Int` in NHWC order.

Operators that are not modelled make the interpreter answer `unsupported:<KIND>`: the network is
then counted as *not simulated*, never guessed.
-/
namespace VelaVerif.TfliteRef
open VelaVerif.Requant

inductive DType where
  | i8 | u8 | i16 | i32 | i64
deriving Repr, DecidableEq, Inhabited

def DType.bytes : DType → Nat
  | .i8 => 1 | .u8 => 1 | .i16 => 2 | .i32 => 4 | .i64 => 8

def DType.signed : DType → Bool
  | .u8 => false | _ => true

def DType.lo : DType → Int
  | .i8 => -128 | .u8 => 0 | .i16 => -32768 | .i32 => -2147483648 | .i64 => -9223372036854775808

def DType.hi : DType → Int
  | .i8 => 127 | .u8 => 255 | .i16 => 32767 | .i32 => 2147483647 | .i64 => 9223372036854775807

def DType.ofString : String → Option DType
  | "i8" => some .i8 | "u8" => some .u8 | "i16" => some .i16 | "i32" => some .i32 | "i64" => some .i64
  | _ => none

structure Tensor where
  shape : List Nat
  data : Array Int
deriving Repr, Inhabited, BEq

def prod (l : List Nat) : Nat := l.foldl (· * ·) 1

def Tensor.wellFormed (t : Tensor) : Bool := t.data.size == prod t.shape

/-- left-pad a shape with ones to rank 4 -/
def shape4 (s : List Nat) : Option (Nat × Nat × Nat × Nat) :=
  match s with
  | [] => some (1, 1, 1, 1)
  | [c] => some (1, 1, 1, c)
  | [w, c] => some (1, 1, w, c)
  | [h, w, c] => some (1, h, w, c)
  | [n, h, w, c] => some (n, h, w, c)
  | _ => none

/-- `Σ_{i<n} f i` -/
def sumRange : Nat → (Nat → Int) → Int
  | 0, _ => 0
  | n + 1, f => sumRange n f + f n

/-- fold with `max`/`min` over the indices where `p` holds -/
def foldRange (n : Nat) (init : Int) (f : Int → Nat → Int) : Int :=
  (List.range n).foldl f init

/-! ## Per-element definitions -/

/-- convolution accumulator at output position (oy, ox) for one output channel:
    `Σ_{ky,kx,ic} (ifm[iy][ix][ic] + inOff) * w[ky][kx][ic]`, positions outside `H × W` are skipped -/
def convAcc (H W C : Nat) (ifm : Nat → Nat → Nat → Int) (kh kw : Nat) (wgt : Nat → Nat → Nat → Int)
    (sh sw dh dw : Nat) (pt pl : Nat) (inOff : Int) (oy ox : Nat) : Int :=
  sumRange kh fun ky => sumRange kw fun kx =>
    let iy : Int := ((oy * sh + ky * dh : Nat) : Int) - (pt : Int)
    let ix : Int := ((ox * sw + kx * dw : Nat) : Int) - (pl : Int)
    if 0 ≤ iy ∧ iy < (H : Int) ∧ 0 ≤ ix ∧ ix < (W : Int) then
      sumRange C fun ic => (ifm iy.toNat ix.toNat ic + inOff) * wgt ky kx ic
    else 0

/-- depthwise accumulator: one input channel `ic` -/
def dwAcc (H W : Nat) (ifm : Nat → Nat → Int) (kh kw : Nat) (wgt : Nat → Nat → Int)
    (sh sw dh dw : Nat) (pt pl : Nat) (inOff : Int) (oy ox : Nat) : Int :=
  sumRange kh fun ky => sumRange kw fun kx =>
    let iy : Int := ((oy * sh + ky * dh : Nat) : Int) - (pt : Int)
    let ix : Int := ((ox * sw + kx * dw : Nat) : Int) - (pl : Int)
    if 0 ≤ iy ∧ iy < (H : Int) ∧ 0 ≤ ix ∧ ix < (W : Int) then
      (ifm iy.toNat ix.toNat + inOff) * wgt ky kx
    else 0

/-- sum and count over the valid part of a pooling window -/
def poolSumCount (H W : Nat) (ifm : Nat → Nat → Int) (fh fw sh sw pt pl : Nat) (oy ox : Nat) : Int × Nat :=
  (List.range fh).foldl (fun acc ky => (List.range fw).foldl (fun (acc : Int × Nat) kx =>
    let iy : Int := ((oy * sh + ky : Nat) : Int) - (pt : Int)
    let ix : Int := ((ox * sw + kx : Nat) : Int) - (pl : Int)
    if 0 ≤ iy ∧ iy < (H : Int) ∧ 0 ≤ ix ∧ ix < (W : Int) then (acc.1 + ifm iy.toNat ix.toNat, acc.2 + 1) else acc) acc) (0, 0)

def poolMax (H W : Nat) (ifm : Nat → Nat → Int) (fh fw sh sw pt pl : Nat) (oy ox : Nat) (lowest : Int) : Int :=
  (List.range fh).foldl (fun acc ky => (List.range fw).foldl (fun (acc : Int) kx =>
    let iy : Int := ((oy * sh + ky : Nat) : Int) - (pt : Int)
    let ix : Int := ((ox * sw + kx : Nat) : Int) - (pl : Int)
    if 0 ≤ iy ∧ iy < (H : Int) ∧ 0 ≤ ix ∧ ix < (W : Int) then max acc (ifm iy.toNat ix.toNat) else acc) acc) lowest

/-- average with the rounding of the reference kernels: signed types round half away from zero
    (`acc > 0 ? (acc + n/2)/n : (acc - n/2)/n`, truncating division), uint8 adds `n/2` only -/
def avgRound (signed : Bool) (acc : Int) (n : Nat) : Int :=
  if n = 0 then 0 else
  let h : Int := ((n / 2 : Nat) : Int)
  if signed then (if acc > 0 then Int.tdiv (acc + h) n else Int.tdiv (acc - h) n)
  else Int.tdiv (acc + h) n

/-- quantised ADD/SUB of one element pair (`sub = true` subtracts) -/
def addElem (sub : Bool) (a b : Int) (off1 off2 : Int) (leftShift : Nat) (m1 s1 m2 s2 mo so : Int) (outOff lo hi : Int) : Int :=
  let x1 := (a + off1) * (2 : Int) ^ leftShift
  let x2 := (b + off2) * (2 : Int) ^ leftShift
  let y1 := mbqm x1 m1 s1
  let y2 := mbqm x2 m2 s2
  let raw := if sub then y1 - y2 else y1 + y2
  clamp (mbqm raw mo so + outOff) lo hi

/-- quantised SQUARED_DIFFERENCE of one element pair (`reference_integer_ops` / `squared_difference.cc`) -/
def sqDiffElem (a b : Int) (off1 off2 : Int) (leftShift : Nat) (m1 s1 m2 s2 mo so : Int) (outOff lo hi : Int) : Int :=
  let y1 := mbqm ((a + off1) * (2 : Int) ^ leftShift) m1 s1
  let y2 := mbqm ((b + off2) * (2 : Int) ^ leftShift) m2 s2
  let d := y1 - y2
  clamp (mbqm (d * d) mo so + outOff) lo hi

def mulElem (a b : Int) (off1 off2 : Int) (mo so : Int) (outOff lo hi : Int) : Int :=
  clamp (mbqm ((a + off1) * (b + off2)) mo so + outOff) lo hi

/-! ## Real-valued activations (approximated class: the result is judged within one step) -/

def f32ToFloat (bits : Nat) : Float :=
  let sign := bits / 2147483648
  let e := bits / 8388608 % 256
  let m := bits % 8388608
  let v : Float := if e = 0 then (Float.ofNat m).scaleB (-149) else (Float.ofNat (m + 8388608)).scaleB ((e : Int) - 150)
  if sign = 1 then -v else v

/-- quantise(f(dequantise(v))) with round-half-away-from-zero, evaluated in double precision -/
def realActivation (f : Float → Float) (inScale outScale : Float) (inZp outZp lo hi : Int) (v : Int) : Int :=
  let x := inScale * Float.ofInt (v - inZp)
  let y := f x
  let q := (Float.round (y / outScale)).toInt64.toInt + outZp
  clamp q lo hi

def logistic (x : Float) : Float := 1.0 / (1.0 + Float.exp (-x))

/-- source coordinate of RESIZE_NEAREST_NEIGHBOR for an exact 1/2^k scale given as `num/den` -/
def nearestSrc (y num den : Nat) (alignCorners halfPixel : Bool) (inSize : Nat) : Nat :=
  -- position = (y + offset) * num / den with offset 1/2 when half_pixel_centers
  let n2 := (2 * y + (if halfPixel then 1 else 0)) * num      -- twice the numerator
  let d2 := 2 * den
  let v := if alignCorners then (2 * n2 + d2) / (2 * d2) else n2 / d2     -- round half away / floor
  min v (inSize - 1)

/-- bilinear interpolation in double precision (reference_ops::ResizeBilinear), rounded to nearest -/
def bilinearAt (H W : Nat) (ifm : Nat → Nat → Float) (oy ox : Nat) (sy sx : Float) (halfPixel : Bool) : Float :=
  let pos := fun (o : Nat) (sc : Float) => if halfPixel then (Float.ofNat o + 0.5) * sc - 0.5 else Float.ofNat o * sc
  let iy := pos oy sy
  let ix := pos ox sx
  let fy := Float.floor iy
  let fx := Float.floor ix
  let y0 := (max fy 0.0).toUInt64.toNat
  let x0 := (max fx 0.0).toUInt64.toNat
  let y1 := min ((max (Float.ceil iy) 0.0).toUInt64.toNat) (H - 1)
  let x1 := min ((max (Float.ceil ix) 0.0).toUInt64.toNat) (W - 1)
  let dy := iy - fy
  let dx := ix - fx
  ifm y0 x0 * (1.0 - dy) * (1.0 - dx) + ifm y0 x1 * (1.0 - dy) * dx + ifm y1 x0 * dy * (1.0 - dx) + ifm y1 x1 * dy * dx

/-! ## Output size and padding -/

def outSize (same : Bool) (inp stride effK : Nat) : Nat :=
  if stride = 0 then 0 else
  if same then (inp + stride - 1) / stride
  else if inp + stride < effK then 0 else (inp + stride - effK) / stride

/-- `ComputePaddingHeightWidth`: padding before = total / 2 -/
def padBefore (same : Bool) (inp stride effK out : Nat) : Nat :=
  if !same then 0 else
  let need := (out - 1) * stride + effK
  if need > inp then (need - inp) / 2 else 0

def padTotal (same : Bool) (inp stride effK out : Nat) : Nat :=
  if !same then 0 else
  let need := (out - 1) * stride + effK
  if need > inp then need - inp else 0

/-! ## Whole-tensor kernels -/

def at3 (t : Tensor) (W C : Nat) (y x c : Nat) : Int := t.data.getD ((y * W + x) * C + c) 0

structure ConvP where
  sh : Nat
  sw : Nat
  dh : Nat
  dw : Nat
  same : Bool
  inOff : Int           -- −(input zero point)
  wOff : Int            -- −(filter zero point)
  outOff : Int          -- output zero point
  mult : Array Int      -- per output channel
  shift : Array Int
  actMin : Int
  actMax : Int
  acc64 : Bool          -- 16-bit activations: 64-bit accumulator, reduced multiplier
deriving Inhabited

def requant (acc64 : Bool) (acc m s : Int) : Int := if acc64 then mbqm64 acc m s else mbqm acc m s

def conv2d (x w : Tensor) (bias : Option Tensor) (p : ConvP) : Except String Tensor := do
  let [n, H, W, C] := x.shape | throw "conv: input rank"
  let [O, kh, kw, wc] := w.shape | throw "conv: filter rank"
  if n ≠ 1 then throw "unsupported:batch"
  -- grouped convolution (reference_integer_ops::ConvPerChannel / reference_ops::Conv): groups = input depth / filter depth,
  -- output channel `oc` belongs to group `oc / (O / groups)` and reads the input channels `group * wc ..< (group + 1) * wc`
  if wc = 0 ∨ C % wc ≠ 0 then throw "conv: filter depth"
  let groups := C / wc
  if groups = 0 ∨ O % groups ≠ 0 then throw "conv: filter depth"
  let fpg := O / groups
  if p.mult.size ≠ O ∨ p.shift.size ≠ O then throw "conv: multiplier count"
  let ekh := (kh - 1) * p.dh + 1
  let ekw := (kw - 1) * p.dw + 1
  let oh := outSize p.same H p.sh ekh
  let ow := outSize p.same W p.sw ekw
  if oh = 0 ∨ ow = 0 then throw "conv: empty output"
  let pt := padBefore p.same H p.sh ekh oh
  let pl := padBefore p.same W p.sw ekw ow
  let mut out : Array Int := Array.mkEmpty (oh * ow * O)
  for oy in [0:oh] do
    for ox in [0:ow] do
      for oc in [0:O] do
        let g0 := (oc / fpg) * wc
        let ifm := fun y xx c => at3 x W C y xx (g0 + c)
        let wgt := fun ky kx ic => w.data.getD (((oc * kh + ky) * kw + kx) * wc + ic) 0 + p.wOff
        let acc := convAcc H W wc ifm kh kw wgt p.sh p.sw p.dh p.dw pt pl p.inOff oy ox
        let acc := acc + (match bias with | some b => b.data.getD oc 0 | none => 0)
        let v := requant p.acc64 acc (p.mult.getD oc 0) (p.shift.getD oc 0) + p.outOff
        out := out.push (clamp v p.actMin p.actMax)
  return { shape := [1, oh, ow, O], data := out }

def depthwise (x w : Tensor) (bias : Option Tensor) (p : ConvP) (depthMult : Nat) : Except String Tensor := do
  let [n, H, W, C] := x.shape | throw "dw: input rank"
  let [one, kh, kw, O] := w.shape | throw "dw: filter rank"
  if n ≠ 1 ∨ one ≠ 1 then throw "unsupported:batch"
  if depthMult = 0 ∨ O ≠ C * depthMult then throw "dw: depth multiplier"
  if p.mult.size ≠ O ∨ p.shift.size ≠ O then throw "dw: multiplier count"
  let ekh := (kh - 1) * p.dh + 1
  let ekw := (kw - 1) * p.dw + 1
  let oh := outSize p.same H p.sh ekh
  let ow := outSize p.same W p.sw ekw
  if oh = 0 ∨ ow = 0 then throw "dw: empty output"
  let pt := padBefore p.same H p.sh ekh oh
  let pl := padBefore p.same W p.sw ekw ow
  let mut out : Array Int := Array.mkEmpty (oh * ow * O)
  for oy in [0:oh] do
    for ox in [0:ow] do
      for oc in [0:O] do
        let ic := oc / depthMult
        let ifm := fun y xx => at3 x W C y xx ic
        let wgt := fun ky kx => w.data.getD ((ky * kw + kx) * O + oc) 0 + p.wOff
        let acc := dwAcc H W ifm kh kw wgt p.sh p.sw p.dh p.dw pt pl p.inOff oy ox
        let acc := acc + (match bias with | some b => b.data.getD oc 0 | none => 0)
        let v := requant p.acc64 acc (p.mult.getD oc 0) (p.shift.getD oc 0) + p.outOff
        out := out.push (clamp v p.actMin p.actMax)
  return { shape := [1, oh, ow, O], data := out }

/-- TRANSPOSE_CONV (reference_integer_ops::TransposeConv): every input element scatters `(in + inOff) * w` into the
    output positions `in * stride - pad + f`; here written as a gather over the output -/
def transposeConvAcc (H W C : Nat) (ifm : Nat → Nat → Nat → Int) (kh kw : Nat) (wgt : Nat → Nat → Nat → Int)
    (sh sw : Nat) (pt pl : Nat) (inOff : Int) (oy ox : Nat) : Int :=
  sumRange kh fun fy => sumRange kw fun fx =>
    -- oy = iy * sh - pt + fy  ⇒  iy = (oy + pt - fy) / sh when divisible
    if oy + pt ≥ fy ∧ ox + pl ≥ fx ∧ sh > 0 ∧ sw > 0 then
      let ny := oy + pt - fy
      let nx := ox + pl - fx
      if ny % sh = 0 ∧ nx % sw = 0 ∧ ny / sh < H ∧ nx / sw < W then
        sumRange C fun ic => (ifm (ny / sh) (nx / sw) ic + inOff) * wgt fy fx ic
      else 0
    else 0

def transposeConv (x w : Tensor) (bias : Option Tensor) (p : ConvP) (outShape : List Nat) (lo hi : Int) : Except String Tensor := do
  let [n, H, W, C] := x.shape | throw "tconv: input rank"
  let [O, kh, kw, wc] := w.shape | throw "tconv: filter rank"
  let [_, oh, ow, oc] := outShape | throw "tconv: output rank"
  if n ≠ 1 then throw "unsupported:batch"
  if wc ≠ C ∨ oc ≠ O then throw "tconv: filter depth"
  if p.mult.size ≠ O ∨ p.shift.size ≠ O then throw "tconv: multiplier count"
  -- padding from the *output* size (the input of the corresponding forward convolution)
  let fo_h := outSize p.same oh p.sh kh
  let fo_w := outSize p.same ow p.sw kw
  let tot_h := (fo_h - 1) * p.sh + kh
  let tot_w := (fo_w - 1) * p.sw + kw
  let pt := if tot_h > oh then (tot_h - oh) / 2 else 0
  let pl := if tot_w > ow then (tot_w - ow) / 2 else 0
  let ifm := fun y xx c => at3 x W C y xx c
  let mut out : Array Int := Array.mkEmpty (oh * ow * O)
  for oy in [0:oh] do
    for ox in [0:ow] do
      for o in [0:O] do
        let wgt := fun fy fx ic => w.data.getD (((o * kh + fy) * kw + fx) * C + ic) 0 + p.wOff
        let acc := transposeConvAcc H W C ifm kh kw wgt p.sh p.sw pt pl p.inOff oy ox
        let acc := acc + (match bias with | some b => b.data.getD o 0 | none => 0)
        let v := requant p.acc64 acc (p.mult.getD o 0) (p.shift.getD o 0) + p.outOff
        out := out.push (clamp v lo hi)
  return { shape := [1, oh, ow, O], data := out }

def fullyConnected (x w : Tensor) (bias : Option Tensor) (p : ConvP) (outShape : List Nat) : Except String Tensor := do
  let [O, I] := w.shape | throw "fc: filter rank"
  if I = 0 then throw "fc: empty"
  let total := prod x.shape
  if total % I ≠ 0 then throw "fc: input size"
  let B := total / I
  if p.mult.size ≠ 1 then throw "fc: multiplier count"
  let mut out : Array Int := Array.mkEmpty (B * O)
  for b in [0:B] do
    for o in [0:O] do
      let acc := sumRange I fun i => (x.data.getD (b * I + i) 0 + p.inOff) * (w.data.getD (o * I + i) 0 + p.wOff)
      let acc := acc + (match bias with | some bt => bt.data.getD o 0 | none => 0)
      let v := requant p.acc64 acc (p.mult.getD 0 0) (p.shift.getD 0 0) + p.outOff
      out := out.push (clamp v p.actMin p.actMax)
  if prod outShape ≠ B * O then throw "fc: output shape"
  return { shape := outShape, data := out }

structure PoolP where
  sh : Nat
  sw : Nat
  fh : Nat
  fw : Nat
  same : Bool
  actMin : Int
  actMax : Int
deriving Inhabited

def pool (isMax : Bool) (dt : DType) (x : Tensor) (p : PoolP) : Except String Tensor := do
  let [n, H, W, C] := x.shape | throw "pool: input rank"
  if n ≠ 1 then throw "unsupported:batch"
  let oh := outSize p.same H p.sh p.fh
  let ow := outSize p.same W p.sw p.fw
  if oh = 0 ∨ ow = 0 then throw "pool: empty output"
  let pt := padBefore p.same H p.sh p.fh oh
  let pl := padBefore p.same W p.sw p.fw ow
  let mut out : Array Int := Array.mkEmpty (oh * ow * C)
  for oy in [0:oh] do
    for ox in [0:ow] do
      for c in [0:C] do
        let ifm := fun y xx => at3 x W C y xx c
        let v := if isMax then poolMax H W ifm p.fh p.fw p.sh p.sw pt pl oy ox dt.lo
                 else let (s, cnt) := poolSumCount H W ifm p.fh p.fw p.sh p.sw pt pl oy ox
                      avgRound dt.signed s cnt
        out := out.push (clamp v p.actMin p.actMax)
  return { shape := [1, oh, ow, C], data := out }

/-- broadcast shape of two shapes (rank ≤ 4) -/
def bshape (a b : List Nat) : Except String (List Nat) := do
  let r := max a.length b.length
  let pa := List.replicate (r - a.length) 1 ++ a
  let pb := List.replicate (r - b.length) 1 ++ b
  (pa.zip pb).mapM fun (x, y) => if x = y then pure x else if x = 1 then pure y else if y = 1 then pure x else throw "broadcast: incompatible shapes"

/-- flat index into a tensor of shape `s` (left-padded to the rank of `out`) for the element of the
    broadcast result with flat index `i` -/
def bindex (out s : List Nat) (i : Nat) : Nat :=
  let ps := List.replicate (out.length - s.length) 1 ++ s
  -- walk the dimensions from the innermost
  let rec go (od sd : List Nat) (i : Nat) (stride : Nat) (acc : Nat) : Nat :=
    match od, sd with
    | o :: od', d :: sd' =>
      let coord := i % o
      let acc := if d = 1 then acc else acc + coord * stride
      go od' sd' (i / o) (stride * d) acc
    | _, _ => acc
  go out.reverse ps.reverse i 1 0

def binary (a b : Tensor) (f : Int → Int → Int) : Except String Tensor := do
  let os ← bshape a.shape b.shape
  let n := prod os
  let mut out : Array Int := Array.mkEmpty n
  for i in [0:n] do
    out := out.push (f (a.data.getD (bindex os a.shape i) 0) (b.data.getD (bindex os b.shape i) 0))
  return { shape := os, data := out }

def unary (a : Tensor) (f : Int → Int) : Tensor := { a with data := a.data.map f }

/-- coordinates ↔ flat index for arbitrary rank -/
def unflatten (shape : List Nat) (i : Nat) : List Nat :=
  (shape.foldr (fun d (acc : List Nat × Nat) => ((acc.2 % d) :: acc.1, acc.2 / d)) ([], i)).1

def flatten (shape coords : List Nat) : Nat :=
  (shape.zip coords).foldl (fun acc (d, c) => acc * d + c) 0

def concat (ts : List Tensor) (axis : Nat) : Except String Tensor := do
  let t0 :: _ := ts | throw "concat: no inputs"
  let r := t0.shape.length
  if axis ≥ r then throw "concat: axis"
  for t in ts do
    if t.shape.length ≠ r then throw "concat: rank"
    if (t.shape.zip t0.shape).zipIdx.any (fun ((a, b), i) => i ≠ axis ∧ a ≠ b) then throw "concat: shape"
  let axisTotal := ts.foldl (fun acc t => acc + t.shape.getD axis 0) 0
  let oshape := t0.shape.set axis axisTotal
  let n := prod oshape
  let mut out : Array Int := Array.mkEmpty n
  for i in [0:n] do
    let co := unflatten oshape i
    let a := co.getD axis 0
    -- find the input that owns coordinate a
    let mut off := 0
    let mut v : Int := 0
    let mut found := false
    for t in ts do
      let d := t.shape.getD axis 0
      if !found ∧ a < off + d then
        v := t.data.getD (flatten t.shape (co.set axis (a - off))) 0
        found := true
      off := off + d
    out := out.push v
  return { shape := oshape, data := out }

def slice (t : Tensor) (begin size : List Nat) : Except String Tensor := do
  let r := t.shape.length
  if begin.length ≠ r ∨ size.length ≠ r then throw "slice: rank"
  if ((begin.zip size).zip t.shape).any (fun ((b, s), d) => b + s > d ∨ s = 0) then throw "slice: range"
  let n := prod size
  let mut out : Array Int := Array.mkEmpty n
  for i in [0:n] do
    let co := unflatten size i
    out := out.push (t.data.getD (flatten t.shape ((co.zip begin).map fun (c, b) => c + b)) 0)
  return { shape := size, data := out }

def pad (t : Tensor) (before after : List Nat) (value : Int) : Except String Tensor := do
  let r := t.shape.length
  if before.length ≠ r ∨ after.length ≠ r then throw "pad: rank"
  let oshape := ((t.shape.zip before).zip after).map fun ((d, b), a) => d + b + a
  let n := prod oshape
  let mut out : Array Int := Array.mkEmpty n
  for i in [0:n] do
    let co := unflatten oshape i
    let inside := ((co.zip before).zip t.shape).all fun ((c, b), d) => b ≤ c ∧ c < b + d
    out := out.push (if inside then t.data.getD (flatten t.shape ((co.zip before).map fun (c, b) => c - b)) 0 else value)
  return { shape := oshape, data := out }

/-! ## Graph interpreter -/

structure TensorDef where
  dtype : DType
  shape : List Nat
  zps : List Int
  scales : List Nat             -- float32 bit patterns (per tensor or per channel)
  const : Option (Array Int)
deriving Inhabited

structure OpDef where
  kind : String
  ins : List Int                -- tensor ids, −1 = absent
  outs : List Nat
  params : List (List Int)
deriving Inhabited, Repr

structure Graph where
  tensors : Array TensorDef
  ops : List OpDef
  inputs : List Nat
  outputs : List Nat
deriving Inhabited

abbrev Env := Array (Option Tensor)

def Graph.zp (g : Graph) (t : Nat) : Int := ((g.tensors[t]?.map (·.zps)).getD []).getD 0 0
def Graph.dtype (g : Graph) (t : Nat) : DType := (g.tensors[t]?.map (·.dtype)).getD .i8
def Graph.shape (g : Graph) (t : Nat) : List Nat := (g.tensors[t]?.map (·.shape)).getD []
def Graph.scales (g : Graph) (t : Nat) : List Nat := (g.tensors[t]?.map (·.scales)).getD []

def getIn (env : Env) (op : OpDef) (k : Nat) : Except String Tensor :=
  match op.ins[k]? with
  | some i =>
    if i < 0 then throw s!"{op.kind}: input {k} absent" else
    match env.getD i.toNat none with
    | some t => pure t
    | none => throw s!"{op.kind}: input tensor {i} has no value"
  | none => throw s!"{op.kind}: input {k} missing"

def getInOpt (env : Env) (op : OpDef) (k : Nat) : Except String (Option Tensor) :=
  match op.ins[k]? with
  | some i => if i < 0 then pure none else
    match env.getD i.toNat none with
    | some t => pure (some t)
    | none => throw s!"{op.kind}: input tensor {i} has no value"
  | none => pure none

def inId (op : OpDef) (k : Nat) : Nat := (op.ins.getD k 0).toNat
def outId (op : OpDef) (k : Nat) : Nat := op.outs.getD k 0

def grp (op : OpDef) (k : Nat) : List Int := op.params.getD k []
def pI (op : OpDef) (g k : Nat) : Int := (grp op g).getD k 0
def pN (op : OpDef) (g k : Nat) : Nat := (pI op g k).toNat

/-- operator kinds the reference models, with their tolerance class:
    0 exact, 1 approximated (within one step), 2 pass-through (memory-only or monotone 1-Lipschitz) -/
def opClass (g : Graph) (op : OpDef) : Option Nat :=
  match op.kind with
  | "CONV_2D" | "DEPTHWISE_CONV_2D" | "FULLY_CONNECTED" | "ADD" | "SUB" | "MUL" | "QUANTIZE" | "LEAKY_RELU" | "TRANSPOSE_CONV"
  | "SQUARED_DIFFERENCE" | "ABS" | "PRELU" => some 0
  | "HARD_SWISH" => some 1            -- a table-based activation (property text), although the table is exact in practice
  | "MAX_POOL_2D" | "RELU" | "RELU6" | "RELU_N1_TO_1" | "MINIMUM" | "MAXIMUM" | "RESHAPE" | "SQUEEZE" | "EXPAND_DIMS" => some 2
  | "CONCATENATION" =>
    -- inputs quantised like the output are copied; the others are requantised (approximated class)
    let o := outId op 0
    some (if op.ins.all (fun i => i < 0 ∨ (g.scales i.toNat == g.scales o ∧ g.zp i.toNat == g.zp o)) then 2 else 1)
  | "SPLIT" | "STRIDED_SLICE" | "PAD" | "TRANSPOSE" | "SLICE" | "SPLIT_V" | "PACK" | "UNPACK" => some 2
  | "ARG_MAX" => some 0
  | "LOGISTIC" | "TANH" | "RESIZE_BILINEAR" | "RESIZE_NEAREST_NEIGHBOR" | "MEAN" | "SOFTMAX" | "EXP" => some 1
  | "AVERAGE_POOL_2D" =>
    -- padding that actually occurs makes the operator one of the documented approximations
    match g.shape (inId op 0) with
    | [_, H, W, _] =>
      let same := pI op 0 4 = 1
      let oh := outSize same H (pN op 0 0) (pN op 0 2)
      let ow := outSize same W (pN op 0 1) (pN op 0 3)
      some (if padTotal same H (pN op 0 0) (pN op 0 2) oh + padTotal same W (pN op 0 1) (pN op 0 3) ow > 0 then 1 else 0)
    | _ => none
  | _ => none

def acc64Of (g : Graph) (op : OpDef) : Bool :=
  g.dtype (inId op 0) == .i16 && (match op.ins[2]? with | some b => b < 0 || g.dtype b.toNat == .i64 | none => true)

def convParams (g : Graph) (op : OpDef) : ConvP :=
  let o := outId op 0
  { sh := pN op 0 0, sw := pN op 0 1, dh := pN op 0 2, dw := pN op 0 3, same := pI op 0 4 = 1,
    inOff := -(g.zp (inId op 0)), wOff := -(g.zp (inId op 1)), outOff := g.zp o,
    mult := (grp op 1).toArray, shift := (grp op 2).toArray,
    actMin := pI op 0 5, actMax := pI op 0 6, acc64 := acc64Of g op }

def evalOp (g : Graph) (env : Env) (op : OpDef) : Except String (List Tensor) := do
  match op.kind with
  | "CONV_2D" =>
    let x ← getIn env op 0; let w ← getIn env op 1; let b ← getInOpt env op 2
    return [← conv2d x w b (convParams g op)]
  | "DEPTHWISE_CONV_2D" =>
    let x ← getIn env op 0; let w ← getIn env op 1; let b ← getInOpt env op 2
    return [← depthwise x w b (convParams g op) (pN op 0 7)]
  | "TRANSPOSE_CONV" =>
    -- inputs: weights, input, bias (the output-shape tensor is dropped by the harness); params: sh, sw, same | mults | shifts
    let w ← getIn env op 0; let x ← getIn env op 1; let b ← getInOpt env op 2
    let o := outId op 0
    let dt := g.dtype o
    let p : ConvP := { sh := pN op 0 0, sw := pN op 0 1, dh := 1, dw := 1, same := pI op 0 2 = 1, inOff := -(g.zp (inId op 1)),
                       wOff := -(g.zp (inId op 0)), outOff := g.zp o, mult := (grp op 1).toArray, shift := (grp op 2).toArray,
                       actMin := dt.lo, actMax := dt.hi, acc64 := false }
    if g.dtype (inId op 1) == .i16 then throw "unsupported:TRANSPOSE_CONV:int16"
    return [← transposeConv x w b p (g.shape o) dt.lo dt.hi]
  | "FULLY_CONNECTED" =>
    let x ← getIn env op 0; let w ← getIn env op 1; let b ← getInOpt env op 2
    let o := outId op 0
    let p : ConvP := { sh := 1, sw := 1, dh := 1, dw := 1, same := false, inOff := -(g.zp (inId op 0)), wOff := -(g.zp (inId op 1)),
                       outOff := g.zp o, mult := #[pI op 0 2], shift := #[pI op 0 3], actMin := pI op 0 0, actMax := pI op 0 1,
                       acc64 := acc64Of g op }
    return [← fullyConnected x w b p (g.shape o)]
  | "MAX_POOL_2D" | "AVERAGE_POOL_2D" =>
    let x ← getIn env op 0
    let p : PoolP := { sh := pN op 0 0, sw := pN op 0 1, fh := pN op 0 2, fw := pN op 0 3, same := pI op 0 4 = 1,
                       actMin := pI op 0 5, actMax := pI op 0 6 }
    return [← pool (op.kind == "MAX_POOL_2D") (g.dtype (inId op 0)) x p]
  | "ADD" | "SUB" =>
    let a ← getIn env op 0; let b ← getIn env op 1
    let o := outId op 0
    let f := fun x y => addElem (op.kind == "SUB") x y (-(g.zp (inId op 0))) (-(g.zp (inId op 1))) (pN op 0 2)
                 (pI op 0 3) (pI op 0 4) (pI op 0 5) (pI op 0 6) (pI op 0 7) (pI op 0 8) (g.zp o) (pI op 0 0) (pI op 0 1)
    return [← binary a b f]
  | "SQUARED_DIFFERENCE" =>
    -- params: lo, hi, left shift, m1, s1, m2, s2, mo, so
    let a ← getIn env op 0; let b ← getIn env op 1
    let o := outId op 0
    let f := fun x y => sqDiffElem x y (-(g.zp (inId op 0))) (-(g.zp (inId op 1))) (pN op 0 2)
                 (pI op 0 3) (pI op 0 4) (pI op 0 5) (pI op 0 6) (pI op 0 7) (pI op 0 8) (g.zp o) (pI op 0 0) (pI op 0 1)
    return [← binary a b f]
  | "MUL" =>
    let a ← getIn env op 0; let b ← getIn env op 1
    let o := outId op 0
    let f := fun x y => mulElem x y (-(g.zp (inId op 0))) (-(g.zp (inId op 1))) (pI op 0 2) (pI op 0 3) (g.zp o) (pI op 0 0) (pI op 0 1)
    return [← binary a b f]
  | "MINIMUM" | "MAXIMUM" =>
    let a ← getIn env op 0; let b ← getIn env op 1
    return [← binary a b (if op.kind == "MINIMUM" then min else max)]
  | "RELU" | "RELU6" | "RELU_N1_TO_1" =>
    -- params: actMin, actMax, multiplier, shift (input scale / output scale)
    let a ← getIn env op 0
    let o := outId op 0
    let inZp := g.zp (inId op 0)
    return [unary a fun v => clamp (g.zp o + mbqm (v - inZp) (pI op 0 2) (pI op 0 3)) (pI op 0 0) (pI op 0 1)]
  | "QUANTIZE" =>
    let a ← getIn env op 0
    let o := outId op 0
    let dt := g.dtype o
    let inZp := g.zp (inId op 0)
    return [unary a fun v => clamp (mbqm (v - inZp) (pI op 0 0) (pI op 0 1) + g.zp o) dt.lo dt.hi]
  | "LEAKY_RELU" =>
    -- params: identity multiplier, shift, alpha multiplier, shift
    let a ← getIn env op 0
    let o := outId op 0
    let dt := g.dtype o
    let inZp := g.zp (inId op 0)
    return [unary a fun v =>
      let x := v - inZp
      let y := if x ≥ 0 then mbqm x (pI op 0 0) (pI op 0 1) else mbqm x (pI op 0 2) (pI op 0 3)
      clamp (g.zp o + y) dt.lo dt.hi]
  | "LOGISTIC" | "TANH" =>
    let a ← getIn env op 0
    let i := inId op 0
    let o := outId op 0
    let dt := g.dtype o
    match (g.tensors[i]?.map (·.scales)).getD [], (g.tensors[o]?.map (·.scales)).getD [] with
    | [si], [so] =>
      let f := if op.kind == "TANH" then Float.tanh else logistic
      return [unary a (realActivation f (f32ToFloat si) (f32ToFloat so) (g.zp i) (g.zp o) dt.lo dt.hi)]
    | _, _ => throw s!"unsupported:{op.kind}:quantisation"
  | "RESIZE_NEAREST_NEIGHBOR" | "RESIZE_BILINEAR" =>
    -- params: align_corners, half_pixel_centers
    let a ← getIn env op 0
    let [n, H, W, C] := a.shape | throw "resize: input rank"
    let [_, OH, OW, _] := g.shape (outId op 0) | throw "resize: output rank"
    if n ≠ 1 ∨ H = 0 ∨ W = 0 ∨ OH = 0 ∨ OW = 0 then throw "unsupported:batch"
    let align := pI op 0 0 = 1
    let half := pI op 0 1 = 1
    let (nh, dh) := if align ∧ OH > 1 then (H - 1, OH - 1) else (H, OH)
    let (nw, dw) := if align ∧ OW > 1 then (W - 1, OW - 1) else (W, OW)
    let dt := g.dtype (outId op 0)
    let mut out : Array Int := Array.mkEmpty (OH * OW * C)
    for oy in [0:OH] do
      for ox in [0:OW] do
        for c in [0:C] do
          if op.kind == "RESIZE_NEAREST_NEIGHBOR" then
            out := out.push (at3 a W C (nearestSrc oy nh dh align half H) (nearestSrc ox nw dw align half W) c)
          else
            let v := bilinearAt H W (fun y x => Float.ofInt (at3 a W C y x c)) oy ox (Float.ofNat nh / Float.ofNat dh) (Float.ofNat nw / Float.ofNat dw) half
            out := out.push (clamp (Float.round v).toInt64.toInt dt.lo dt.hi)
    return [{ shape := [1, OH, OW, C], data := out }]
  | "MEAN" =>
    -- params: group 0 = reduced axes (resolved, any subset of the dimensions); real-valued mean, requantised
    let a ← getIn env op 0
    let r := a.shape.length
    let axes := (grp op 0).map Int.toNat
    if axes.isEmpty ∨ axes.any (· ≥ r) then throw "unsupported:MEAN:axes"
    let i := inId op 0
    let o := outId op 0
    let dt := g.dtype o
    match g.scales i, g.scales o with
    | [si], [so] =>
      let ratio := f32ToFloat si / f32ToFloat so
      let keptShape := (a.shape.zipIdx).map fun (d, k) => if axes.contains k then 1 else d
      let redShape := (a.shape.zipIdx).map fun (d, k) => if axes.contains k then d else 1
      let cnt := prod redShape
      if cnt = 0 then throw "mean: empty"
      let n := prod keptShape
      let mut out : Array Int := Array.mkEmpty n
      for j in [0:n] do
        let co := unflatten keptShape j
        let s := (List.range cnt).foldl (fun (acc : Int) k =>
          let cr := unflatten redShape k
          acc + (a.data.getD (flatten a.shape ((co.zip cr).map fun (x, y) => x + y)) 0 - g.zp i)) 0
        let v := Float.ofInt s / Float.ofNat cnt * ratio
        out := out.push (clamp ((Float.round v).toInt64.toInt + g.zp o) dt.lo dt.hi)
      let os := g.shape o
      if prod os ≠ out.size then throw "mean: output shape"
      return [{ shape := os, data := out }]
    | _, _ => throw "unsupported:MEAN:quantisation"
  | "SLICE" =>
    -- params: group 0 = begin, group 1 = size (resolved)
    let a ← getIn env op 0
    return [← slice a ((grp op 0).map Int.toNat) ((grp op 1).map Int.toNat)]
  | "SPLIT_V" =>
    -- params: group 0 = [axis], group 1 = sizes (resolved)
    let a ← getIn env op 0
    let axis := pN op 0 0
    let sizes := (grp op 1).map Int.toNat
    if axis ≥ a.shape.length ∨ sizes.foldl (· + ·) 0 ≠ a.shape.getD axis 0 then throw "split_v: sizes"
    let starts := sizes.foldl (fun (acc : List Nat × Nat) sz => (acc.1 ++ [acc.2], acc.2 + sz)) ([], 0)
    (starts.1.zip sizes).mapM fun (st, sz) =>
      slice a ((List.replicate a.shape.length 0).set axis st) (a.shape.set axis sz)
  | "PACK" =>
    -- params: axis (resolved): the inputs, each with a new dimension of extent 1 at `axis`, concatenated there
    let ts ← (List.range op.ins.length).mapM fun k => getIn env op k
    let axis := pN op 0 0
    let t0 :: _ := ts | throw "pack: no inputs"
    if axis > t0.shape.length then throw "pack: axis"
    let ts' := ts.map fun t => { t with shape := (t.shape.take axis) ++ [1] ++ (t.shape.drop axis) }
    return [← concat ts' axis]
  | "UNPACK" =>
    -- params: axis (resolved), count
    let a ← getIn env op 0
    let axis := pN op 0 0
    let num := pN op 0 1
    if axis ≥ a.shape.length ∨ a.shape.getD axis 0 ≠ num then throw "unpack: axis / count"
    (List.range num).mapM fun k => do
      let t ← slice a ((List.replicate a.shape.length 0).set axis k) (a.shape.set axis 1)
      pure { t with shape := a.shape.eraseIdx axis }
  | "PRELU" =>
    -- params: identity multiplier, shift, alpha multiplier, shift (`reference_ops::BroadcastPrelu4DSlow`)
    let a ← getIn env op 0; let al ← getIn env op 1
    let o := outId op 0
    let dt := g.dtype o
    let zi := g.zp (inId op 0)
    let za := g.zp (inId op 1)
    let f := fun (x y : Int) =>
      let iv := x - zi
      let v := if iv ≥ 0 then mbqm iv (pI op 0 0) (pI op 0 1) else mbqm (iv * (y - za)) (pI op 0 2) (pI op 0 3)
      clamp (v + g.zp o) dt.lo dt.hi
    return [← binary a al f]
  | "ABS" =>
    -- params: needs_rescale, multiplier, shift (input_scale / output_scale as float)
    let a ← getIn env op 0
    let o := outId op 0
    let dt := g.dtype o
    let zi := g.zp (inId op 0)
    return [unary a fun v =>
      let x := if v - zi ≥ 0 then v - zi else zi - v
      clamp ((if pI op 0 0 = 1 then mbqm x (pI op 0 1) (pI op 0 2) else x) + g.zp o) dt.lo dt.hi]
  | "ARG_MAX" =>
    -- params: axis (resolved). Index of the first largest element along the axis (reference_ops::ArgMinMax with std::greater)
    let a ← getIn env op 0
    let axis := pN op 0 0
    let r := a.shape.length
    if axis ≥ r then throw "arg_max: axis"
    let d := a.shape.getD axis 0
    if d = 0 then throw "arg_max: empty axis"
    let oshape := a.shape.eraseIdx axis
    let n := prod oshape
    let mut out : Array Int := Array.mkEmpty n
    for i in [0:n] do
      let co := unflatten oshape i
      let elemAt := fun (k : Nat) => a.data.getD (flatten a.shape ((co.take axis) ++ [k] ++ (co.drop axis))) 0
      let best := (List.range d).foldl (fun (acc : Nat × Int) k => if elemAt k > acc.2 then (k, elemAt k) else acc) (0, elemAt 0)
      out := out.push (best.1 : Int)
    return [{ shape := g.shape (outId op 0), data := out }]
  | "TRANSPOSE" =>
    -- params: permutation; output dimension i is input dimension perm[i]
    let a ← getIn env op 0
    let perm := (grp op 0).map Int.toNat
    let r := a.shape.length
    if perm.length ≠ r ∨ perm.any (· ≥ r) ∨ (List.range r).any (fun k => !perm.contains k) then throw "transpose: permutation"
    let oshape := perm.map fun p => a.shape.getD p 0
    let n := prod oshape
    let mut out : Array Int := Array.mkEmpty n
    for i in [0:n] do
      let co := unflatten oshape i
      -- input coordinate at dimension perm[k] = output coordinate k
      let ci := (List.range r).map fun dIn => match perm.idxOf? dIn with | some k => co.getD k 0 | none => 0
      out := out.push (a.data.getD (flatten a.shape ci) 0)
    return [{ shape := oshape, data := out }]
  | "EXP" =>
    let a ← getIn env op 0
    let i := inId op 0
    let o := outId op 0
    let dt := g.dtype o
    if dt.bytes ≠ 1 then throw "unsupported:EXP:type"
    match g.scales i, g.scales o with
    | [si], [so] => return [unary a (realActivation Float.exp (f32ToFloat si) (f32ToFloat so) (g.zp i) (g.zp o) dt.lo dt.hi)]
    | _, _ => throw "unsupported:EXP:quantisation"
  | "HARD_SWISH" =>
    -- params: output multiplier (int16), output exponent, reluish multiplier (int16), reluish exponent
    let a ← getIn env op 0
    let o := outId op 0
    let dt := g.dtype o
    if dt.bytes ≠ 1 then throw "unsupported:HARD_SWISH:type"
    return [unary a (Gemmlowp.hardSwishRef dt.lo dt.hi (g.zp (inId op 0)) (g.zp o) (pI op 0 0) (pI op 0 1) (pI op 0 2) (pI op 0 3))]
  | "SOFTMAX" =>
    -- params: input multiplier, left shift, diff_min, beta (float32 bits); rows = innermost dimension
    let a ← getIn env op 0
    let dt := g.dtype (outId op 0)
    if g.dtype (inId op 0) != dt ∨ dt.bytes > 2 then throw "unsupported:SOFTMAX:type"
    let depth := a.shape.getLastD 1
    if depth = 0 ∨ a.data.size % depth ≠ 0 then throw "softmax: shape"
    let expLut := if dt.bytes = 2 then SoftmaxKernel.expLut16 else #[]
    let ooLut := if dt.bytes = 2 then SoftmaxKernel.oneOverOnePlusXLut16 else #[]
    let mut out : Array Int := Array.mkEmpty a.data.size
    for r in [0:a.data.size / depth] do
      let row := (List.range depth).map fun c => a.data.getD (r * depth + c) 0
      let res := if dt.bytes = 2 then SoftmaxKernel.softmaxRow16 expLut ooLut row (pI op 0 0) (pI op 0 1)
                 else SoftmaxKernel.softmaxRow8 row (pI op 0 0) (pN op 0 1) (pI op 0 2) dt.lo dt.hi
      for v in res do
        out := out.push v
    return [{ shape := a.shape, data := out }]
  | "RESHAPE" | "SQUEEZE" | "EXPAND_DIMS" =>
    let a ← getIn env op 0
    let os := g.shape (outId op 0)
    if prod os ≠ a.data.size then throw s!"{op.kind}: element count"
    return [{ shape := os, data := a.data }]
  | "CONCATENATION" =>
    -- an input whose quantisation differs from the output's is requantised: round((x - zp_i) * s_i / s_o) + zp_o
    -- (`ConcatenationWithScaling` of the uint8 kernel; the signed kernels demand equal parameters)
    let o := outId op 0
    let dt := g.dtype o
    let ts ← (List.range op.ins.length).mapM fun k => do
      let t ← getIn env op k
      let i := inId op k
      if g.scales i == g.scales o ∧ g.zp i == g.zp o then pure t else
      match g.scales i, g.scales o with
      | [si], [so] =>
        let ratio := f32ToFloat si / f32ToFloat so
        pure (unary t fun v => clamp ((Float.round (Float.ofInt (v - g.zp i) * ratio)).toInt64.toInt + g.zp o) dt.lo dt.hi)
      | _, _ => throw "unsupported:CONCATENATION:quantisation"
    return [← concat ts (pN op 0 0)]
  | "SPLIT" =>
    -- inputs: axis tensor, value; params: axis, count
    let a ← getIn env op 1
    let axis := pN op 0 0
    let num := pN op 0 1
    let d := a.shape.getD axis 0
    if num = 0 ∨ d % num ≠ 0 then throw "split: not divisible"
    let part := d / num
    (List.range num).mapM fun k =>
      slice a ((List.replicate a.shape.length 0).set axis (k * part)) (a.shape.set axis part)
  | "STRIDED_SLICE" =>
    -- params: group 0 = begin, group 1 = end, group 2 = strides, group 3 = [begin_mask, end_mask, ellipsis_mask,
    -- new_axis_mask, shrink_axis_mask, offset]: the raw slice specification of the file, resolved here by the transcription
    -- of the TFLite reference (Spec/StridedSliceRef.lean). Without group 3: begin / end already resolved (strides absent = 1).
    let a ← getIn env op 0
    if !(grp op 3).isEmpty then
      let spec : StridedSliceRef.Spec :=
        { begin := grp op 0, end_ := grp op 1, strides := grp op 2, beginMask := pN op 3 0, endMask := pN op 3 1,
          ellipsisMask := pN op 3 2, newAxisMask := pN op 3 3, shrinkAxisMask := pN op 3 4, offset := pI op 3 5 ≠ 0 }
      let (shp, dat) ← StridedSliceRef.eval spec a.shape a.data
      let os := g.shape (outId op 0)
      if shp ≠ os then throw s!"strided_slice: the specification yields shape {shp}, the result tensor has {os}"
      if dat.size = 0 then throw "unsupported:STRIDED_SLICE:empty"
      return [{ shape := os, data := dat }]
    let b := (grp op 0).map Int.toNat
    let e := (grp op 1).map Int.toNat
    let st := if (grp op 2).isEmpty then b.map (fun _ => 1) else (grp op 2).map Int.toNat
    let r := a.shape.length
    if b.length ≠ r ∨ e.length ≠ r ∨ st.length ≠ r ∨ st.any (· = 0) then throw "strided_slice: rank"
    if ((b.zip e).zip a.shape).any (fun ((x, y), d) => y ≤ x ∨ y > d) then throw "strided_slice: range"
    let size := ((b.zip e).zip st).map fun ((x, y), s) => (y - x + s - 1) / s
    let n := prod size
    let mut out : Array Int := Array.mkEmpty n
    for i in [0:n] do
      let co := unflatten size i
      out := out.push (a.data.getD (flatten a.shape (((co.zip b).zip st).map fun ((c, x), s) => x + c * s)) 0)
    let os := g.shape (outId op 0)
    if prod os ≠ out.size then throw "strided_slice: element count"
    return [{ shape := os, data := out }]
  | "PAD" =>
    let a ← getIn env op 0
    let ps := (grp op 0).map Int.toNat
    let before := (List.range a.shape.length).map fun i => ps.getD (2 * i) 0
    let after := (List.range a.shape.length).map fun i => ps.getD (2 * i + 1) 0
    return [← pad a before after (g.zp (outId op 0))]
  | k => throw s!"unsupported:{k}"

/-! ## Reference parameters recomputed from the float32 scales

The harness supplies quantised multipliers and activation ranges (computed with IEEE arithmetic in numpy);
here they are recomputed with exact rational arithmetic from the float32 bit patterns of the tensor scales
(`Requant.roundTo`, `QuantizeMultiplier`) and compared, so the reference does not rest on either alone. -/

def Graph.scale1 (g : Graph) (t : Nat) : Except String Nat :=
  match g.scales t with
  | [s] => pure s
  | _ => throw "unsupported:per_axis_or_missing_scale"

def expectEq (what : String) (got want : Option (Int × Int)) : Except String Unit :=
  match want with
  | none => throw s!"unsupported:scale_outside_normal_range:{what}"
  | some w => if got == some w then pure () else throw s!"reference parameter mismatch for {what}: harness {got}, recomputed {w}"

def verifyParams (g : Graph) (op : OpDef) : Except String Unit := do
  let o := outId op 0
  let actCheck := fun (lo hi : Int) (faf : Nat) => do
    let so ← g.scale1 o
    let dt := g.dtype o
    expectEq s!"{op.kind} activation range" (some (lo, hi)) (activationRange faf so (g.zp o) dt.lo dt.hi)
  match op.kind with
  | "CONV_2D" | "DEPTHWISE_CONV_2D" =>
    let si ← g.scale1 (inId op 0)
    let so ← g.scale1 o
    let ws := g.scales (inId op 1)
    let ms := grp op 1
    let ss := grp op 2
    let u8 := g.dtype (inId op 0) == .u8
    for c in [0:ms.length] do
      let w ← match ws with
        | [w] => pure w
        | _ => match ws[c]? with | some w => pure w | none => throw "conv: weight scale count"
      expectEq s!"{op.kind} multiplier {c}" (some (ms.getD c 0, ss.getD c 0)) (if u8 then qmConvFloatProduct si w so else qmConvDouble si w so)
    actCheck (pI op 0 5) (pI op 0 6) (if op.kind == "CONV_2D" then pN op 0 7 else pN op 0 8)
  | "TRANSPOSE_CONV" =>
    let si ← g.scale1 (inId op 1)
    let so ← g.scale1 o
    let ws := g.scales (inId op 0)
    let u8 := g.dtype (inId op 1) == .u8
    for c in [0:(grp op 1).length] do
      let w ← match ws with
        | [w] => pure w
        | _ => match ws[c]? with | some w => pure w | none => throw "tconv: weight scale count"
      expectEq s!"TRANSPOSE_CONV multiplier {c}" (some ((grp op 1).getD c 0, (grp op 2).getD c 0))
        (if u8 then qmConvFloatProduct si w so else qmConvDouble si w so)
  | "FULLY_CONNECTED" =>
    expectEq "FULLY_CONNECTED multiplier" (some (pI op 0 2, pI op 0 3))
      (qmConvFloatProduct (← g.scale1 (inId op 0)) (← g.scale1 (inId op 1)) (← g.scale1 o))
    actCheck (pI op 0 0) (pI op 0 1) (pN op 0 4)
  | "MAX_POOL_2D" | "AVERAGE_POOL_2D" => actCheck (pI op 0 5) (pI op 0 6) (pN op 0 7)
  | "ADD" | "SUB" =>
    match qmAdd (← g.scale1 (inId op 0)) (← g.scale1 (inId op 1)) (← g.scale1 o) (pN op 0 2) with
    | none => throw "unsupported:scale_outside_normal_range:add"
    | some (a, b, c) =>
      expectEq s!"{op.kind} input 1 multiplier" (some (pI op 0 3, pI op 0 4)) (some a)
      expectEq s!"{op.kind} input 2 multiplier" (some (pI op 0 5, pI op 0 6)) (some b)
      expectEq s!"{op.kind} output multiplier" (some (pI op 0 7, pI op 0 8)) (some c)
    let bits16 := g.dtype o == .i16
    if pN op 0 2 ≠ (if bits16 then 15 else 20) then throw "reference parameter mismatch for ADD/SUB left shift"
    actCheck (pI op 0 0) (pI op 0 1) (pN op 0 9)
  | "PRELU" =>
    let si ← g.scale1 (inId op 0)
    let sa ← g.scale1 (inId op 1)
    let so ← g.scale1 o
    expectEq "PRELU identity multiplier" (some (pI op 0 0, pI op 0 1)) (qmRatioFloat si so)
    expectEq "PRELU alpha multiplier" (some (pI op 0 2, pI op 0 3)) (qmMulFloat si sa so)
  | "ABS" =>
    let si ← g.scale1 (inId op 0)
    let so ← g.scale1 o
    if (pI op 0 0 = 1) ≠ (si ≠ so) then throw "reference parameter mismatch for ABS needs_rescale"
    if si ≠ so then expectEq "ABS multiplier" (some (pI op 0 1, pI op 0 2)) (qmRatioFloat si so)
  | "SQUARED_DIFFERENCE" =>
    let dt := g.dtype o
    if pN op 0 2 ≠ (if dt == .i16 then 0 else 7) ∨ pI op 0 0 ≠ dt.lo ∨ pI op 0 1 ≠ dt.hi then
      throw "reference parameter mismatch for SQUARED_DIFFERENCE left shift / range"
    match qmSquaredDifference (← g.scale1 (inId op 0)) (← g.scale1 (inId op 1)) (← g.scale1 o) (pN op 0 2) with
    | none => throw "unsupported:scale_outside_normal_range:squared_difference"
    | some (a, b, c) =>
      expectEq "SQUARED_DIFFERENCE input 1 multiplier" (some (pI op 0 3, pI op 0 4)) (some a)
      expectEq "SQUARED_DIFFERENCE input 2 multiplier" (some (pI op 0 5, pI op 0 6)) (some b)
      expectEq "SQUARED_DIFFERENCE output multiplier" (some (pI op 0 7, pI op 0 8)) (some c)
  | "MUL" =>
    expectEq "MUL multiplier" (some (pI op 0 2, pI op 0 3)) (qmMulFloat (← g.scale1 (inId op 0)) (← g.scale1 (inId op 1)) (← g.scale1 o))
    actCheck (pI op 0 0) (pI op 0 1) (pN op 0 4)
  | "RELU" | "RELU6" | "RELU_N1_TO_1" =>
    expectEq s!"{op.kind} multiplier" (some (pI op 0 2, pI op 0 3)) (qmRatioFloat (← g.scale1 (inId op 0)) (← g.scale1 o))
    actCheck (pI op 0 0) (pI op 0 1) (if op.kind == "RELU" then 1 else if op.kind == "RELU6" then 3 else 2)
  | "QUANTIZE" =>
    expectEq "QUANTIZE multiplier" (some (pI op 0 0, pI op 0 1)) (qmRatioDouble (← g.scale1 (inId op 0)) (← g.scale1 o))
  | "HARD_SWISH" =>
    -- hires_input_scale = (1/128) * input_scale; output multiplier = hires / output_scale; reluish multiplier =
    -- hires / (3/32768): float32 arithmetic, QuantizeMultiplier, DownScaleInt32ToInt16Multiplier
    let (mi, ei) ← match f32Decode (← g.scale1 (inId op 0)) with | some x => pure x | none => throw "unsupported:scale_outside_normal_range:hard_swish"
    let (mo, eo) ← match f32Decode (← g.scale1 o) with | some x => pure x | none => throw "unsupported:scale_outside_normal_range:hard_swish"
    let down := fun (m : Int) => if m ≥ 2147483647 - 32768 then (32767 : Int) else (m + 32768) / 65536
    let q := fun (num den : Nat) (e : Int) => (roundTo 24 num den e).map fun (m, e') => quantizeMultiplierOf 24 m e'
    match q mi mo (ei - 7 - eo), q mi 3 (ei - 7 + 15) with
    | some (om, oe), some (rm, re) =>
      if oe > 0 then throw "unsupported:HARD_SWISH:output_multiplier_exponent" else
      expectEq "HARD_SWISH output multiplier" (some (pI op 0 0, pI op 0 1)) (some (down om, oe))
      expectEq "HARD_SWISH reluish multiplier" (some (pI op 0 2, pI op 0 3)) (some (down rm, re))
    | _, _ => throw "unsupported:scale_outside_normal_range:hard_swish"
  | "SOFTMAX" =>
    -- the 8-bit kernels require the output quantisation 1/256 with zero point = lowest value of the type
    let so ← g.scale1 o
    if (g.dtype o).bytes = 2 then
      -- int16: output scale 1/32768, zero points 0
      if so ≠ 0x38000000 ∨ g.zp o ≠ 0 ∨ g.zp (inId op 0) ≠ 0 then throw "unsupported:SOFTMAX:output_quantisation"
      expectEq "SOFTMAX int16 input multiplier" (some (pI op 0 0, pI op 0 1)) (SoftmaxKernel.softmaxParams16 (pN op 0 3) (← g.scale1 (inId op 0)))
    else
    if so ≠ 0x3B800000 ∨ g.zp o ≠ (g.dtype o).lo then throw "unsupported:SOFTMAX:output_quantisation"
    match SoftmaxKernel.softmaxParams8 (pN op 0 3) (← g.scale1 (inId op 0)) with
    | none => throw "unsupported:scale_outside_normal_range:softmax"
    | some (m, s, d) =>
      expectEq "SOFTMAX input multiplier" (some (pI op 0 0, pI op 0 1)) (some (m, s))
      if pI op 0 2 ≠ d then throw s!"reference parameter mismatch for SOFTMAX diff_min: harness {pI op 0 2}, recomputed {d}"
  | "LEAKY_RELU" =>
    let si ← g.scale1 (inId op 0)
    let so ← g.scale1 o
    expectEq "LEAKY_RELU identity multiplier" (some (pI op 0 0, pI op 0 1)) (qmRatioFloat si so)
    expectEq "LEAKY_RELU alpha multiplier" (some (pI op 0 2, pI op 0 3)) (qmMulFloatSigned si (pN op 0 4) so)
  | _ => pure ()

/-- run a graph; `custom` evaluates the operators the reference does not own (the Ethos-U operator of an
    output model) -/
def evalGraph (g : Graph) (inputs : List Tensor)
    (custom : OpDef → List (Option Tensor) → Option (Except String (List Tensor)) := fun _ _ => none) :
    Except String Env := do
  let mut env : Env := g.tensors.map fun td => td.const.map fun d => { shape := td.shape, data := d }
  if inputs.length ≠ g.inputs.length then throw "graph: input count"
  for (i, t) in g.inputs.zip inputs do
    if t.data.size ≠ prod (g.shape i) then throw "graph: input size"
    env := env.setIfInBounds i (some { t with shape := g.shape i })
  for op in g.ops do
    let ins := op.ins.map fun i => if i < 0 then none else env.getD i.toNat none
    let res ← match custom op ins with
      | some r => r
      | none => do
        verifyParams g op
        evalOp g env op
    if res.length ≠ op.outs.length then throw s!"{op.kind}: output count"
    for (o, t) in op.outs.zip res do
      let os := g.shape o
      if prod os ≠ t.data.size then throw s!"{op.kind}: output {o} has {t.data.size} elements, declared shape {os}"
      let dt := g.dtype o
      if t.data.any (fun v => v < dt.lo ∨ v > dt.hi) then throw s!"{op.kind}: output {o} out of range of its type"
      env := env.setIfInBounds o (some { shape := os, data := t.data })
  return env

/-- tolerance class of every tensor: 0 exact, 1 within one step, 2 not judged (an approximated value was
    fed into arithmetic that may amplify it) -/
def tolerances (g : Graph) : Array Nat := Id.run do
  let mut cls : Array Nat := Array.replicate g.tensors.size 0
  for op in g.ops do
    let inCls := op.ins.foldl (fun acc i => if i < 0 then acc else max acc (cls.getD i.toNat 0)) 0
    let c := match opClass g op with
      | some 2 => inCls
      | some k => if inCls = 0 then k else 2
      | none => 2
    for o in op.outs do
      cls := cls.setIfInBounds o c
  return cls

end VelaVerif.TfliteRef
