import VelaVerif.Spec.SoftmaxExec
/-!
# The lowered SOFTMAX program as integer rows, and the rows of a decoded command stream

`NStep.row` flattens a step of the lowered program (`SoftmaxGraph.lower`, `prog8`) into 18 integers — every field of the step
except the quantisation a `[1,1,1,1]` constant operand carried in the graph (the command stream has only its value; the
interpreter `SoftmaxExec.evalStep` does not read it either).  `NStep.ofRow` rebuilds a step from a row;
`Props/C01SoftmaxLower.lean` proves that running the rebuilt program is running the original one, so two programs with equal
rows have equal values on every input.

`groupsOf` / `segmentRows` produce the same rows from a DECODED command stream (`NpuSem.opsWithRegs`: the block operations with the
registers each one saw): operation kind from the block type / sub-operation, rounding from OFM_PRECISION, OFM_SCALE multiplier
and shift, operand zero points in OPA / OPB order, operand widths, OFM zero point, TABLE_LOOKUP index range, ACTIVATION_MIN /
MAX; the operands are resolved by DATA FLOW: a feature map in the constants region with one element is a constant (its value is
read from the constants), a scalar register operand is a constant, any other operand is the OFM of the latest earlier block
operation whose OFM byte range contains the operand's first byte.  Block operations with the same row (same value fields, operands
produced by the same passes) are the stripes of one pass and are counted once.
-/
namespace VelaVerif.SoftmaxLower
open VelaVerif.SoftmaxGraph VelaVerif.SoftmaxExec VelaVerif.Requant VelaVerif.NpuWide VelaVerif.NpuSem VelaVerif.Decode VelaVerif.Isa

/-! ## step ↔ row -/

def kindOfCode (c : Int) : SoftmaxGraph.OpKind :=
  if c = 0 then .maxpool else if c = 1 then .sub else if c = 2 then .add else if c = 3 then .mul else if c = 4 then .shr
  else if c = 5 then .shl else if c = 6 then .clz else .reduceSum

def roundCode : NRound → Int
  | .tfl => 0 | .truncate => 1 | .natural => 2

def roundOfCode (c : Int) : NRound := if c = 0 then .tfl else if c = 1 then .truncate else .natural

/-- `[tag, value]`: 0 = SOFTMAX input, 1 = OFM of pass `value`, 2 = constant `value`, 3 = no operand -/
def operandRow : Option Operand → List Int
  | none => [3, 0]
  | some .input => [0, 0]
  | some (.pass n) => [1, n]
  | some (.const v _) => [2, v]

def operandOfRow (tag v : Int) : Option Operand :=
  if tag = 0 then some .input else if tag = 1 then some (.pass v.toNat) else if tag = 2 then some (.const v default) else none

def boolCode (b : Bool) : Int := if b then 1 else 0

/-- the output stage of the step is the plain one into a 32-bit OFM (`NpuWide.outPlain true`: saturation to int32; OFM zero
    point and ACTIVATION_MIN / MAX are not read — assumption A7): these three fields are 0 in the row.  Not for the 8-bit
    maximum (kind 0), whose clamp reads them whatever the flags say. -/
def plainWide (kind : Int) (ofm32 lutNone : Bool) : Bool := ofm32 && lutNone && kind != 0

/-- `[kind, a(2), b(2), rounding, mult, shift, aZp, bZp, in32, ofm32, ozp, lut?(3), actMin, actMax]` -/
def NStep.row (s : NStep) : List Int :=
  let plain32 := plainWide s.kind.code s.ofm32 s.lut.isNone
  [s.kind.code] ++ operandRow (some s.a) ++ operandRow s.b ++
  [roundCode s.rounding, s.mult, s.shift, s.aZp, s.bZp, boolCode s.in32, boolCode s.ofm32, if plain32 then 0 else s.ozp] ++
  (match s.lut with | none => [0, 0, 0] | some (lo, bits) => [1, lo, bits]) ++
  [if plain32 then 0 else s.actMin, if plain32 then 0 else s.actMax]

def NStep.ofRow : List Int → Option NStep
  | [k, at_, av, bt, bv, r, m, sh, az, bz, i32, o32, oz, lt, llo, lb, amin, amax] =>
    match operandOfRow at_ av with
    | none => none
    | some a =>
      some { kind := kindOfCode k, a := a, b := operandOfRow bt bv, rounding := roundOfCode r, mult := m.toNat, shift := sh.toNat,
             aZp := az, bZp := bz, in32 := i32 == 1, ofm32 := o32 == 1, ozp := oz,
             lut := if lt = 0 then none else some (llo, lb.toNat), actMin := amin, actMax := amax }
  | _ => none

/-- the program a list of rows stands for (`none`: some row is not a row) -/
def progOfRows (rows : List (List Int)) : Option (List NStep) := rows.mapM NStep.ofRow

/-- the rows of the lowered graph of parameters `P` (what a compiled 8-bit SOFTMAX is compared with) -/
def modelRows (P : Params) : Option (List (List Int)) := (lower P (graph8 P)).map fun prog => prog.map NStep.row

/-! ## rows of a decoded stream -/

/-- what one block operation contributes before the operands are resolved -/
structure RawOp where
  kind : Int
  /-- value fields of the row after the operands: rounding … actMax (13 integers) -/
  tail : List Int
  /-- operands in OPA / OPB order: a feature map (region, first byte) or a scalar -/
  a : Option (Sum (Nat × Nat × Nat) Int)
  b : Option (Sum (Nat × Nat × Nat) Int)
  ofmRegion : Nat
  ofmLo : Nat
  ofmHi : Nat
  /-- IFM byte range (for the SOFTMAX input) -/
  ifmRegion : Nat
  ifmLo : Nat
  ifmHi : Nat
deriving Repr, Inhabited

def fmLo (fm : FM) : Nat := fm.base.getD 0 0
def fmHi (fm : FM) : Nat := fmLo fm + max (fm.height * fm.strideY) fm.elemBytes
def fmElems (fm : FM) : Nat := fm.height * fm.width * fm.depth

/-- operand descriptor of a feature map: (region, first byte, number of elements) -/
def fmKey (fm : FM) : Sum (Nat × Nat × Nat) Int := .inl (fm.region, fmLo fm, fmElems fm)

def rawOfBlock (b : BlockOp) (regs : RegFile) : RawOp :=
  let kind : Int :=
    if b.kind == .pool then (if b.subOp = 0 then 0 else if b.subOp = 2 then 7 else 100 + b.subOp)
    else if b.kind == .elementwise then
      (if b.subOp = 0 then 3 else if b.subOp = 1 then 2 else if b.subOp = 2 then 1 else if b.subOp = 7 then 6
       else if b.subOp = 8 then 4 else if b.subOp = 9 then 5 else 200 + b.subOp)
    else 300
  let rounding : Int := b.ofmPrecision / 16384 % 4
  let globalScale := b.ofmPrecision / 256 % 2 = 1
  let ofs := b.ofmScale.getD 1
  let isAddSub := b.kind == .elementwise && (b.subOp = 1 || b.subOp = 2)
  -- the interpreter runs ADD / SUB with the global scale on, no operand selected for scaling, OPA = OPB scale 1: anything
  -- else is made visible as multiplier −1
  let opaOk := (b.ifmPrecision / 256 % 4 = 0) && lo32 (b.opaScale.getD 0) % 65536 = 1 && lo32 (b.opbScale.getD 0) % 65536 = 1
  let (mult, shift) : Int × Int :=
    if isAddSub then (if globalScale && opaOk then ((lo32 ofs : Nat), (hi6 ofs : Nat)) else (-1, 0))
    else if b.kind == .pool && !globalScale then (1, 0)
    else ((lo32 ofs : Nat), (hi6 ofs : Nat))
  let reversed := b.ifm2Broadcast / 64 % 2 = 1
  let unary := b.kind != .elementwise || elementwiseIsUnary b.subOp
  let x1 : Option (Sum (Nat × Nat × Nat) Int) := some (fmKey b.ifm)
  let ifm2Prec := regs.get0D IFM2_PRECISION 0
  let x2 : Option (Sum (Nat × Nat × Nat) Int) :=
    if unary then none else
    match b.ifm2, b.ifm2Scalar with
    | some fm, _ => some (fmKey fm)
    | none, some s =>
      let p := ifm2Prec / 4 % 4
      let bits := if p = 0 then 8 else if p = 1 then 16 else 32
      let sv : Int := if ifm2Prec % 2 = 1 then toSigned (s % 2 ^ bits) bits else ((s % 2 ^ bits : Nat) : Int)
      some (.inr sv)
    | none, none => none
  let z1 : Int := b.ifm.zeroPoint
  let z2 : Int := if unary then 0 else s16 (regs.get0D IFM2_ZERO_POINT 0)
  let (a, bb, aZp, bZp) := if reversed then (x2, x1, z2, z1) else (x1, x2, z1, z2)
  let in32 := is32 b.ifm || (match b.ifm2 with | some f => is32 f | none => false)
  let act := b.activation % 4096
  let lut : List Int :=
    if act = 0 then [0, 0, 0]
    else if act ≥ 16 ∧ act < 24 then
      match lutDomain b with
      | .ok (lo, bits) => [1, lo, bits]
      | .error _ => [2, 0, 0]
    else [3, act, 0]
  let plain32 := plainWide kind (is32 b.ofm) (act = 0)
  { kind := kind,
    tail := [rounding, mult, shift, aZp, bZp, boolCode in32, boolCode (is32 b.ofm), if plain32 then 0 else b.ofm.zeroPoint] ++ lut ++
            [if plain32 then 0 else b.actMin, if plain32 then 0 else b.actMax],
    a := a, b := bb,
    ofmRegion := b.ofm.region, ofmLo := fmLo b.ofm, ofmHi := fmHi b.ofm,
    ifmRegion := b.ifm.region, ifmLo := fmLo b.ifm, ifmHi := fmHi b.ifm }

/-- a pass of the stream: its raw value fields, the operands as resolved (group numbers), and the byte ranges of its stripes -/
structure Group where
  kind : Int
  tail : List Int
  /-- `[tag, value]` with tag 1 = OFM of group `value` (absolute), 2 = constant, 3 = none, 4 = not produced by the stream so far -/
  a : List Int
  b : List Int
  /-- the operands of the first stripe as the registers give them -/
  aRaw : Option (Sum (Nat × Nat × Nat) Int)
  bRaw : Option (Sum (Nat × Nat × Nat) Int)
  /-- OFM byte ranges of the block operations of the pass: (region, first byte, end, position of the operation in the stream) -/
  ofms : List (Nat × Nat × Nat × Nat)
  ifms : List (Nat × Nat × Nat)
  stripes : Nat
deriving Repr, Inhabited

def readConst32 (flash : ByteArray) (addr : Nat) : Int :=
  let byte := fun k => (flash.get! (addr + k)).toNat
  if addr + 4 > flash.size then 0 else toSigned (byte 0 + 256 * byte 1 + 65536 * byte 2 + 16777216 * byte 3) 32

/-- the group of the LATEST block operation (position in the stream) whose OFM range contains byte `addr` of `region` -/
def producer (groups : Array Group) (region addr : Nat) : Option Nat :=
  let best : Option (Nat × Nat) := (List.range groups.size).foldl (fun acc i =>
    (groups[i]!).ofms.foldl (fun acc (r, lo, hi, seq) =>
      if r = region ∧ lo ≤ addr ∧ addr < hi then
        (match acc with
         | some (s, _) => if seq ≥ s then some (seq, i) else acc
         | none => some (seq, i))
      else acc) acc) none
  best.map (·.2)

def resolve (flash : ByteArray) (groups : Array Group) : Option (Sum (Nat × Nat × Nat) Int) → List Int
  | none => [3, 0]
  | some (.inr v) => [2, v]
  | some (.inl (region, addr, elems)) =>
    if region = 0 then (if elems = 1 then [2, readConst32 flash addr] else [5, 0])
    else match producer groups region addr with
      | some g => [1, g]
      | none => [4, 0]

/-- block operations of the stream → passes: a block operation is a further stripe of an EARLIER pass (the latest one) that has its
    kind, its value fields and operands that resolve to the same passes / constants — the stripes of a pass need not be consecutive
    (the scheduler interleaves the stripes of chained elementwise passes).  An operation that reads the OFM of a pass never joins
    that pass (the operands of a pass were resolved before the pass existed). -/
def groupsOf (flash : ByteArray) (ops : List (DecOp × RegFile)) : Array Group := Id.run do
  let mut groups : Array Group := #[]
  let mut seq := 0
  for (op, regs) in ops do
    match op with
    | .dma _ => pure ()
    | .block b =>
      let raw := rawOfBlock b regs
      let aP := resolve flash groups raw.a
      let bP := resolve flash groups raw.b
      let same := fun (g : Group) => g.kind = raw.kind ∧ g.tail = raw.tail ∧ g.a = aP ∧ g.b = bP
      match ((List.range groups.size).reverse).find? (fun i => same (groups[i]!)) with
      | some i =>
        let g := groups[i]!
        groups := groups.set! i { g with ofms := (raw.ofmRegion, raw.ofmLo, raw.ofmHi, seq) :: g.ofms,
                                         ifms := (raw.ifmRegion, raw.ifmLo, raw.ifmHi) :: g.ifms, stripes := g.stripes + 1 }
      | none =>
        groups := groups.push { kind := raw.kind, tail := raw.tail, a := aP, b := bP, aRaw := raw.a, bRaw := raw.b,
                                ofms := [(raw.ofmRegion, raw.ofmLo, raw.ofmHi, seq)], ifms := [(raw.ifmRegion, raw.ifmLo, raw.ifmHi)],
                                stripes := 1 }
      seq := seq + 1
  return groups

/-- operand of a pass of the segment that starts at group `start` (pass 0 = the depthwise maximum whose IFM is the SOFTMAX
    input): the OFM of a pass of the segment, a constant, or — for a feature map that lies inside the IFM ranges of pass 0 and
    is not produced inside the segment — the SOFTMAX input; anything else keeps a tag no model row has -/
def relOperand (groups : Array Group) (start : Nat) (raw : Option (Sum (Nat × Nat × Nat) Int)) (res : List Int) : List Int :=
  let inInput : Bool := match raw with
    | some (.inl (region, addr, _)) => (groups.getD start default).ifms.any fun (r, lo, hi) => r = region ∧ lo ≤ addr ∧ addr < hi
    | _ => false
  match res with
  | [1, g] => if g.toNat ≥ start then [1, g - start] else if inInput then [0, 0] else [6, g]
  | [4, a] => if inInput then [0, 0] else [4, a]
  | r => r

/-- the 31 rows of the segment that starts at group `start` -/
def segmentRows (groups : Array Group) (start : Nat) : List (List Int) :=
  (List.range 31).filterMap fun k =>
    (groups[start + k]?).map fun g =>
      [g.kind] ++ relOperand groups start g.aRaw g.a ++ relOperand groups start g.bRaw g.b ++ g.tail

/-- pass 1 of a SOFTMAX segment: the operation with a table lookup of 32-bit entries (8 index bits, 32-bit OFM); the segment
    starts one pass earlier -/
def segmentStarts (groups : Array Group) : List Nat :=
  (List.range groups.size).filterMap fun j =>
    let g := groups[j]!
    if j ≥ 1 ∧ g.tail.getD 6 0 = 1 ∧ g.tail.getD 8 0 = 1 ∧ g.tail.getD 10 0 = 8 then some (j - 1) else none

/-- index of the first differing row and column, `none` when the lists are equal -/
def firstDiff (got want : List (List Int)) : Option (Nat × Nat) :=
  if got.length ≠ want.length then some (min got.length want.length, 0) else
  ((got.zip want).zipIdx).findSome? fun ((g, w), i) =>
    if g = w then none else
      some (i, (((g.zip w).zipIdx).findSome? fun ((x, y), j) => if x = y then none else some j).getD (min g.length w.length))

end VelaVerif.SoftmaxLower
