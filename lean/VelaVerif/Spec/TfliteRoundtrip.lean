import VelaVerif.Model.TfliteTree
import VelaVerif.Model.TfliteWriter
import VelaVerif.Model.TfliteReader
/-!
# What reading back a written file gives, stated on the graph (`Props/C11Writer.read_write_roundtrip`)

`normalise d` is the graph `Reader.read (Writer.write d)` builds, defined on the graph description alone — no file, no buffer,
no operator-code table, no index arithmetic on the file:

* **tensors** — per written (Cpu) subgraph, in order: its tensors in the writer's order (`sgAll`: the tensor set sorted by
  (name, position)), each in the reader's normal form (`normTensor`: written shape as shape and original shape, reader-side
  element type name, `readQuant ∘ quantT` of the quantisation, zero-length data = none, allocation attributes reset, range by
  element type), followed by the tensors the reader creates while it walks the operators (virtual outputs, reshaped clones);
* **tensor references** are renumbered `g ↦ base + position of g in sgAll` (`base` = number of tensors of the earlier subgraphs);
* **operators** — the written operators (Const / Placeholder / SubgraphInput dropped, operands as the writer restored them:
  `src_tensor` behind reshaped clones) with the operator code read back (`rcodeOf`: `CustomNpuOp` ↦ `Custom` "ethos-u"), absent
  results dropped, payload only with a serialiser; then the reader's own graph surgery, applied to the graph: virtual outputs
  (`Reader.virtualStep`), **clone restoration** (`Reader.cloneStep`: constant weights / bias of convolution-like operators are
  cloned again), Const / Placeholder producers (`Reader.startupOps`), visibility (`Reader.realOps`);
* **interface** — original inputs renumbered; outputs de-duplicated, the original positions recomputed; `input_tensors` empty;
  every subgraph Cpu; metadata: the writer's list (graph entries, `vela_version`, the offline plan) with `bytes` names.

It fails (`Except.error`) exactly where the reader fails on the written file: constant data whose size does not fit the written
shape, a clone of weights of the wrong rank, a subgraph input that a written operator produces, ….
-/
namespace VelaVerif.Tflite.Spec
open VelaVerif.Gen
open VelaVerif.Tflite.Writer (POp PSub prepSub subgraphsToWrite numElems quantT dtypeCode ethosU lookupOp mapIdx indexIn sgOps sgAll sgTds
  outputList sgOuts metadataToWrite)
open VelaVerif.Tflite.Reader (RCode ROp)

/-- the shape `serialise_tensor` writes -/
def writtenShapeN (t : TensorD) : List Int := if numElems t.originalShape ≠ numElems t.shape then t.shape else t.originalShape

/-- the reader's normal form of a written tensor -/
def normTensor (td : TensorD) : Except String TensorD := do
  let ty ← match dtypeCode td.dtype with
    | some c => pure c
    | none => throw "key"
  let row ← Reader.dtypeRow ty
  Reader.checkData row.2.1 row.2.2.2.2 (writtenShapeN td) (Reader.parseBuffer { data := td.values })
  pure { name := td.name, shape := writtenShapeN td, originalShape := writtenShapeN td, dtype := row.2.1,
         quant := Reader.readQuant (td.quant.map quantT), values := Reader.parseBuffer { data := td.values }, isVariable := td.isVariable,
         purpose := 0, memArea := 0, memType := 0, address := none, src := none,
         range := if (Reader.readQuant (td.quant.map quantT)).isSome then Reader.rangeOf row.2.1 row.2.2.1 else none }

/-- the operator code of a written operator, read back -/
def rcodeOf (p : POp) : Option RCode :=
  match p.info.inv with
  | none => none
  | some (_, ser, wt) =>
    (if p.info.name == "CustomNpuOp" then lookupOp "Custom" else some p.info).map fun op =>
      { op := op, hasSer := ser,
        custom := if p.info.name == "Custom" then some p.custom else if p.info.name == "CustomNpuOp" then some ethosU else none,
        indices := wt, version := p.version }

/-- the payload the writer emits (none without a serialiser; type / format only next to a table / bytes) -/
def payloadN (p : POp) (hasSer : Bool) : Payload :=
  if hasSer then
    { optType := if p.payload.opts.isSome then p.payload.optType else 0, opts := p.payload.opts, custom := p.payload.custom,
      customFormat := if p.payload.custom.isSome then p.payload.customFormat else 0 }
  else Reader.noPayload

/-- one written operator, read back: operands renumbered, then the reader's virtual-output and clone steps -/
def opN (base : Nat) (all : List Nat) (k : Nat) (ts : List TensorD) (p : POp) : Except String (ROp × List TensorD × Option Nat) :=
  match rcodeOf p with
  | none => throw "key"
  | some code => do
    let outsI := (p.outputs.filterMap (mapIdx all ·)).map (base + ·)
    let c ← Reader.cloneStep code.op (Reader.virtualStep code k ts (outsI.map some)).1 (p.inputs.map fun t => (mapIdx all t).map (base + ·))
    pure ({ code := code, inputs := c.2, fileOutputs := outsI, outputs := (Reader.virtualStep code k ts (outsI.map some)).2.1,
            intermediates := (p.intermediates.filterMap (mapIdx all ·)).map (fun i => some (base + i)),
            payload := payloadN p code.hasSer }, c.1, (Reader.virtualStep code k ts (outsI.map some)).2.2)

def opsN (base : Nat) (all : List Nat) : List POp → Nat → List TensorD → Except String (List ROp × List TensorD × List Nat)
  | [], _, ts => pure ([], ts, [])
  | p :: rest, k, ts => do
    let r ← opN base all k ts p
    let rs ← opsN base all rest (k + 1) r.2.1
    pure (r.1 :: rs.1, rs.2.1, (match r.2.2 with | some v => [v] | none => []) ++ rs.2.2)

/-- one written subgraph, read back; `ts` = the tensors of the earlier subgraphs -/
def subN (dts : List TensorD) (ts : List TensorD) (ps : PSub) : Except String (SubgraphD × List TensorD) := do
  let all := sgAll dts ps
  let own ← (sgTds dts ps).mapM normTensor
  let r ← opsN ts.length all ((sgOps ps).filter (!·.ignored)) 0 (ts ++ own)
  let outs2 ← outputList ps.sg.originalOutputPositions (sgOuts ps)
  let outIdx := (outs2.filterMap (indexIn all ·)).map (ts.length + ·)
  let inIdx := (ps.sg.originalInputs.filterMap (indexIn all ·)).map (ts.length + ·)
  Writer.check (!(Reader.dedupNat inIdx).any (Reader.produced r.1)) "vela-error"
  let positions ← Reader.positionsOf (Reader.dedupNat outIdx) outIdx
  pure ({ name := ps.sg.name, cpu := true,
          ops := Reader.startupOps r.2.1 ts.length all.length r.1 (Reader.dedupNat inIdx) ++ Reader.realOps r.1 r.2.2,
          originalInputs := inIdx, inputTensors := [], outputTensors := Reader.dedupNat outIdx ++ r.2.2,
          originalOutputPositions := some positions,
          virtualOutputs := r.2.2.map fun v => (v, Writer.firstIdx (fun (o : OpD) => o.outputs.contains (some v))
            (Reader.startupOps r.2.1 ts.length all.length r.1 (Reader.dedupNat inIdx) ++ Reader.realOps r.1 r.2.2)) }, r.2.1)

def subsN (dts : List TensorD) : List PSub → List TensorD → Except String (List SubgraphD × List TensorD)
  | [], ts => pure ([], ts)
  | ps :: rest, ts => do
    let r ← subN dts ts ps
    let rs ← subsN dts rest r.2
    pure (r.1 :: rs.1, rs.2)

/-- the graph the reader builds from the file the writer produces for `d` -/
def normalise (d : Desc) : Except String Desc := do
  let subs ← (subgraphsToWrite d).mapM (prepSub d.tensors)
  let r ← subsN d.tensors subs []
  let metas ← metadataToWrite d (subs.map (sgAll d.tensors))
  pure { tensors := r.2, subgraphs := r.1,
         metadata := metas.map fun mw => { nameIsBytes := true, name := mw.name, data := Reader.parseBuffer { data := mw.data } },
         version := d.version }

end VelaVerif.Tflite.Spec
