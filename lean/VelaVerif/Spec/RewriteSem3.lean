import VelaVerif.Spec.RewriteSem2
/-!
Reference semantics used by the third part of the C01 rewrite theorems (`Props/C01Rewrites3.lean`) and by the semantic checks
of `Handlers/Rewrites3.lean` (import-free).
-/
namespace VelaVerif.RewriteSem3
open VelaVerif.Requant VelaVerif.TfliteRef

/-! ## RESIZE of a 1x1 input -/

/-- one element of `reference_ops::ResizeBilinearInteger` (int8 / int16): 10-bit fixed-point weights `dy`, `dx`, the four
    neighbours, rounding half away from zero of the 20-bit fixed-point sum (C `/` truncates) -/
def bilinearInt (v00 v01 v10 v11 dy dx : Int) : Int :=
  let o := v00 * (1024 - dy) * (1024 - dx) + v10 * dy * (1024 - dx) + v01 * (1024 - dy) * dx + v11 * dy * dx
  Int.tdiv (o + (if o > 0 then 524288 else -524288)) 1048576

/-- the element read at a source coordinate after the kernel's clamp to the last row / column -/
def clampedAt (H W : Nat) (ifm : Nat → Nat → Nat → Int) (y x c : Nat) : Int := ifm (min y (H - 1)) (min x (W - 1)) c

/-- RESIZE_BILINEAR (integer kernel) at one output element, for ANY source rows `y0, y1`, columns `x0, x1` and weights -/
def resizeBilinearIntAt (H W : Nat) (ifm : Nat → Nat → Nat → Int) (y0 y1 x0 x1 : Nat) (dy dx : Int) (c : Nat) : Int :=
  bilinearInt (clampedAt H W ifm y0 x0 c) (clampedAt H W ifm y0 x1 c) (clampedAt H W ifm y1 x0 c) (clampedAt H W ifm y1 x1 c) dy dx

/-- RESIZE_NEAREST_NEIGHBOR at one output element (scale `num / den` per axis) -/
def resizeNearestAt (H W : Nat) (ifm : Nat → Nat → Nat → Int) (numY denY numX denX : Nat) (align half : Bool) (oy ox c : Nat) : Int :=
  ifm (nearestSrc oy numY denY align half H) (nearestSrc ox numX denX align half W) c

/-- NumPy / TFLite broadcasting of one coordinate: a dimension of size one is read at index 0 -/
def bcast (dim i : Nat) : Nat := if dim = 1 then 0 else i

/-- element `(h, w, c)` of the reference ADD of a constant `[1, OH, OW, C]` and an input of shape `[1, IH, IW, C]` (broadcast) -/
def addBroadcastAt (cst : Nat → Nat → Nat → Int) (IH IW : Nat) (ifm : Nat → Nat → Nat → Int)
    (off1 off2 : Int) (ls : Nat) (m1 s1 m2 s2 mo so : Int) (outOff lo hi : Int) (h w c : Nat) : Int :=
  addElem false (cst h w c) (ifm (bcast IH h) (bcast IW w) c) off1 off2 ls m1 s1 m2 s2 mo so outOff lo hi

/-- what the ADD with a zero first operand does to a value: the second operand's rescaling followed by the output's -/
def requantViaAdd (v zpIn : Int) (ls : Nat) (m2 s2 mo so : Int) (zpOut lo hi : Int) : Int :=
  clamp (mbqm (mbqm ((v - zpIn) * (2 : Int) ^ ls) m2 s2) mo so + zpOut) lo hi

/-! ## AVERAGE_POOL as a convolution -/

/-- `num / den` rounded to the nearest integer, halves away from zero (`den > 0`): the NPU's `AwayZero` rounding of an exact
    rational scale -/
def roundAway (num : Int) (den : Nat) : Int :=
  if num ≥ 0 then (2 * num + den) / (2 * den) else -((2 * (-num) + den) / (2 * den))

/-- reference AVERAGE_POOL_2D element: the average of the VALID window elements, rounded as the kernel does, clamped -/
def avgPoolRef (signed : Bool) (H W : Nat) (ifm : Nat → Nat → Int) (fh fw sh sw pt pl oy ox : Nat) (lo hi : Int) : Int :=
  let sc := poolSumCount H W ifm fh fw sh sw pt pl oy ox
  clamp (avgRound signed sc.1 sc.2) lo hi

/-- the lowered operator with the EXACT scale `1 / (kh · kw)` (input and output quantisation equal): convolution accumulator
    over the zero-point-corrected input, rounded away from zero, plus the zero point -/
def avgPoolLoweredExact (acc : Int) (n : Nat) (zp lo hi : Int) : Int := clamp (roundAway acc n + zp) lo hi

/-- the lowered operator with a quantised multiplier `(m, shift)`: `MultiplyByQuantizedMultiplier` -/
def avgPoolLoweredQ (acc m s : Int) (zp lo hi : Int) : Int := clamp (mbqm acc m s + zp) lo hi

/-! ## UNPACK: flat index bookkeeping -/

/-- row-major flat index of `coords` in `shape` -/
def flatIdx : List Nat → List Nat → Nat
  | _ :: ds, c :: cs => c * prod ds + flatIdx ds cs
  | _, _ => 0

end VelaVerif.RewriteSem3
