/-!
# Ethos-U55/U65 command stream: opcode numbers and word format (hand-written specification)

Written from the Ethos-U command-stream layout (cmd0: 16-bit opcode word with 16-bit parameter,
cmd1: the same followed by a 32-bit payload; bit 14 of the opcode half-word selects the payload
form).  This file is *not* generated: `Props/C06.lean` proves that the regenerated tables of
`ethos_u55_regs.py` (`Gen/Regs.lean`) agree with these numbers.
-/
namespace VelaVerif.Isa

-- cmd0 (no payload)
def OP_STOP : Nat := 0x000
def OP_IRQ : Nat := 0x001
def OP_CONV : Nat := 0x002
def OP_DEPTHWISE : Nat := 0x003
def OP_POOL : Nat := 0x005
def OP_ELEMENTWISE : Nat := 0x006
def OP_DMA_START : Nat := 0x010
def OP_DMA_WAIT : Nat := 0x011
def OP_KERNEL_WAIT : Nat := 0x012
def OP_PMU_MASK : Nat := 0x013
def IFM_PAD_TOP : Nat := 0x100
def IFM_PAD_LEFT : Nat := 0x101
def IFM_PAD_RIGHT : Nat := 0x102
def IFM_PAD_BOTTOM : Nat := 0x103
def IFM_DEPTH_M1 : Nat := 0x104
def IFM_PRECISION : Nat := 0x105
def IFM_UPSCALE : Nat := 0x107
def IFM_ZERO_POINT : Nat := 0x109
def IFM_WIDTH0_M1 : Nat := 0x10A
def IFM_HEIGHT0_M1 : Nat := 0x10B
def IFM_HEIGHT1_M1 : Nat := 0x10C
def IFM_IB_END : Nat := 0x10D
def IFM_REGION : Nat := 0x10F
def OFM_WIDTH_M1 : Nat := 0x111
def OFM_HEIGHT_M1 : Nat := 0x112
def OFM_DEPTH_M1 : Nat := 0x113
def OFM_PRECISION : Nat := 0x114
def OFM_BLK_WIDTH_M1 : Nat := 0x115
def OFM_BLK_HEIGHT_M1 : Nat := 0x116
def OFM_BLK_DEPTH_M1 : Nat := 0x117
def OFM_ZERO_POINT : Nat := 0x118
def OFM_WIDTH0_M1 : Nat := 0x11A
def OFM_HEIGHT0_M1 : Nat := 0x11B
def OFM_HEIGHT1_M1 : Nat := 0x11C
def OFM_REGION : Nat := 0x11F
def KERNEL_WIDTH_M1 : Nat := 0x120
def KERNEL_HEIGHT_M1 : Nat := 0x121
def KERNEL_STRIDE : Nat := 0x122
def PARALLEL_MODE : Nat := 0x123
def ACC_FORMAT : Nat := 0x124
def ACTIVATION : Nat := 0x125
def ACTIVATION_MIN : Nat := 0x126
def ACTIVATION_MAX : Nat := 0x127
def WEIGHT_REGION : Nat := 0x128
def SCALE_REGION : Nat := 0x129
def AB_START : Nat := 0x12D
def BLOCKDEP : Nat := 0x12F
def DMA0_SRC_REGION : Nat := 0x130
def DMA0_DST_REGION : Nat := 0x131
def DMA0_SIZE0 : Nat := 0x132
def DMA0_SIZE1 : Nat := 0x133
def IFM2_BROADCAST : Nat := 0x180
def IFM2_SCALAR : Nat := 0x181
def IFM2_PRECISION : Nat := 0x185
def IFM2_ZERO_POINT : Nat := 0x189
def IFM2_WIDTH0_M1 : Nat := 0x18A
def IFM2_HEIGHT0_M1 : Nat := 0x18B
def IFM2_HEIGHT1_M1 : Nat := 0x18C
def IFM2_IB_START : Nat := 0x18D
def IFM2_REGION : Nat := 0x18F

-- cmd1 (32-bit payload)
def IFM_BASE0 : Nat := 0x000
def IFM_BASE1 : Nat := 0x001
def IFM_BASE2 : Nat := 0x002
def IFM_BASE3 : Nat := 0x003
def IFM_STRIDE_X : Nat := 0x004
def IFM_STRIDE_Y : Nat := 0x005
def IFM_STRIDE_C : Nat := 0x006
def OFM_BASE0 : Nat := 0x010
def OFM_BASE1 : Nat := 0x011
def OFM_BASE2 : Nat := 0x012
def OFM_BASE3 : Nat := 0x013
def OFM_STRIDE_X : Nat := 0x014
def OFM_STRIDE_Y : Nat := 0x015
def OFM_STRIDE_C : Nat := 0x016
def WEIGHT_BASE : Nat := 0x020
def WEIGHT_LENGTH : Nat := 0x021
def SCALE_BASE : Nat := 0x022
def SCALE_LENGTH : Nat := 0x023
def OFM_SCALE : Nat := 0x024
def OPA_SCALE : Nat := 0x025
def OPB_SCALE : Nat := 0x026
def DMA0_SRC : Nat := 0x030
def DMA0_DST : Nat := 0x031
def DMA0_LEN : Nat := 0x032
def DMA0_SKIP0 : Nat := 0x033
def DMA0_SKIP1 : Nat := 0x034
def IFM2_BASE0 : Nat := 0x080
def IFM2_BASE1 : Nat := 0x081
def IFM2_BASE2 : Nat := 0x082
def IFM2_BASE3 : Nat := 0x083
def IFM2_STRIDE_X : Nat := 0x084
def IFM2_STRIDE_Y : Nat := 0x085
def IFM2_STRIDE_C : Nat := 0x086
def WEIGHT1_BASE : Nat := 0x090
def WEIGHT1_LENGTH : Nat := 0x091
def SCALE1_BASE : Nat := 0x092
def SCALE1_LENGTH : Nat := 0x093

/-- hand-written (name, value) tables in the order of `ethos_u55_regs.cmd0` / `cmd1` -/
def specCmd0 : List (String × Nat) :=
  [ ("NPU_OP_STOP", 0x000), ("NPU_OP_IRQ", 0x001), ("NPU_OP_CONV", 0x002), ("NPU_OP_DEPTHWISE", 0x003),
    ("NPU_OP_POOL", 0x005), ("NPU_OP_ELEMENTWISE", 0x006), ("NPU_OP_DMA_START", 0x010),
    ("NPU_OP_DMA_WAIT", 0x011), ("NPU_OP_KERNEL_WAIT", 0x012), ("NPU_OP_PMU_MASK", 0x013),
    ("NPU_SET_IFM_PAD_TOP", 0x100), ("NPU_SET_IFM_PAD_LEFT", 0x101), ("NPU_SET_IFM_PAD_RIGHT", 0x102),
    ("NPU_SET_IFM_PAD_BOTTOM", 0x103), ("NPU_SET_IFM_DEPTH_M1", 0x104), ("NPU_SET_IFM_PRECISION", 0x105),
    ("NPU_SET_IFM_UPSCALE", 0x107), ("NPU_SET_IFM_ZERO_POINT", 0x109), ("NPU_SET_IFM_WIDTH0_M1", 0x10A),
    ("NPU_SET_IFM_HEIGHT0_M1", 0x10B), ("NPU_SET_IFM_HEIGHT1_M1", 0x10C), ("NPU_SET_IFM_IB_END", 0x10D),
    ("NPU_SET_IFM_REGION", 0x10F), ("NPU_SET_OFM_WIDTH_M1", 0x111), ("NPU_SET_OFM_HEIGHT_M1", 0x112),
    ("NPU_SET_OFM_DEPTH_M1", 0x113), ("NPU_SET_OFM_PRECISION", 0x114), ("NPU_SET_OFM_BLK_WIDTH_M1", 0x115),
    ("NPU_SET_OFM_BLK_HEIGHT_M1", 0x116), ("NPU_SET_OFM_BLK_DEPTH_M1", 0x117), ("NPU_SET_OFM_ZERO_POINT", 0x118),
    ("NPU_SET_OFM_WIDTH0_M1", 0x11A), ("NPU_SET_OFM_HEIGHT0_M1", 0x11B), ("NPU_SET_OFM_HEIGHT1_M1", 0x11C),
    ("NPU_SET_OFM_REGION", 0x11F), ("NPU_SET_KERNEL_WIDTH_M1", 0x120), ("NPU_SET_KERNEL_HEIGHT_M1", 0x121),
    ("NPU_SET_KERNEL_STRIDE", 0x122), ("NPU_SET_PARALLEL_MODE", 0x123), ("NPU_SET_ACC_FORMAT", 0x124),
    ("NPU_SET_ACTIVATION", 0x125), ("NPU_SET_ACTIVATION_MIN", 0x126), ("NPU_SET_ACTIVATION_MAX", 0x127),
    ("NPU_SET_WEIGHT_REGION", 0x128), ("NPU_SET_SCALE_REGION", 0x129), ("NPU_SET_AB_START", 0x12D),
    ("NPU_SET_BLOCKDEP", 0x12F), ("NPU_SET_DMA0_SRC_REGION", 0x130), ("NPU_SET_DMA0_DST_REGION", 0x131),
    ("NPU_SET_DMA0_SIZE0", 0x132), ("NPU_SET_DMA0_SIZE1", 0x133), ("NPU_SET_IFM2_BROADCAST", 0x180),
    ("NPU_SET_IFM2_SCALAR", 0x181), ("NPU_SET_IFM2_PRECISION", 0x185), ("NPU_SET_IFM2_ZERO_POINT", 0x189),
    ("NPU_SET_IFM2_WIDTH0_M1", 0x18A), ("NPU_SET_IFM2_HEIGHT0_M1", 0x18B), ("NPU_SET_IFM2_HEIGHT1_M1", 0x18C),
    ("NPU_SET_IFM2_IB_START", 0x18D), ("NPU_SET_IFM2_REGION", 0x18F) ]

def specCmd1 : List (String × Nat) :=
  [ ("NPU_SET_IFM_BASE0", 0x000), ("NPU_SET_IFM_BASE1", 0x001), ("NPU_SET_IFM_BASE2", 0x002),
    ("NPU_SET_IFM_BASE3", 0x003), ("NPU_SET_IFM_STRIDE_X", 0x004), ("NPU_SET_IFM_STRIDE_Y", 0x005),
    ("NPU_SET_IFM_STRIDE_C", 0x006), ("NPU_SET_OFM_BASE0", 0x010), ("NPU_SET_OFM_BASE1", 0x011),
    ("NPU_SET_OFM_BASE2", 0x012), ("NPU_SET_OFM_BASE3", 0x013), ("NPU_SET_OFM_STRIDE_X", 0x014),
    ("NPU_SET_OFM_STRIDE_Y", 0x015), ("NPU_SET_OFM_STRIDE_C", 0x016), ("NPU_SET_WEIGHT_BASE", 0x020),
    ("NPU_SET_WEIGHT_LENGTH", 0x021), ("NPU_SET_SCALE_BASE", 0x022), ("NPU_SET_SCALE_LENGTH", 0x023),
    ("NPU_SET_OFM_SCALE", 0x024), ("NPU_SET_OPA_SCALE", 0x025), ("NPU_SET_OPB_SCALE", 0x026),
    ("NPU_SET_DMA0_SRC", 0x030), ("NPU_SET_DMA0_DST", 0x031), ("NPU_SET_DMA0_LEN", 0x032),
    ("NPU_SET_DMA0_SKIP0", 0x033), ("NPU_SET_DMA0_SKIP1", 0x034), ("NPU_SET_IFM2_BASE0", 0x080),
    ("NPU_SET_IFM2_BASE1", 0x081), ("NPU_SET_IFM2_BASE2", 0x082), ("NPU_SET_IFM2_BASE3", 0x083),
    ("NPU_SET_IFM2_STRIDE_X", 0x084), ("NPU_SET_IFM2_STRIDE_Y", 0x085), ("NPU_SET_IFM2_STRIDE_C", 0x086),
    ("NPU_SET_WEIGHT1_BASE", 0x090), ("NPU_SET_WEIGHT1_LENGTH", 0x091), ("NPU_SET_SCALE1_BASE", 0x092),
    ("NPU_SET_SCALE1_LENGTH", 0x093) ]

/-- region parameter of a DMA that addresses on-chip SHRAM (bit 8 set, region 3) -/
def REGION_SHRAM : Nat := 0x103

end VelaVerif.Isa
