import VelaVerif.Model.MlwEncode
import VelaVerif.Spec.Mlw
/-!
# C07 — which plans the MLW writer can be driven with (`PlanOk`)

`Model/MlwEncode.lean` writes a stream for a *plan* (palette sections, palettes, GRC parameters per slice) that the
search half of `mlw_encode.c` hands over.  `planOk plan ws` is the explicit, decidable well-formedness condition
under which `Props/C07Encode.lean` proves that the reference decoder inverts the writer.  It says nothing about how
good the plan is (compression ratio), only that every decision can be represented in the stream:

* the sections tile the input, each is non-empty;
* a palette has 0 or 2..32 entries of `palbits` (2..9) bits each, the direct offset fits 5 bits;
* every weight that is coded as a weight has an index: it is in the palette, or its sign-folded value is at least
  the direct offset and the index stays below 512;
* the slices tile the weight indices of their section, each has 1..32767 values and table entries that exist;
* every index of a slice fits the slice's GRC parameters: quotient ≤ 31, ≤ 2 with truncation, 0 in uncompressed
  mode; uncompressed mode is only used when the decoder derives the same index width (all weights in a non-empty
  palette, or no palette); WDIV < 6 and ZDIV < 4 so that the header fields do not collide with the reserved codes.

The harness evaluates `planOk` on every plan observed from the real encoder (`plan_ok_of_real`).
-/
namespace VelaVerif.MlwPlan
open VelaVerif.Mlw VelaVerif.MlwEnc

def palOk (p : PalPlan) : Bool :=
  decide (p.directOffset < 32) &&
  (p.lut.length == 0 || (decide (2 ≤ p.lut.length) && decide (p.lut.length ≤ 32))) &&
  decide (2 ≤ p.palbits) && decide (p.palbits ≤ 9) &&
  p.lut.all fun v => decide (v < 2 ^ p.palbits)

/-- the weight has an index: it is in the palette, or reachable through the direct offset -/
def idxOk (p : PalPlan) (w : Int) : Bool :=
  (lastIdx w p.lut 0 none).isSome ||
  (decide (p.directOffset ≤ foldDirect w) && decide (foldDirect w + p.palsize < 512 + p.directOffset))

def sliceOk (p : PalPlan) (newPal : Bool) (wv zv : List Nat) (g : GrcCfg) : Bool :=
  decide (1 ≤ wv.length) && decide (wv.length < 32768) &&
  (if p.useZeroRuns then zv.length == wv.length + (if newPal then 1 else 0) else zv.isEmpty) &&
  (wv.all fun v => decide (v < 512) && decide (v >>> g.wDiv ≤ 31) && (!g.wTrunc || decide (v >>> g.wDiv ≤ 2)) &&
    (!g.wUnc || v >>> g.wDiv == 0)) &&
  (!g.wUnc || g.wDiv == (if p.lut.length > 0 then indexBits p.lut.length else p.palbits)) &&
  (g.wUnc || decide (g.wDiv < 6)) && decide (g.zDiv < 4)

def slicesOk (p : PalPlan) (ubits : Nat) : List SlicePlan → List Nat → List Nat → Bool → Bool
  | [], wrest, _, newPal => wrest.isEmpty && !newPal
  | sl :: more, wrest, zrest, newPal =>
    decide (sl.len ≤ wrest.length) &&
    (match grcCfg ubits sl.wCfg (if p.useZeroRuns then sl.zCfg else 0) with
     | none => false
     | some g => sliceOk p newPal (wrest.take sl.len)
        (if p.useZeroRuns then zrest.take (sl.len + (if newPal then 1 else 0)) else []) g) &&
    slicesOk p ubits more (wrest.drop sl.len) (zrest.drop (sl.len + (if newPal then 1 else 0))) false

def sectionOk (sp : SectionPlan) (inbuf : List Int) : Bool :=
  palOk sp.pal && ((extract sp.pal inbuf).1.all (idxOk sp.pal)) &&
  match lookup sp.pal (extract sp.pal inbuf).1 with
  | .error _ => false
  | .ok wv => slicesOk sp.pal (uncompressedBits sp.pal) sp.slices wv (extract sp.pal inbuf).2 true

def sectionsOk : Plan → List Int → Bool
  | [], ws => ws.isEmpty
  | sp :: more, ws =>
    decide (0 < sp.size) && decide (sp.size ≤ ws.length) && sectionOk sp (ws.take sp.size) &&
    sectionsOk more (ws.drop sp.size)

/-- the plan is a well-formed plan for the weights `ws` (which lie in -255..255) -/
def planOk (plan : Plan) (ws : List Int) : Bool := MlwSpec.weightsInRange ws && sectionsOk plan ws

/-- `PlanOk` as a proposition -/
def PlanOk (plan : Plan) (ws : List Int) : Prop := planOk plan ws = true

instance (plan : Plan) (ws : List Int) : Decidable (PlanOk plan ws) := by unfold PlanOk; infer_instance

/-- `mlw_encode` writes into `malloc(inbuf_size*2+1024)` (mlw_encode.c 867-869) through `bitbuf_putbit`, whose bounds
    `assert` is compiled out; the bit position only grows, so the writer stays inside the buffer exactly when the final
    stream is not longer than the buffer.  (Not a theorem: the size of the stream depends on the choices of the search.) -/
def fitsBuffer (nWeights streamBytes : Nat) : Bool := decide (streamBytes ≤ nWeights * 2 + 1024)

end VelaVerif.MlwPlan
