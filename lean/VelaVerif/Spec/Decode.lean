import VelaVerif.Spec.Isa
/-!
# Command-stream decoder (specification side)

Decodes a list of 32-bit words the way the NPU front end does: every `NPU_SET_*` command updates a
register file, every `NPU_OP_*` command starts an operation that sees the *current* register file.
Nothing here is derived from Vela's generator; it is what the properties C02/C03/C04/C06/C12 are
checked against.
-/
namespace VelaVerif.Decode
open VelaVerif.Isa

inductive Cmd where
  | c0 (op param : Nat)
  | c1 (op param payload : Nat)
deriving Repr, DecidableEq, Inhabited

/-- Split a word list into commands. Bits 15:14 of the opcode half-word select the form
    (0 = no payload, 1 = 32-bit payload); bits 13:10 must be zero. -/
def splitCmds : List Nat → Except String (List Cmd)
  | [] => .ok []
  | w :: rest =>
    if w ≥ 2 ^ 32 then .error "word does not fit 32 bits" else
    let code := w % 65536
    let param := w / 65536
    let mode := code / 16384
    let op := code % 1024
    if code / 1024 % 16 ≠ 0 then .error s!"reserved opcode bits set in word {w}" else
    if mode = 0 then (splitCmds rest).map (Cmd.c0 op param :: ·)
    else if mode = 1 then
      match rest with
      | p :: rest' =>
        if p ≥ 2 ^ 32 then .error "payload does not fit 32 bits" else
        (splitCmds rest').map (Cmd.c1 op param p :: ·)
      | [] => .error "truncated cmd1 (payload word missing)"
    else .error s!"reserved payload mode in word {w}"

structure RegFile where
  r0 : Array (Option Nat)     -- cmd0 registers: 16-bit parameter
  r1 : Array (Option Nat)     -- cmd1 registers: payload + 2^32 * (parameter bits, address high part)
deriving Inhabited

def RegFile.empty : RegFile := ⟨Array.replicate 1024 none, Array.replicate 1024 none⟩

def RegFile.get0 (r : RegFile) (op : Nat) (name : String) : Except String Nat :=
  match r.r0.getD op none with
  | some v => .ok v
  | none => .error s!"register {name} used but never written"

def RegFile.get1 (r : RegFile) (op : Nat) (name : String) : Except String Nat :=
  match r.r1.getD op none with
  | some v => .ok v
  | none => .error s!"register {name} used but never written"

def RegFile.get0D (r : RegFile) (op : Nat) (d : Nat) : Nat := (r.r0.getD op none).getD d
def RegFile.get1D (r : RegFile) (op : Nat) (d : Nat) : Nat := (r.r1.getD op none).getD d

inductive OpKind where
  | conv | depthwise | pool | elementwise | dma
deriving Repr, DecidableEq, Inhabited

inductive Event where
  | op (kind : OpKind) (param : Nat) (regs : RegFile)
  | kernelWait (n : Nat)
  | dmaWait (n : Nat)
  | stop (param : Nat)
  | other (op param : Nat)
deriving Inhabited

def isOpCode (op : Nat) : Bool := op < 0x100

/-- Run the register machine over the commands. -/
def events (cmds : List Cmd) : Except String (List Event) :=
  let rec go (cs : List Cmd) (regs : RegFile) (acc : List Event) : Except String (List Event) :=
    match cs with
    | [] => .ok acc.reverse
    | .c0 op param :: rest =>
      if op = OP_STOP then go rest regs (.stop param :: acc)
      else if op = OP_CONV then go rest regs (.op .conv param regs :: acc)
      else if op = OP_DEPTHWISE then go rest regs (.op .depthwise param regs :: acc)
      else if op = OP_POOL then go rest regs (.op .pool param regs :: acc)
      else if op = OP_ELEMENTWISE then go rest regs (.op .elementwise param regs :: acc)
      else if op = OP_DMA_START then go rest regs (.op .dma param regs :: acc)
      else if op = OP_KERNEL_WAIT then go rest regs (.kernelWait param :: acc)
      else if op = OP_DMA_WAIT then go rest regs (.dmaWait param :: acc)
      else if isOpCode op then go rest regs (.other op param :: acc)
      else go rest { regs with r0 := regs.r0.setIfInBounds op (some param) } acc
    | .c1 op param payload :: rest =>
      go rest { regs with r1 := regs.r1.setIfInBounds op (some (payload + 2 ^ 32 * param)) } acc
  go cmds RegFile.empty []

/-- 16-bit two's complement parameter as a signed value -/
def s16 (v : Nat) : Int := if v ≥ 32768 then (v : Int) - 65536 else v

/-! ## Decoded operation records -/

structure FM where
  region : Nat
  base : List Nat          -- 4 tile bases
  height0 : Nat
  height1 : Nat
  width0 : Nat
  strideX : Nat
  strideY : Nat
  strideC : Nat
  height : Nat             -- extent touched by the operation
  width : Nat
  depth : Nat
  elemBytes : Nat
  signed : Bool
  nhcwb16 : Bool
  zeroPoint : Int
deriving Repr, DecidableEq, Inhabited

structure AddrRange where
  region : Nat
  addr : Nat
  len : Nat
deriving Repr, DecidableEq, Inhabited

structure BlockOp where
  kind : OpKind
  subOp : Nat                 -- pooling mode / elementwise mode
  ifm : FM
  ifm2 : Option FM
  ifm2Scalar : Option Nat
  ifm2Broadcast : Nat
  ofm : FM
  kernelW : Nat               -- dilated extents (register value + 1)
  kernelH : Nat
  strideX : Nat
  strideY : Nat
  dilationX : Nat
  dilationY : Nat
  partKernelFirst : Bool
  padTop : Nat
  padLeft : Nat
  padBottom : Nat
  padRight : Nat
  upscale : Nat
  weights : List AddrRange
  scales : List AddrRange
  activation : Nat
  actMin : Int
  actMax : Int
  blkW : Nat
  blkH : Nat
  blkD : Nat
  ibEnd : Nat
  abStart : Nat
  ib2Start : Option Nat
  accFormat : Nat
  blockdep : Nat
  ofmPrecision : Nat
  ifmPrecision : Nat
  ofmScale : Option Nat
  opaScale : Option Nat
  opbScale : Option Nat
deriving Repr, Inhabited

structure DmaOp where
  src : AddrRange
  dst : AddrRange
  param : Nat
deriving Repr, DecidableEq, Inhabited

inductive DecOp where
  | block (b : BlockOp)
  | dma (d : DmaOp)
deriving Repr, Inhabited

/-- element size in bytes from the 2-bit activation precision field (0: 8 bit, 1: 16 bit, 2: 32 bit) -/
def precBytes (p : Nat) : Except String Nat :=
  if p = 0 then .ok 1 else if p = 1 then .ok 2 else if p = 2 then .ok 4 else .error s!"reserved precision {p}"

def elementwiseIsUnary (mode : Nat) : Bool := mode = 5 || mode = 6 || mode = 7   -- LRELU, ABS, CLZ

def ceilDiv (a b : Nat) : Nat := (a + b - 1) / b

def decodeIfmLike (r : RegFile) (which : Nat) (h w d : Nat) : Except String FM := do
  -- which: 0 = IFM, 1 = IFM2
  let (regionR, b0, sx, sy, sc, w0R, h0R, h1R, precR, zpR, nm) :=
    if which = 0 then (IFM_REGION, IFM_BASE0, IFM_STRIDE_X, IFM_STRIDE_Y, IFM_STRIDE_C, IFM_WIDTH0_M1, IFM_HEIGHT0_M1,
                       IFM_HEIGHT1_M1, IFM_PRECISION, IFM_ZERO_POINT, "IFM")
    else (IFM2_REGION, IFM2_BASE0, IFM2_STRIDE_X, IFM2_STRIDE_Y, IFM2_STRIDE_C, IFM2_WIDTH0_M1, IFM2_HEIGHT0_M1,
          IFM2_HEIGHT1_M1, IFM2_PRECISION, IFM2_ZERO_POINT, "IFM2")
  let prec ← r.get0 precR (nm ++ "_PRECISION")
  let eb ← precBytes (prec / 4 % 4)
  let bases ← (List.range 4).mapM fun i => r.get1 (b0 + i) s!"{nm}_BASE{i}"
  return { region := ← r.get0 regionR (nm ++ "_REGION"), base := bases,
           height0 := (← r.get0 h0R (nm ++ "_HEIGHT0_M1")) + 1, height1 := (← r.get0 h1R (nm ++ "_HEIGHT1_M1")) + 1,
           width0 := (← r.get0 w0R (nm ++ "_WIDTH0_M1")) + 1,
           strideX := ← r.get1 sx (nm ++ "_STRIDE_X"), strideY := ← r.get1 sy (nm ++ "_STRIDE_Y"),
           strideC := ← r.get1 sc (nm ++ "_STRIDE_C"),
           height := h, width := w, depth := d, elemBytes := eb, signed := prec % 2 = 1,
           nhcwb16 := prec / 64 % 2 = 1, zeroPoint := s16 (← r.get0 zpR (nm ++ "_ZERO_POINT")) }

def decodeOfm (r : RegFile) : Except String FM := do
  let prec ← r.get0 OFM_PRECISION "OFM_PRECISION"
  let eb ← precBytes (prec / 2 % 4)
  let bases ← (List.range 4).mapM fun i => r.get1 (OFM_BASE0 + i) s!"OFM_BASE{i}"
  return { region := ← r.get0 OFM_REGION "OFM_REGION", base := bases,
           height0 := (← r.get0 OFM_HEIGHT0_M1 "OFM_HEIGHT0_M1") + 1, height1 := (← r.get0 OFM_HEIGHT1_M1 "OFM_HEIGHT1_M1") + 1,
           width0 := (← r.get0 OFM_WIDTH0_M1 "OFM_WIDTH0_M1") + 1,
           strideX := ← r.get1 OFM_STRIDE_X "OFM_STRIDE_X", strideY := ← r.get1 OFM_STRIDE_Y "OFM_STRIDE_Y",
           strideC := ← r.get1 OFM_STRIDE_C "OFM_STRIDE_C",
           height := (← r.get0 OFM_HEIGHT_M1 "OFM_HEIGHT_M1") + 1, width := (← r.get0 OFM_WIDTH_M1 "OFM_WIDTH_M1") + 1,
           depth := (← r.get0 OFM_DEPTH_M1 "OFM_DEPTH_M1") + 1, elemBytes := eb, signed := prec % 2 = 1,
           nhcwb16 := prec / 64 % 2 = 1, zeroPoint := s16 (← r.get0 OFM_ZERO_POINT "OFM_ZERO_POINT") }

/-- weight / scale ranges of the active cores: a zero length means "core inactive" -/
def decodeRanges (r : RegFile) (regionR b0 l0 b1 l1 : Nat) (nm : String) (ncores : Nat) :
    Except String (List AddrRange) := do
  match r.r1.getD b0 none with
  | none => return []          -- operation without weights / scales
  | some a0 =>
    let region ← r.get0 regionR (nm ++ "_REGION")
    let len0 ← r.get1 l0 (nm ++ "_LENGTH")
    let first : List AddrRange := if len0 % 2 ^ 32 = 0 then [] else [⟨region, a0, len0 % 2 ^ 32⟩]
    if ncores ≥ 2 then
      match r.r1.getD b1 none, r.r1.getD l1 none with
      | some a1, some len1 =>
        return first ++ (if len1 % 2 ^ 32 = 0 then [] else [⟨region, a1, len1 % 2 ^ 32⟩])
      | _, _ => return first
    else return first

/-- Build the operation record the hardware executes at an `NPU_OP_*` command.
    The IFM extent is *implicit* (there is no IFM height/width register): it follows from the OFM
    extent, kernel, stride, padding and upscaling. -/
def decodeBlock (kind : OpKind) (param : Nat) (r : RegFile) (ncores : Nat) : Except String BlockOp := do
  let ofm ← decodeOfm r
  let isEw := kind == .elementwise
  let ks ← if isEw then pure 0 else r.get0 KERNEL_STRIDE "KERNEL_STRIDE"
  let kw ← if isEw then pure 1 else do pure ((← r.get0 KERNEL_WIDTH_M1 "KERNEL_WIDTH_M1") + 1)
  let kh ← if isEw then pure 1 else do pure ((← r.get0 KERNEL_HEIGHT_M1 "KERNEL_HEIGHT_M1") + 1)
  let sx := 1 + ks % 2 + 2 * (ks / 64 % 8)
  let sy := 1 + ks / 2 % 2 + 2 * (ks / 512 % 8)
  let padTop := if isEw then 0 else r.get0D IFM_PAD_TOP 0
  let padLeft := if isEw then 0 else r.get0D IFM_PAD_LEFT 0
  let padBottom := if isEw then 0 else r.get0D IFM_PAD_BOTTOM 0
  let padRight := if isEw then 0 else r.get0D IFM_PAD_RIGHT 0
  let upscale ← r.get0 IFM_UPSCALE "IFM_UPSCALE"
  let ifmDepthReg := (← r.get0 IFM_DEPTH_M1 "IFM_DEPTH_M1") + 1
  -- implicit IFM extent
  let needH := (ofm.height - 1) * sy + kh
  let needW := (ofm.width - 1) * sx + kw
  let ifmHUp := needH - padTop - padBottom
  let ifmWUp := needW - padLeft - padRight
  let ifmH := if upscale = 0 then ifmHUp else ceilDiv ifmHUp 2
  let ifmW := if upscale = 0 then ifmWUp else ceilDiv ifmWUp 2
  let ifmD := if kind == .conv then ifmDepthReg
              else if kind == .pool && param = 2 then ifmDepthReg   -- REDUCE_SUM
              else ofm.depth
  let ifm ← decodeIfmLike r 0 ifmH ifmW ifmD
  let bc := r.get0D IFM2_BROADCAST 0
  let binary := isEw && !elementwiseIsUnary param
  let useScalar := binary && bc / 128 % 2 = 1
  let ifm2 ← if binary && !useScalar then do
      let h2 := if bc % 2 = 1 then 1 else ofm.height
      let w2 := if bc / 2 % 2 = 1 then 1 else ofm.width
      let d2 := if bc / 4 % 2 = 1 then 1 else ofm.depth
      pure (some (← decodeIfmLike r 1 h2 w2 d2))
    else pure none
  let ifm2Scalar ← if useScalar then do pure (some (← r.get0 IFM2_SCALAR "IFM2_SCALAR")) else pure none
  let hasW := kind == .conv || kind == .depthwise
  let weights ← if hasW then decodeRanges r WEIGHT_REGION WEIGHT_BASE WEIGHT_LENGTH WEIGHT1_BASE WEIGHT1_LENGTH "WEIGHT" ncores
                else pure []
  let scales ← if hasW then decodeRanges r SCALE_REGION SCALE_BASE SCALE_LENGTH SCALE1_BASE SCALE1_LENGTH "SCALE" ncores
               else pure []
  return { kind := kind, subOp := param, ifm := ifm, ifm2 := ifm2, ifm2Scalar := ifm2Scalar,
           ifm2Broadcast := if binary then bc else 0, ofm := ofm,
           kernelW := kw, kernelH := kh, strideX := sx, strideY := sy,
           dilationX := 1 + ks / 8 % 2, dilationY := 1 + ks / 16 % 2, partKernelFirst := ks / 4 % 2 = 1,
           padTop := padTop, padLeft := padLeft, padBottom := padBottom, padRight := padRight, upscale := upscale,
           weights := weights, scales := scales,
           activation := ← r.get0 ACTIVATION "ACTIVATION",
           actMin := s16 (← r.get0 ACTIVATION_MIN "ACTIVATION_MIN"), actMax := s16 (← r.get0 ACTIVATION_MAX "ACTIVATION_MAX"),
           blkW := (← r.get0 OFM_BLK_WIDTH_M1 "OFM_BLK_WIDTH_M1") + 1, blkH := (← r.get0 OFM_BLK_HEIGHT_M1 "OFM_BLK_HEIGHT_M1") + 1,
           blkD := (← r.get0 OFM_BLK_DEPTH_M1 "OFM_BLK_DEPTH_M1") + 1,
           ibEnd := ← r.get0 IFM_IB_END "IFM_IB_END", abStart := ← r.get0 AB_START "AB_START",
           ib2Start := if binary && !useScalar then r.r0.getD IFM2_IB_START none else none,
           accFormat := ← r.get0 ACC_FORMAT "ACC_FORMAT", blockdep := ← r.get0 BLOCKDEP "BLOCKDEP",
           ofmPrecision := ← r.get0 OFM_PRECISION "OFM_PRECISION", ifmPrecision := ← r.get0 IFM_PRECISION "IFM_PRECISION",
           ofmScale := r.r1.getD OFM_SCALE none, opaScale := r.r1.getD OPA_SCALE none, opbScale := r.r1.getD OPB_SCALE none }

def decodeDma (param : Nat) (r : RegFile) : Except String DmaOp := do
  let len ← r.get1 DMA0_LEN "DMA0_LEN"
  return { src := ⟨← r.get0 DMA0_SRC_REGION "DMA0_SRC_REGION", ← r.get1 DMA0_SRC "DMA0_SRC", len⟩,
           dst := ⟨← r.get0 DMA0_DST_REGION "DMA0_DST_REGION", ← r.get1 DMA0_DST "DMA0_DST", len⟩, param := param }

/-- A decoded stream: operations in program order, each with the waits that were issued between the
    previous operation and this one (`kernelWait`, `dmaWait`: `none` = no wait command). -/
structure StreamOp where
  op : DecOp
  kernelWait : Option Nat
  dmaWait : Option Nat
deriving Repr, Inhabited

structure Stream where
  ops : List StreamOp
  stops : Nat                 -- number of NPU_OP_STOP commands
  endsWithStop : Bool
  trailing : Nat              -- commands after the first STOP
  ncores : Nat
deriving Repr, Inhabited

def decodeStream (words : List Nat) : Except String Stream := do
  let cmds ← splitCmds words
  let evs ← events cmds
  -- PARALLEL_MODE (U65) is set once at the start: cores - 1
  let ncores := match cmds.find? (fun c => match c with | .c0 op _ => op = PARALLEL_MODE | _ => false) with
    | some (.c0 _ p) => p + 1
    | _ => 1
  let rec go (es : List Event) (kw dw : Option Nat) (acc : List StreamOp) (stops : Nat) (after : Nat) :
      Except String (List StreamOp × Nat × Nat) :=
    match es with
    | [] => .ok (acc.reverse, stops, after)
    | .kernelWait n :: rest => go rest (some n) dw acc stops (if stops > 0 then after + 1 else after)
    | .dmaWait n :: rest => go rest kw (some n) acc stops (if stops > 0 then after + 1 else after)
    | .stop _ :: rest => go rest kw dw acc (stops + 1) (if stops > 0 then after + 1 else after)
    | .other _ _ :: rest => go rest kw dw acc stops (if stops > 0 then after + 1 else after)
    | .op kind param regs :: rest =>
      if stops > 0 then go rest kw dw acc stops (after + 1) else
      match kind with
      | .dma => do
        let d ← decodeDma param regs
        go rest none none (⟨.dma d, kw, dw⟩ :: acc) stops after
      | k => do
        let b ← decodeBlock k param regs ncores
        go rest none none (⟨.block b, kw, dw⟩ :: acc) stops after
  let (ops, stops, after) ← go evs none none [] 0 0
  let endsWithStop := match evs.getLast? with | some (.stop _) => true | _ => false
  return { ops := ops, stops := stops, endsWithStop := endsWithStop, trailing := after, ncores := ncores }

end VelaVerif.Decode
