/-!
# Fixed-point requantisation arithmetic (specification side, import-free)

Reference side: the gemmlowp primitives the TensorFlow Lite reference kernels are built from
(`SaturatingRoundingDoublingHighMul`, `RoundingDivideByPOT`, `MultiplyByQuantizedMultiplier`, the
int64 variant used by the 16-bit kernels, `QuantizeMultiplier`), written over unbounded `Int`.

NPU side: the three OFM rounding modes of the Ethos-U (`OFM_PRECISION` bits 15:14) applied to
`acc * scale >> shift`.

Both are plain total functions so that `Props/C01.lean` can relate them.
-/
namespace VelaVerif.Requant

def INT32_MIN : Int := -2147483648
def INT32_MAX : Int := 2147483647

/-- gemmlowp `SaturatingRoundingDoublingHighMul(a, b)`:
    `(a*b + nudge) / 2^31` with C++ truncating division, nudge = 2^30 for a non-negative product and
    1 - 2^30 otherwise; saturates for a = b = INT32_MIN. -/
def srdhm (a b : Int) : Int :=
  if a = INT32_MIN ∧ b = INT32_MIN then INT32_MAX else
  let ab := a * b
  let nudge : Int := if ab ≥ 0 then 1073741824 else 1 - 1073741824
  Int.tdiv (ab + nudge) 2147483648

/-- gemmlowp `RoundingDivideByPOT(x, e)`: round to nearest, ties away from zero
    (`mask = 2^e - 1; remainder = x & mask; threshold = (mask >> 1) + (x < 0); (x >> e) + (remainder > threshold)`). -/
def rdivpot (x : Int) (e : Nat) : Int :=
  let p : Int := (2 : Int) ^ e
  let rem := x % p
  let thr := (p - 1) / 2 + (if x < 0 then 1 else 0)
  x / p + (if rem > thr then 1 else 0)

/-- TFLite `MultiplyByQuantizedMultiplier(x, m, shift)` for 32-bit accumulators
    (`shift > 0` is a left shift applied before the high multiplication). -/
def mbqm (x m : Int) (shift : Int) : Int :=
  let left : Nat := if shift > 0 then shift.toNat else 0
  let right : Nat := if shift > 0 then 0 else (-shift).toNat
  rdivpot (srdhm (x * (2 : Int) ^ left) m) right

/-- TFLite `MultiplyByQuantizedMultiplier(int64 x, m, shift)` used by the 16-bit kernels with 64-bit
    accumulators: 16-bit reduced multiplier, single rounding (add half, arithmetic shift). -/
def reducedMultiplier (m : Int) : Int := if m < 0x7FFF0000 then (m + 32768) / 65536 else 0x7FFF

def mbqm64 (x m : Int) (shift : Int) : Int :=
  let total : Int := 15 - shift
  if total < 1 then 0 else
  let t := total.toNat
  (x * reducedMultiplier m + (2 : Int) ^ (t - 1)) / (2 : Int) ^ t

/-! ## NPU output scaling -/

/-- rounding mode field of `OFM_PRECISION` (bits 15:14) -/
inductive Rounding where
  | tfl | truncate | natural
deriving Repr, DecidableEq, Inhabited

def Rounding.ofBits (b : Nat) : Option Rounding :=
  if b = 0 then some .tfl else if b = 1 then some .truncate else if b = 2 then some .natural else none

/-- "TFL" rounding of the NPU: the product is rounded at bit 31 (ties towards +∞), the remaining
    `shift - 31` bits are removed with round-half-away-from-zero; a shift below 31 is a single
    rounding at bit `shift`. -/
def npuScaleTfl (acc scale : Int) (shift : Nat) : Int :=
  if shift ≥ 31 then
    let hi := (acc * scale + 1073741824) / 2147483648          -- floor((p + 2^30) / 2^31)
    let e := shift - 31
    let p : Int := (2 : Int) ^ e
    let q := hi / p
    let r := hi % p
    -- nearest, ties away from zero
    if 2 * r > p then q + 1
    else if 2 * r = p then (if hi < 0 then q else q + 1)
    else q
  else
    let l := 31 - shift
    (acc * (2 : Int) ^ l * scale + 1073741824) / 2147483648

/-- "NATURAL": add half, arithmetic shift right (ties towards +∞) -/
def npuScaleNatural (acc scale : Int) (shift : Nat) : Int :=
  if shift = 0 then acc * scale else (acc * scale + (2 : Int) ^ (shift - 1)) / (2 : Int) ^ shift

/-- "TRUNCATE": towards zero -/
def npuScaleTruncate (acc scale : Int) (shift : Nat) : Int :=
  Int.tdiv (acc * scale) ((2 : Int) ^ shift)

def npuScale (r : Rounding) (acc scale : Int) (shift : Nat) : Int :=
  match r with
  | .tfl => npuScaleTfl acc scale shift
  | .truncate => npuScaleTruncate acc scale shift
  | .natural => npuScaleNatural acc scale shift

def clamp (v lo hi : Int) : Int := if v < lo then lo else if v > hi then hi else v

/-! ## `QuantizeMultiplier` from exact float32 operands

A float32 is given by its bit pattern. The reference computes a *double* real multiplier and then
`QuantizeMultiplier`: `q = frexp(d)`, `q_fixed = round(q * 2^31)`. Products of two float32 values
are exact in double; a quotient is rounded to 53 bits, ties to even. All of this is integer arithmetic. -/

/-- positive normal float32 bit pattern -> (mantissa, exponent) with value = mantissa * 2^exponent, mantissa < 2^24 -/
def f32Decode (bits : Nat) : Option (Nat × Int) :=
  let sign := bits / 2147483648
  let e := bits / 8388608 % 256
  let m := bits % 8388608
  if sign ≠ 0 ∨ e = 255 then none
  else if e = 0 then (if m = 0 then none else some (m, -149))
  else some (m + 8388608, (e : Int) - 150)

def natLog2 (n : Nat) : Nat := Nat.log2 n

/-- round the positive rational `num / den * 2^e` to a double: returns (m, e') with 2^52 ≤ m < 2^53 and
    value = m * 2^e' (round to nearest even; normal range assumed) -/
def roundToDouble (num den : Nat) (e : Int) : Option (Nat × Int) :=
  if num = 0 ∨ den = 0 then none else
  -- scale so that the quotient has at least 55 significant bits
  let ln := natLog2 num
  let ld := natLog2 den
  let up : Nat := if ld + 56 > ln then ld + 56 - ln else 0
  let n2 := num * 2 ^ up
  let q := n2 / den
  let r := n2 % den
  let lq := natLog2 q                      -- q has lq+1 bits, lq ≥ 55
  let drop := lq + 1 - 53
  let m := q / 2 ^ drop
  let restQ := q % 2 ^ drop
  let half := 2 ^ (drop - 1)
  -- sticky: remainder of the division counts as "more than zero"
  let gt := restQ > half ∨ (restQ = half ∧ r > 0)
  let eq := restQ = half ∧ r = 0
  let m' := if gt then m + 1 else if eq then (if m % 2 = 1 then m + 1 else m) else m
  let e' : Int := e - up + drop
  if m' = 2 ^ 53 then some (2 ^ 52, e' + 1) else some (m', e')

/-- `QuantizeMultiplier` of a double `m * 2^e` (2^52 ≤ m < 2^53): frexp gives q = m / 2^53, shift = e + 53;
    q_fixed = round-half-away(q * 2^31) = (m + 2^21) >> 22 -/
def quantizeMultiplierOfDouble (m : Nat) (e : Int) : Int × Int :=
  let q := (m + 2097152) / 4194304
  let shift := e + 53
  let (q, shift) := if q = 2147483648 then (q / 2, shift + 1) else (q, shift)
  if shift < -31 then (0, 0) else ((q : Int), shift)

/-- multiplier and shift for the real multiplier `s1 * s2 / s3` computed in double from three float32
    scales (the int8 convolution path of the reference) -/
def quantizeMultiplierConv (s1 s2 s3 : Nat) : Option (Int × Int) := do
  let (m1, e1) ← f32Decode s1
  let (m2, e2) ← f32Decode s2
  let (m3, e3) ← f32Decode s3
  -- the product of two 24-bit mantissas is exact in double
  let (m, e) ← roundToDouble (m1 * m2) m3 (e1 + e2 - e3)
  some (quantizeMultiplierOfDouble m e)

/-- `s1 / s2` in double (requantise) -/
def quantizeMultiplierRatio (s1 s2 : Nat) : Option (Int × Int) := do
  let (m1, e1) ← f32Decode s1
  let (m2, e2) ← f32Decode s2
  let (m, e) ← roundToDouble m1 m2 (e1 - e2)
  some (quantizeMultiplierOfDouble m e)

end VelaVerif.Requant
