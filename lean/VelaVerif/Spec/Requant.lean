/-!
# Fixed-point requantisation arithmetic (specification side, import-free)

Reference side: the gemmlowp primitives the TensorFlow Lite reference kernels are built from
(`SaturatingRoundingDoublingHighMul`, `RoundingDivideByPOT`, `MultiplyByQuantizedMultiplier`, the
int64 variant used by the 16-bit kernels, `QuantizeMultiplier`), written over unbounded `Int`.

NPU side: the three OFM rounding modes of the Ethos-U (`OFM_PRECISION` bits 15:14) applied to
`acc * scale >> shift`.

Both are plain total functions so that `Props/C01.lean` can relate them.
-/
namespace VelaVerif.Requant

def INT32_MIN : Int := -2147483648
def INT32_MAX : Int := 2147483647

/-- gemmlowp `SaturatingRoundingDoublingHighMul(a, b)`:
    `(a*b + nudge) / 2^31` with C++ truncating division, nudge = 2^30 for a non-negative product and
    1 - 2^30 otherwise; saturates for a = b = INT32_MIN. -/
def srdhm (a b : Int) : Int :=
  if a = INT32_MIN ∧ b = INT32_MIN then INT32_MAX else
  let ab := a * b
  let nudge : Int := if ab ≥ 0 then 1073741824 else 1 - 1073741824
  Int.tdiv (ab + nudge) 2147483648

/-- gemmlowp `RoundingDivideByPOT(x, e)`: round to nearest, ties away from zero
    (`mask = 2^e - 1; remainder = x & mask; threshold = (mask >> 1) + (x < 0); (x >> e) + (remainder > threshold)`). -/
def rdivpot (x : Int) (e : Nat) : Int :=
  let p : Int := (2 : Int) ^ e
  let rem := x % p
  let thr := (p - 1) / 2 + (if x < 0 then 1 else 0)
  x / p + (if rem > thr then 1 else 0)

/-- TFLite `MultiplyByQuantizedMultiplier(x, m, shift)` for 32-bit accumulators
    (`shift > 0` is a left shift applied before the high multiplication). -/
def mbqm (x m : Int) (shift : Int) : Int :=
  let left : Nat := if shift > 0 then shift.toNat else 0
  let right : Nat := if shift > 0 then 0 else (-shift).toNat
  rdivpot (srdhm (x * (2 : Int) ^ left) m) right

/-- TFLite `MultiplyByQuantizedMultiplier(int64 x, m, shift)` used by the 16-bit kernels with 64-bit
    accumulators: 16-bit reduced multiplier, single rounding (add half, arithmetic shift). -/
def reducedMultiplier (m : Int) : Int := if m < 0x7FFF0000 then (m + 32768) / 65536 else 0x7FFF

def mbqm64 (x m : Int) (shift : Int) : Int :=
  let total : Int := 15 - shift
  if total < 1 then 0 else
  let t := total.toNat
  (x * reducedMultiplier m + (2 : Int) ^ (t - 1)) / (2 : Int) ^ t

/-! ## NPU output scaling -/

/-- rounding mode field of `OFM_PRECISION` (bits 15:14) -/
inductive Rounding where
  | tfl | truncate | natural
deriving Repr, DecidableEq, Inhabited

def Rounding.ofBits (b : Nat) : Option Rounding :=
  if b = 0 then some .tfl else if b = 1 then some .truncate else if b = 2 then some .natural else none

/-- "TFL" rounding of the NPU: the product is rounded at bit 31 (ties towards +∞), the remaining
    `shift - 31` bits are removed with round-half-away-from-zero; a shift below 31 is a single
    rounding at bit `shift`. -/
def npuScaleTfl (acc scale : Int) (shift : Nat) : Int :=
  if shift ≥ 31 then
    let hi := (acc * scale + 1073741824) / 2147483648          -- floor((p + 2^30) / 2^31)
    let e := shift - 31
    let p : Int := (2 : Int) ^ e
    let q := hi / p
    let r := hi % p
    -- nearest, ties away from zero
    if 2 * r > p then q + 1
    else if 2 * r = p then (if hi < 0 then q else q + 1)
    else q
  else
    let l := 31 - shift
    (acc * (2 : Int) ^ l * scale + 1073741824) / 2147483648

/-- "NATURAL": add half, arithmetic shift right (ties towards +∞) -/
def npuScaleNatural (acc scale : Int) (shift : Nat) : Int :=
  if shift = 0 then acc * scale else (acc * scale + (2 : Int) ^ (shift - 1)) / (2 : Int) ^ shift

/-- "TRUNCATE": towards zero -/
def npuScaleTruncate (acc scale : Int) (shift : Nat) : Int :=
  Int.tdiv (acc * scale) ((2 : Int) ^ shift)

def npuScale (r : Rounding) (acc scale : Int) (shift : Nat) : Int :=
  match r with
  | .tfl => npuScaleTfl acc scale shift
  | .truncate => npuScaleTruncate acc scale shift
  | .natural => npuScaleNatural acc scale shift

def clamp (v lo hi : Int) : Int := if v < lo then lo else if v > hi then hi else v

/-! ## `QuantizeMultiplier` from exact float32 operands

A float32 is given by its bit pattern. The reference computes a *double* real multiplier and then
`QuantizeMultiplier`: `q = frexp(d)`, `q_fixed = round(q * 2^31)`. Products of two float32 values
are exact in double; a quotient is rounded to 53 bits, ties to even. All of this is integer arithmetic. -/

/-- positive normal float32 bit pattern -> (mantissa, exponent) with value = mantissa * 2^exponent, mantissa < 2^24 -/
def f32Decode (bits : Nat) : Option (Nat × Int) :=
  let sign := bits / 2147483648
  let e := bits / 8388608 % 256
  let m := bits % 8388608
  if sign ≠ 0 ∨ e = 255 then none
  else if e = 0 then (if m = 0 then none else some (m, -149))
  else some (m + 8388608, (e : Int) - 150)

def natLog2 (n : Nat) : Nat := Nat.log2 n

/-- round the positive rational `num / den * 2^e` to a binary float with `p` significant bits: returns (m, e')
    with 2^(p-1) ≤ m < 2^p and value = m * 2^e' (round to nearest even; normal range assumed) -/
def roundTo (p : Nat) (num den : Nat) (e : Int) : Option (Nat × Int) :=
  if num = 0 ∨ den = 0 ∨ p = 0 then none else
  -- scale so that the quotient has at least p + 2 significant bits
  let ln := natLog2 num
  let ld := natLog2 den
  let up : Nat := if ld + p + 3 > ln then ld + p + 3 - ln else 0
  let n2 := num * 2 ^ up
  let q := n2 / den
  let r := n2 % den
  let lq := natLog2 q                      -- q has lq+1 bits, lq ≥ p + 2
  let drop := lq + 1 - p
  let m := q / 2 ^ drop
  let restQ := q % 2 ^ drop
  let half := 2 ^ (drop - 1)
  -- sticky: a non-zero remainder of the division counts as "more than zero"
  let gt := restQ > half ∨ (restQ = half ∧ r > 0)
  let eq := restQ = half ∧ r = 0
  let m' := if gt then m + 1 else if eq then (if m % 2 = 1 then m + 1 else m) else m
  let e' : Int := e - up + drop
  if m' = 2 ^ p then some (2 ^ (p - 1), e' + 1) else some (m', e')

/-- `QuantizeMultiplier` of a positive double `m * 2^e` given with `p ≤ 53` significant bits:
    frexp gives q = m / 2^p, shift = e + p; q_fixed = round-half-away(q * 2^31) -/
def quantizeMultiplierOf (p : Nat) (m : Nat) (e : Int) : Int × Int :=
  -- bring to 53 bits (exact)
  let m53 := m * 2 ^ (53 - p)
  let e53 := e - ((53 - p : Nat) : Int)
  let q := (m53 + 2097152) / 4194304
  let shift := e53 + 53
  let (q, shift) := if q = 2147483648 then (q / 2, shift + 1) else (q, shift)
  if shift < -31 then (0, 0) else ((q : Int), shift)

/-- `double(s1) * double(s2) / double(s3)` (signed 8/16-bit convolutions) -/
def qmConvDouble (s1 s2 s3 : Nat) : Option (Int × Int) := do
  let (m1, e1) ← f32Decode s1
  let (m2, e2) ← f32Decode s2
  let (m3, e3) ← f32Decode s3
  let (m, e) ← roundTo 53 (m1 * m2) m3 (e1 + e2 - e3)       -- the product of two 24-bit mantissas is exact in double
  some (quantizeMultiplierOf 53 m e)

/-- `double(float(s1 * s2)) / double(s3)` (uint8 convolutions, fully connected) -/
def qmConvFloatProduct (s1 s2 s3 : Nat) : Option (Int × Int) := do
  let (m1, e1) ← f32Decode s1
  let (m2, e2) ← f32Decode s2
  let (m3, e3) ← f32Decode s3
  let (mp, ep) ← roundTo 24 (m1 * m2) 1 (e1 + e2)
  let (m, e) ← roundTo 53 mp m3 (ep - e3)
  some (quantizeMultiplierOf 53 m e)

/-- `double(s1) / double(s2)` (requantise) -/
def qmRatioDouble (s1 s2 : Nat) : Option (Int × Int) := do
  let (m1, e1) ← f32Decode s1
  let (m2, e2) ← f32Decode s2
  let (m, e) ← roundTo 53 m1 m2 (e1 - e2)
  some (quantizeMultiplierOf 53 m e)

/-- `float(s1 / s2)` widened to double (RELU with rescale, LEAKY_RELU identity) -/
def qmRatioFloat (s1 s2 : Nat) : Option (Int × Int) := do
  let (m1, e1) ← f32Decode s1
  let (m2, e2) ← f32Decode s2
  let (m, e) ← roundTo 24 m1 m2 (e1 - e2)
  some (quantizeMultiplierOf 24 m e)

/-- `float(float(s1 * s2) / s3)` widened to double (MUL, LEAKY_RELU alpha) -/
def qmMulFloat (s1 s2 s3 : Nat) : Option (Int × Int) := do
  let (m1, e1) ← f32Decode s1
  let (m2, e2) ← f32Decode s2
  let (m3, e3) ← f32Decode s3
  let (mp, ep) ← roundTo 24 (m1 * m2) 1 (e1 + e2)
  let (m, e) ← roundTo 24 mp m3 (ep - e3)
  some (quantizeMultiplierOf 24 m e)

/-- `qmMulFloat` with a SIGNED middle factor (LEAKY_RELU: `alpha` may be zero or negative; the reference kernel has no check).
    IEEE multiplication and division are symmetric in the sign and `QuantizeMultiplier` rounds with `std::round`
    (half away from zero), so the multiplier of a negative factor is the negated multiplier of its magnitude; a zero factor
    gives `QuantizeMultiplier(0) = (0, 0)`. -/
def qmMulFloatSigned (s1 s2 s3 : Nat) : Option (Int × Int) :=
  let neg := s2 / 2147483648 % 2 = 1
  let mag := s2 % 2147483648
  if mag = 0 then (do let _ ← f32Decode s1; let _ ← f32Decode s3; some (0, 0)) else do
  let (m, s) ← qmMulFloat s1 mag s3
  some (if neg then -m else m, s)

/-- the three multipliers of ADD / SUB: `s1 / (2 max)`, `s2 / (2 max)`, `(2 max) / (2^leftShift * so)` in double -/
def qmAdd (s1 s2 so : Nat) (leftShift : Nat) : Option ((Int × Int) × (Int × Int) × (Int × Int)) := do
  let (m1, e1) ← f32Decode s1
  let (m2, e2) ← f32Decode s2
  let (mo, eo) ← f32Decode so
  -- larger of the two input scales (positive floats compare like their bit patterns)
  let (mx, ex) := if s1 ≥ s2 then (m1, e1) else (m2, e2)
  let (a, ea) ← roundTo 53 m1 mx (e1 - ex - 1)
  let (b, eb) ← roundTo 53 m2 mx (e2 - ex - 1)
  let (c, ec) ← roundTo 53 mx mo (ex + 1 - eo - leftShift)
  some (quantizeMultiplierOf 53 a ea, quantizeMultiplierOf 53 b eb, quantizeMultiplierOf 53 c ec)

/-- the three multipliers of SQUARED_DIFFERENCE: `s1 / (2 max)`, `s2 / (2 max)`, `(2 max)² / (2^(2·leftShift) · so)` in double -/
def qmSquaredDifference (s1 s2 so : Nat) (leftShift : Nat) : Option ((Int × Int) × (Int × Int) × (Int × Int)) := do
  let (m1, e1) ← f32Decode s1
  let (m2, e2) ← f32Decode s2
  let (mo, eo) ← f32Decode so
  let (mx, ex) := if s1 ≥ s2 then (m1, e1) else (m2, e2)
  let (a, ea) ← roundTo 53 m1 mx (e1 - ex - 1)
  let (b, eb) ← roundTo 53 m2 mx (e2 - ex - 1)
  let (c, ec) ← roundTo 53 (mx * mx) mo (2 * (ex + 1) - eo - 2 * leftShift)
  some (quantizeMultiplierOf 53 a ea, quantizeMultiplierOf 53 b eb, quantizeMultiplierOf 53 c ec)

/-- `round(float(f) / scale)` with float32 division and round-half-away-from-zero, for f = num (a small
    non-negative integer); the caller negates for negative f -/
def quantizeSmall (f : Nat) (scale : Nat) : Option Int := do
  if f = 0 then some 0 else
  let (ms, es) ← f32Decode scale
  let (m, e) ← roundTo 24 f ms (-es)
  if e ≥ 0 then some ((m * 2 ^ e.toNat : Nat) : Int)
  else
    let k := (-e).toNat
    some (((m + 2 ^ (k - 1)) / 2 ^ k : Nat) : Int)

/-- `CalculateActivationRangeQuantized` for fused activation code `faf` (0 none, 1 RELU, 2 RELU_N1_TO_1, 3 RELU6) -/
def activationRange (faf : Nat) (scale : Nat) (zp lo hi : Int) : Option (Int × Int) := do
  if faf = 0 then some (lo, hi)
  else if faf = 1 then some (max lo zp, hi)
  else if faf = 3 then some (max lo zp, min hi (zp + (← quantizeSmall 6 scale)))
  else if faf = 2 then
    let q ← quantizeSmall 1 scale
    some (max lo (zp - q), min hi (zp + q))
  else none

end VelaVerif.Requant
