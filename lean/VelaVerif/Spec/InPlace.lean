/-!
# In-place operation: when may an operator write its result into the buffer of one of its operands?

Independent of Vela's rules.  A program is the operator sequence of the network in execution order (the order
`Spec/Arena.lean` and `Spec/Inference.lean` take from the output graph; here one node per pass of the graph before
it is cut, which refines it: an NPU subgraph is a run of consecutive nodes), every operator with the *values* it
reads and writes (a value = one tensor of the source graph; its clones on the two sides of a CPU/NPU boundary are the
same value), the values the caller reads after the inference and the values that persist into the next inference.

A *share* is the implementation's decision "operator `op` puts value `ofm` into the buffer of value `ifm`"
(`LiveRangeGraph.fuse_ranges(ifm, ofm)`), `copy` = the operator copies `ifm` to `ofm` unchanged (Memcpy).

* `neededAfter p i a`: `a` is read by an operator behind `i`, or by the caller, or persists.
* `unsafeShares`: a non-copying share whose `ifm` is needed after the operator — the operator destroys a value that is
  still to be read.
* `clobbers`: the same over whole buffers: all values connected by shares occupy one buffer (`bufferOf`); an operator
  that writes `w` (and is not the identity on that buffer) destroys every other value of the buffer that was
  defined before and is needed after.  This is the judgement that sees a protected value shared with a copy and
  overwritten by the operator *behind* the copy.
-/
namespace VelaVerif.InPlaceSpec

structure Node where
  reads : List Nat
  writes : List Nat
deriving Repr, DecidableEq, Inhabited

structure Prog where
  nodes : List Node
  /-- values the caller reads after the inference (network outputs) -/
  outputs : List Nat
  /-- values that persist into the next inference (variable tensors) -/
  persistent : List Nat
deriving Repr, Inhabited

structure Share where
  op : Nat
  ifm : Nat
  ofm : Nat
  copy : Bool
deriving Repr, DecidableEq, Inhabited

def readsAt (p : Prog) (j a : Nat) : Bool :=
  match p.nodes[j]? with
  | some n => n.reads.contains a
  | none => false

def writesAt (p : Prog) (j a : Nat) : Bool :=
  match p.nodes[j]? with
  | some n => n.writes.contains a
  | none => false

/-- some operator behind `i` reads `a` -/
def readLater (p : Prog) (i a : Nat) : Bool :=
  (List.range p.nodes.length).any fun j => decide (i < j) && readsAt p j a

def neededAfter (p : Prog) (i a : Nat) : Bool :=
  p.outputs.contains a || p.persistent.contains a || readLater p i a

/-- `a` is dead after operator `i`: nobody reads it any more -/
def DeadAfter (p : Prog) (i a : Nat) : Prop :=
  a ∉ p.outputs ∧ a ∉ p.persistent ∧ ∀ j, i < j → readsAt p j a = false

/-- shares that destroy a value still to be read -/
def unsafeShares (p : Prog) (shares : List Share) : List Share :=
  shares.filter fun s => !s.copy && neededAfter p s.op s.ifm

/-- one closure step: add everything directly shared with a member -/
def grow (shares : List Share) (cls : List Nat) : List Nat :=
  shares.foldl (fun acc s =>
    let acc := if acc.contains s.ifm && !acc.contains s.ofm then acc ++ [s.ofm] else acc
    if acc.contains s.ofm && !acc.contains s.ifm then acc ++ [s.ifm] else acc) cls

def growN (shares : List Share) : Nat → List Nat → List Nat
  | 0, cls => cls
  | n + 1, cls => growN shares n (grow shares cls)

/-- all values in the buffer of `a` -/
def bufferOf (shares : List Share) (a : Nat) : List Nat := growN shares (shares.length + 1) [a]

/-- `a` holds a value when operator `i` starts: an input of the network, or written by an earlier operator -/
def definedBefore (p : Prog) (i a : Nat) : Bool :=
  !((List.range p.nodes.length).any fun j => writesAt p j a) ||
  (List.range i).any fun j => writesAt p j a

/-- operator `i` copies within the buffer when it writes `w` (identity on the bytes) -/
def isCopyInBuffer (shares : List Share) (i w : Nat) : Bool :=
  shares.any fun s => s.op == i && s.ofm == w && s.copy

/-- `(operator, written value, destroyed value)` -/
def clobbers (p : Prog) (shares : List Share) : List (Nat × Nat × Nat) :=
  (List.range p.nodes.length).flatMap fun i =>
    match p.nodes[i]? with
    | none => []
    | some n =>
      n.writes.flatMap fun w =>
        if isCopyInBuffer shares i w then []
        else ((bufferOf shares w).filter fun t => t != w && definedBefore p i t && neededAfter p i t).map fun t => (i, w, t)

end VelaVerif.InPlaceSpec
