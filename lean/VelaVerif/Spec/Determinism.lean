/-!
# C14 determinism specification

An *equivalence class of runs* is a set of compilations of the same model with the same effective
options: different process histories (what was compiled before in the same interpreter), different
entry points (`main`, `convert`, `convert_bytes` with the options the latter two hard-code),
different `PYTHONHASHSEED` values. The property says every class is a singleton up to what can be
observed: ending, output bytes (given as size + SHA-256 digest) and the summary figures.
-/
namespace VelaVerif.Determinism

/-- One observed run. -/
structure Obs where
  /-- `ok`, `vela-error:<diagnosis>`, `exception:<Type>@<module>.<function>`, `system-exit:<code>` -/
  status : String
  /-- size in bytes of the output model, 0 if none was produced -/
  size : Nat
  /-- SHA-256 of the output model, `-` if none was produced -/
  digest : String
  /-- the compared columns of the summary CSV, verbatim (empty for entry points that write no summary) -/
  figures : List String
deriving Repr, DecidableEq

/-- The specification: all runs of one class are indistinguishable. -/
def Deterministic (l : List Obs) : Prop := ∀ a ∈ l, ∀ b ∈ l, a = b

/-- Executable judge: every observation equals the first one. -/
def agree : List Obs → Bool
  | [] => true
  | a :: t => t.all (fun b => b == a)

/-- Position (in the class) of the first observation that differs from observation 0. -/
def firstDisagreement : List Obs → Option Nat
  | [] => none
  | a :: t => (t.findIdx? (fun b => !(b == a))).map (· + 1)

end VelaVerif.Determinism
