/-!
# C14 determinism specification

An *equivalence class of runs* is a set of compilations of the same model with the same effective
options: different process histories (what was compiled before in the same interpreter), different
entry points (`main`, `convert`, `convert_bytes` with the options the latter two hard-code),
different `PYTHONHASHSEED` values. The property says every class is a singleton up to what can be
observed: ending, output bytes (given as size + SHA-256 digest) and the summary figures.
-/
namespace VelaVerif.Determinism

/-- One observed run. -/
structure Obs where
  /-- `ok`, `vela-error:<diagnosis>`, `exception:<Type>@<module>.<function>`, `system-exit:<code>` -/
  status : String
  /-- size in bytes of the output model, 0 if none was produced -/
  size : Nat
  /-- SHA-256 of the output model, `-` if none was produced -/
  digest : String
  /-- the compared columns of the summary CSV, verbatim (empty for entry points that write no summary) -/
  figures : List String
deriving Repr, DecidableEq

/-- The specification: all runs of one class are indistinguishable. -/
def Deterministic (l : List Obs) : Prop := ∀ a ∈ l, ∀ b ∈ l, a = b

/-- Executable judge: every observation equals the first one. -/
def agree : List Obs → Bool
  | [] => true
  | a :: t => t.all (fun b => b == a)

/-- Position (in the class) of the first observation that differs from observation 0. -/
def firstDisagreement : List Obs → Option Nat
  | [] => none
  | a :: t => (t.findIdx? (fun b => !(b == a))).map (· + 1)

/-! ## The caller's buffer (round 6)

`convert_bytes` is handed a buffer the caller owns (a `bytearray` is parsed in place, a `memoryview` is copied).  The
request of a compilation is the *content* of that buffer; a compilation that edits the buffer changes the request of every
later compilation of "the same" buffer.  The clause: after the call the buffer holds what it held before. -/

/-- One call with a caller-owned buffer: the buffer's content (size + SHA-256) right before and right after the call. -/
structure BufObs where
  sizeBefore : Nat
  digestBefore : String
  sizeAfter : Nat
  digestAfter : String
deriving Repr, DecidableEq

/-- the input buffer is not modified -/
def BufObs.kept (o : BufObs) : Prop := o.sizeBefore = o.sizeAfter ∧ o.digestBefore = o.digestAfter

/-- The specification: no call modified the buffer it was handed. -/
def InputKept (l : List BufObs) : Prop := ∀ o ∈ l, o.kept

/-- Executable judge. -/
def inputKept (l : List BufObs) : Bool := l.all fun o => o.sizeBefore == o.sizeAfter && o.digestBefore == o.digestAfter

/-- Position of the first call that modified its buffer. -/
def firstModified (l : List BufObs) : Option Nat := l.findIdx? fun o => !(o.sizeBefore == o.sizeAfter && o.digestBefore == o.digestAfter)

end VelaVerif.Determinism
