import VelaVerif.Spec.Conflicts
/-!
# Block jobs of consecutive kernel operations and BLOCKDEP (specification side, C04)

Execution model (trusted, hand-written): a kernel operation is executed as a sequence of *block
jobs*.  OFM blocks (`OFM_BLK_*`) are visited depth first, then along the width, then along the
height; a convolution (and REDUCE_SUM) runs one job per IFM depth slice of each OFM block and writes the block
in the job of the last slice; every other operation runs one job per OFM block.  Jobs enter the pipeline in
order.  `BLOCKDEP = b` lets a job start while at most `b` earlier jobs are outstanding, so job `f` of an
operation can run together with the `k`-th job from the end of the previous kernel operation exactly
when `f + k < b`.  Only the read stage of the later job can overtake the write stage of the earlier
one (read-after-write); the stages of one kind stay in order.

`checkPair` demands, for all such `f`, `k`, that the IFM / IFM2 elements job `f` *needs* (the receptive
field of its OFM block: kernel, stride, top/left padding, up-scaling, clipped to the IFM) share no byte
with the OFM block job `k`-from-the-end writes.  Footprints are exact bytes from the register values.
-/
namespace VelaVerif.BlockJobs
open VelaVerif.Decode VelaVerif.Footprint VelaVerif.Conflicts

/-- half-open box in feature-map coordinates -/
structure Box where
  y0 : Nat
  y1 : Nat
  x0 : Nat
  x1 : Nat
  c0 : Nat
  c1 : Nat
deriving Repr, DecidableEq, Inhabited

def Box.isEmpty (b : Box) : Bool := b.y1 ≤ b.y0 || b.x1 ≤ b.x0 || b.c1 ≤ b.c0

/-- exact bytes of the elements of `box` in the (tiled, strided) feature map `fm` -/
def boxPieces (fm : FM) (b : Box) : List Piece :=
  if b.isEmpty then [] else
  (List.range (b.y1 - b.y0)).flatMap fun dy =>
    (List.range (b.x1 - b.x0)).flatMap fun dx =>
      let y := b.y0 + dy
      let x := b.x0 + dx
      if fm.nhcwb16 then
        (List.range (b.c1 / 16 + 1 - b.c0 / 16)).filterMap fun db =>
          let lo := max b.c0 ((b.c0 / 16 + db) * 16)
          let hi := min b.c1 ((b.c0 / 16 + db + 1) * 16)
          if lo < hi then some ⟨fmAddr fm y x lo, (hi - lo) * fm.elemBytes, 0⟩ else none
      else [⟨fmAddr fm y x b.c0, (b.c1 - b.c0) * fm.elemBytes, 0⟩]

/-- number of blocks along one axis -/
def nblk (size blk : Nat) : Nat := if blk = 0 then 0 else ceilDiv size blk

/-- operations that accumulate over IFM depth slices: convolution and REDUCE_SUM -/
def slicesDepth (b : BlockOp) : Bool := b.kind == .conv || (b.kind == .pool && b.subOp = 2)

/-- Depth of one IFM slice, as the SHRAM input-buffer layout requires it: 16-bit elements 16 channels
    (rounded to 4), 32-bit elements 8 channels, otherwise 32 channels — 16 with part-kernel-first traversal — rounded to the 8-deep micro
    block.  (Taking the *smaller* plausible slice can only weaken what `checkPair` demands.) -/
def ifmSliceDepth (b : BlockOp) : Nat :=
  if b.ifm.elemBytes = 2 then ceilDiv (min b.ifm.depth 16) 4 * 4
  else if b.ifm.elemBytes = 4 then ceilDiv (min b.ifm.depth 8) 8 * 8
  else ceilDiv (min b.ifm.depth (if b.partKernelFirst then 16 else 32)) 8 * 8

def isConv (b : BlockOp) : Bool := slicesDepth b

/-- jobs per OFM block -/
def slices (b : BlockOp) : Nat :=
  if slicesDepth b then (if ifmSliceDepth b = 0 then 1 else max 1 (ceilDiv b.ifm.depth (ifmSliceDepth b))) else 1

def totalBlocks (b : BlockOp) : Nat :=
  nblk b.ofm.width b.blkW * nblk b.ofm.height b.blkH * nblk b.ofm.depth b.blkD

/-- OFM block number `index` (depth first, then width, then height), clipped to the OFM -/
def ofmBlockBox (b : BlockOp) (index : Nat) : Option Box :=
  let wb := nblk b.ofm.width b.blkW
  let db := nblk b.ofm.depth b.blkD
  if index ≥ totalBlocks b ∨ wb = 0 ∨ db = 0 then none else
  let z := b.blkD * (index % db)
  let x := b.blkW * ((index / db) % wb)
  let y := b.blkH * (index / (db * wb))
  some { y0 := y, y1 := min (y + b.blkH) b.ofm.height, x0 := x, x1 := min (x + b.blkW) b.ofm.width,
         c0 := z, c1 := min (z + b.blkD) b.ofm.depth }

/-- rows/columns of the IFM that the OFM rows/columns `[o0, o1)` need -/
def need (o0 o1 stride kdil pad size : Nat) (upscale : Nat) : Nat × Nat :=
  if o1 ≤ o0 then (0, 0) else
  let lo := o0 * stride - pad                         -- truncated subtraction = clipping at 0
  let hi := (o1 - 1) * stride + kdil - min pad ((o1 - 1) * stride + kdil)
  -- IFM_UPSCALE 1 (nearest): up-scaled position u is element u/2; 2 (zeros): only even positions are elements
  let (lo, hi) := if upscale = 1 then (lo / 2, ceilDiv hi 2) else if upscale = 2 then (ceilDiv lo 2, ceilDiv hi 2) else (lo, hi)
  (min lo size, min hi size)

/-- the IFM elements job `f` of `b` needs; `none` if `b` has no such job -/
def jobInputBox (b : BlockOp) (f : Nat) : Option Box := do
  let s := slices b
  let ob ← ofmBlockBox b (f / s)
  let (y0, y1) := need ob.y0 ob.y1 b.strideY b.kernelH b.padTop b.ifm.height b.upscale
  let (x0, x1) := need ob.x0 ob.x1 b.strideX b.kernelW b.padLeft b.ifm.width b.upscale
  let (c0, c1) :=
    if isConv b then
      let d := ifmSliceDepth b
      (min ((f % s) * d) b.ifm.depth, min ((f % s + 1) * d) b.ifm.depth)
    else (min ob.c0 b.ifm.depth, min ob.c1 b.ifm.depth)
  some { y0 := y0, y1 := y1, x0 := x0, x1 := x1, c0 := c0, c1 := c1 }

/-- the IFM2 elements job `f` of an elementwise operation needs (broadcast axes have extent 1) -/
def jobInput2Box (b : BlockOp) (fm2 : FM) (f : Nat) : Option Box := do
  let ob ← ofmBlockBox b f
  let ax (lo hi size : Nat) : Nat × Nat := if size = 1 then (0, 1) else (min lo size, min hi size)
  let (y0, y1) := ax ob.y0 ob.y1 fm2.height
  let (x0, x1) := ax ob.x0 ob.x1 fm2.width
  let (c0, c1) := ax ob.c0 ob.c1 fm2.depth
  some { y0 := y0, y1 := y1, x0 := x0, x1 := x1, c0 := c0, c1 := c1 }

/-- the OFM block written by the `k`-th job from the end (`none`: no such job, or the job writes nothing) -/
def jobOutputBox (p : BlockOp) (k : Nat) : Option Box :=
  let s := slices p
  if k % s ≠ 0 then none else
  let t := totalBlocks p
  if k / s + 1 > t then none else ofmBlockBox p (t - 1 - k / s)

def overlapMsg (what : String) (fm : FM) (ib : Box) (pofm : FM) (ob : Box) : Option String :=
  if fm.region ≠ pofm.region then none else
  if piecesOverlap (boxPieces fm ib) (boxPieces pofm ob) then
    some s!"{what} rows {ib.y0}..{ib.y1} cols {ib.x0}..{ib.x1} ch {ib.c0}..{ib.c1} overlaps OFM block rows {ob.y0}..{ob.y1} cols {ob.x0}..{ob.x1} ch {ob.c0}..{ob.c1}"
  else none

/-- SHRAM between consecutive kernel operations: the activation stage of `p`'s last jobs still reads its lookup
    table while, with `BLOCKDEP > 0`, the first jobs of `c` already fill their IFM buffers and accumulators.
    If those lie over the table slot, the table is corrupted under `p` (write-after-read on SHRAM bytes). -/
def checkPairShram (s : Shram) (p c : BlockOp) (pi ci : Nat) : List String :=
  if c.blockdep = 0 then [] else
  if conflict (lutRead s p) (shramWrites s c) then
    [s!"op {ci} BLOCKDEP {c.blockdep}: its SHRAM buffers ({describe (lutRead s p) (shramWrites s c)}) lie over the lookup table op {pi} is still reading"]
  else []

/-- read-after-write conflicts the programmed BLOCKDEP of `c` allows against the previous kernel operation `p` -/
def checkPair (p c : BlockOp) (pi ci : Nat) : List String :=
  (List.range c.blockdep).flatMap fun f =>
    (List.range (c.blockdep - f)).flatMap fun k =>
      match jobOutputBox p k with
      | none => []
      | some ob =>
        let m1 := match jobInputBox c f with
          | some ib => (overlapMsg "IFM" c.ifm ib p.ofm ob).toList
          | none => []
        let m2 := match c.ifm2 with
          | some fm2 => (match jobInput2Box c fm2 f with
              | some ib => (overlapMsg "IFM2" fm2 ib p.ofm ob).toList
              | none => [])
          | none => []
        (m1 ++ m2).map fun m =>
          s!"op {ci} BLOCKDEP {c.blockdep}: job {f} may run with job {k} from the end of op {pi}: {m}"

def totalJobs (b : BlockOp) : Nat := totalBlocks b * slices b

/-- *Observation, not part of the property*: if the kernel operation in the middle has fewer jobs than the
    BLOCKDEP of its successor, then under the "at most BLOCKDEP outstanding jobs" reading jobs of the operation
    *before* it could still be in flight.  Counts the read-after-write overlaps that reading would allow between
    `c` and the operation two back (`pp`), which `calc_blockdep` never looks at. -/
def checkSkip (pp mid c : BlockOp) : Nat :=
  let m := totalJobs mid
  ((List.range c.blockdep).flatMap fun f =>
    (List.range (c.blockdep - f - m)).filter fun k =>
      match jobOutputBox pp k, jobInputBox c f with
      | some ob, some ib => (overlapMsg "IFM" c.ifm ib pp.ofm ob).isSome
      | _, _ => false).length

def skipCount (ops : List StreamOp) : Nat :=
  let ks := ops.filterMap fun so => match so.op with | .block b => some b | .dma _ => none
  let rec go : List BlockOp → Nat
    | pp :: mid :: c :: rest => checkSkip pp mid c + go (mid :: c :: rest)
    | _ => 0
  go ks

/-- every kernel operation against the kernel operation before it (DMAs in between do not matter) -/
def checkStream (s : Shram) (ops : List StreamOp) : List String :=
  let rec go (l : List (StreamOp × Nat)) (prev : Option (BlockOp × Nat)) (acc : List String) : List String :=
    match l with
    | [] => acc
    | (so, i) :: rest =>
      match so.op with
      | .dma _ => go rest prev acc
      | .block c =>
        match prev with
        | none => go rest (some (c, i)) acc
        | some (p, pi) => go rest (some (c, i)) (acc ++ checkPair p c pi i ++ checkPairShram s p c pi i)
  go ops.zipIdx none []

end VelaVerif.BlockJobs
