import VelaVerif.Spec.Footprint
/-!
# C02, address-generation link: an access stays inside the *tensor's own allocation*

Stated independently of Vela's address functions, over plain numbers:

* `footprintInsideAllocation fm addr size`: every byte the hardware touches through the decoded
  feature map `fm` (tiles, strides, extents: `Footprint.fmPieces`) lies in `[addr, addr + size)`, the
  allocation of the tensor the operation was created from;
* `elementsInside`, `elementsDisjoint`: the addresses a tensor hands out for its elements lie inside its
  allocation and do not overlap;
* `tilesMatch`: the tiled addressing of the registers reaches, for every element of the box, exactly the
  address the tensor itself gives that element.
-/
namespace VelaVerif.TensorBounds
open VelaVerif.Decode VelaVerif.Footprint

/-- every byte of every piece of the access lies in `[addr, addr + size)` -/
def piecesInside (ps : List Piece) (addr size : Nat) : Bool :=
  ps.all fun p => decide (addr ≤ p.addr) && decide (p.addr + p.len ≤ addr + size)

def footprintInsideAllocation (fm : FM) (addr size : Nat) : Bool :=
  piecesInside (fmPieces fm 0 0 0) addr size

/-- the Prop the checker decides -/
def FootprintInside (fm : FM) (addr size : Nat) : Prop :=
  ∀ y x c k, y < fm.height → x < fm.width → c < fm.depth → k < fm.elemBytes →
    addr ≤ fmAddr fm y x c + k ∧ fmAddr fm y x c + k < addr + size

/-- first offending piece, for the report -/
def firstOutside (ps : List Piece) (addr size : Nat) : Option Piece :=
  ps.find? fun p => !(decide (addr ≤ p.addr) && decide (p.addr + p.len ≤ addr + size))

/-- `e`-byte elements at addresses `as` all lie in `[addr, addr + size)` -/
def elementsInside (addr size e : Nat) (as : List Nat) : Bool :=
  as.all fun a => decide (addr ≤ a) && decide (a + e ≤ addr + size)

/-- the `e`-byte ranges at the addresses `as` are pairwise disjoint -/
def elementsDisjoint (e : Nat) : List Nat → Bool
  | [] => true
  | a :: rest => (rest.all fun b => decide (a + e ≤ b) || decide (b + e ≤ a)) && elementsDisjoint e rest

/-- `expected` lists, in (y, x, c) row-major order over the box `h × w × d`, the address the tensor itself
    gives each element; the register addressing must reproduce every one -/
def tilesMatch (fm : FM) (expected : List Nat) : Bool :=
  decide (expected.length = fm.height * fm.width * fm.depth) &&
  (List.range fm.height).all fun y => (List.range fm.width).all fun x => (List.range fm.depth).all fun c =>
    expected[(y * fm.width + x) * fm.depth + c]? == some (fmAddr fm y x c)

end VelaVerif.TensorBounds
