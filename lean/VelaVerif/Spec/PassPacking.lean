import VelaVerif.Model.PassPacking
/-!
# What a pass list has to satisfy (C01 / C16 / C11), independent of how it was computed

The graph description (`PassPacking.Graph`) and the regenerated operator-type sets are shared with the model; nothing of the
model's algorithm is used. The clauses are `Prop`s with executable `Bool` twins (`…B`, equivalences in
`Lemmas/PassPackingSpec.lean`) that the check applies to the REAL `sg.passes`:

* `Partition`  (a) every operator of the subgraph is in exactly one pass, and a pass holds nothing else;
* `TopoOrder`  (b) in the concatenation of the passes every producer of an input of an operator comes before that operator
                   (= the pass list is a topological order of the quotient graph and a pass is in dataflow order);
* `PassShape`  (c) an NPU pass has at most one main operator (MAC / elementwise main / Memcpy) and it comes first, every other
                   operator is activation-like (`npu_post_ops` / `npu_post_fuse_limited_ops`, at most one of the latter and
                   none behind a main operator), all run on the NPU; every operator but the last is fused into a later operator of the pass over a tensor that
                   nobody else reads (`SafeFuse`: the `can_pack` conditions, stated here as the conditions under which executing
                   producer and consumer as one operation cannot be observed); a CPU pass is one operator.
* `WF`         the well-formedness of a graph description that the theorems about the model assume (checked on every real graph).
-/
namespace VelaVerif.PassPackingSpec
open VelaVerif.PassPacking VelaVerif.Gen.PassPacking

/-- a pass as far as the Spec is concerned: the operators of the graph it holds, in its order (the 1x1 average pool that
    `create_primary_op` may put in front is not an operator of the graph: `created`) -/
structure SPass where
  ops : List Nat
  created : Bool
  placement : Nat
  inputs : List Nat
  outputs : List Nat
  deriving Repr, DecidableEq

def flat (ps : List SPass) : List Nat := ps.flatMap (·.ops)

/-- a pass of the model (or of the real pass list, which the harness renders in the same form) as the Spec sees it -/
def toSpec (p : Pass) : SPass := ⟨p.ops, p.created, p.placement.code, p.inputs, p.outputs⟩

/-! ## (a) -/

def Partition (G : Graph) (ps : List SPass) : Prop :=
  (∀ o, o < G.ops.length → (flat ps).count o = 1) ∧ (∀ o ∈ flat ps, o < G.ops.length)

def partitionB (G : Graph) (ps : List SPass) : Bool :=
  ((List.range G.ops.length).all fun o => (flat ps).count o == 1) && (flat ps).all fun o => decide (o < G.ops.length)

/-! ## (b) -/

/-- producers of the inputs of operator `c` -/
def producersOf (G : Graph) (c : Nat) : List Nat :=
  (G.op c).inputs.flatMap fun i => match i with | none => [] | some t => (G.tensor t).ops

def TopoOrder (G : Graph) (ps : List SPass) : Prop :=
  ∀ j c, (flat ps)[j]? = some c → ∀ pr ∈ producersOf G c, pr ∈ (flat ps).take j

def topoB (G : Graph) (ps : List SPass) : Bool :=
  (List.range (flat ps).length).all fun j =>
    match (flat ps)[j]? with
    | none => true
    | some c => (producersOf G c).all fun pr => ((flat ps).take j).contains pr

/-! ## (c) -/

/-- activation-like operators: the RELU family of `operation.Op.is_relu_op` and TANH / SIGMOID / QUANTIZE. Deliberately NOT
    read from pass_packing's own sets: a pass that fuses anything else behind its main operator is what the clause excludes. -/
def isLimitedType (ty : Nat) : Bool := ty == opSigmoid || ty == opTanh || ty == opQuantize
def isPostType (ty : Nat) : Bool := reluOps.contains ty || isLimitedType ty
def isMainType (ty : Nat) : Bool := !isPostType ty
def isReluAct (a : Option Nat) : Bool := match a with | none => true | some x => reluOps.contains x

/-- the consumers of a tensor are `c` once, or nobody -/
def onlyConsumer (cs : List (Option Nat)) (c : Nat) : Bool := cs == [] || cs == [some c]

/-- Producer `o` and consumer `c` can be executed as one operation over tensor `t` without anybody noticing:
    `t` is produced by `o` alone; every output of `o` is read by `c` once or by nobody (in particular it is no graph output);
    `o` is not a TRANSPOSE (its transposition lives in the strides of its own output tensor); a RELU-type `c` only follows
    a RELU-type or no fused activation (the clamps are intersected; a table lookup would have to come first);
    `c` reads the whole of `t` (no slice read offset) in the shape `o` wrote it. -/
def safeFuseB (G : Graph) (t o c : Nat) : Bool :=
  let po := G.op o
  let pc := G.op c
  (G.tensor t).ops == [o] && pc.inputs.contains (some t) &&
  po.outputs.all (fun u => onlyConsumer (G.tensor u).consumers c) &&
  po.origType != opTranspose &&
  (!reluOps.contains pc.type || isReluAct po.act) &&
  (!(some t == pc.ifm) || (!pc.ro0 && (pc.ifmShapes.length == 0 || po.ofmShapes.length == 0 || po.ofmShapes[0]? == pc.ifmShapes[0]?))) &&
  (!(pc.ifm2.isSome && some t == pc.ifm2) || (!pc.ro1 &&
      (some t == pc.ifm || pc.ifmShapes.length == 0 || po.ofmShapes.length == 0 || po.ofmShapes[0]? == pc.ifmShapes[1]?)))

def SafeFuse (G : Graph) (t o c : Nat) : Prop := safeFuseB G t o c = true

/-- every operator of `ops` but the last is fused into a later one -/
def internalB (G : Graph) (ops : List Nat) : Bool :=
  (List.range (ops.length - 1)).all fun i =>
    let o := ops.getD i 0
    (ops.drop (i + 1)).any fun c => (G.op c).inputs.any fun inp => match inp with
      | none => false
      | some t => safeFuseB G t o c

def npuShapeB (G : Graph) (p : SPass) : Bool :=
  let mains := p.ops.filter fun o => isMainType (G.op o).type
  mains.length ≤ 1 && mains.all (fun o => p.ops.head? == some o) && (!p.created || mains.isEmpty) &&
  p.ops.all (fun o => isMainType (G.op o).type || isPostType (G.op o).type) &&
  (p.ops.filter fun o => isLimitedType (G.op o).type).length ≤ 1 &&
  -- TANH / SIGMOID / QUANTIZE are not fused behind a main operator
  (mains.isEmpty || (p.ops.filter fun o => isLimitedType (G.op o).type).isEmpty) &&
  p.ops.all (fun o => (G.op o).runOnNpu) &&
  (!(p.ops.any fun o => (G.op o).type == opMemcpy) || p.ops.length == 1)

def passShapeB (G : Graph) (p : SPass) : Bool :=
  !p.ops.isEmpty &&
  (if p.placement == Placement.npu.code then internalB G p.ops && npuShapeB G p
   else if p.placement == Placement.cpu.code then p.ops.length == 1 && !p.created
   else if p.placement == Placement.memoryOnly.code then
     internalB G p.ops && !p.created && p.ops.all fun o => memoryOnlyOps.contains (G.op o).type
   -- the start-up pass collects the Const / Placeholder / SubgraphInput operators: nothing is fused
   else if p.placement == Placement.startupInit.code then !p.created && p.ops.all fun o => startupInitOps.contains (G.op o).type
   else false)

def PassShape (G : Graph) (ps : List SPass) : Prop := ∀ p ∈ ps, passShapeB G p = true
def shapeB (G : Graph) (ps : List SPass) : Bool := ps.all (passShapeB G)

/-- the start-up pass aside, a pass with a created primary operator or a real one is what the NPU executes as ONE operation:
    a RELU-type operator and a TANH / SIGMOID operator in one pass would need two activation functions (the command generator
    keeps the last) -/
def oneActivationB (G : Graph) (p : SPass) : Bool :=
  !(p.ops.any (fun o => reluOps.contains (G.op o).type) && p.ops.any (fun o => (G.op o).type == opSigmoid || (G.op o).type == opTanh))
  || p.placement != Placement.npu.code

/-! ## well-formed graph descriptions -/

/-- `o` contributes to a graph output -/
inductive Needed (G : Graph) : Nat → Prop
  | out (o t : Nat) : t ∈ (G.op o).outputs → none ∈ (G.tensor t).consumers → Needed G o
  | step (o t c : Nat) : t ∈ (G.op o).outputs → some c ∈ (G.tensor t).consumers → Needed G c → Needed G o

/-- one round of the backwards closure -/
def neededStep (G : Graph) (have_ : List Nat) : List Nat :=
  (List.range G.ops.length).filter fun o =>
    have_.contains o || (G.op o).outputs.any fun t => (G.tensor t).consumers.any fun c => match c with
      | none => true
      | some c => have_.contains c

def neededIter (G : Graph) : Nat → List Nat → List Nat
  | 0, l => l
  | n + 1, l => neededIter G n (neededStep G l)

structure WF (G : Graph) : Prop where
  inputsRange : ∀ o < G.ops.length, ∀ t, some t ∈ (G.op o).inputs → t < G.tensors.length
  outputsRange : ∀ o < G.ops.length, ∀ t ∈ (G.op o).outputs, t < G.tensors.length
  producersRange : ∀ t < G.tensors.length, ∀ p ∈ (G.tensor t).ops, p < G.ops.length
  consumersRange : ∀ t < G.tensors.length, ∀ c, some c ∈ (G.tensor t).consumers → c < G.ops.length
  graphOutputsRange : ∀ t ∈ G.outputs, t < G.tensors.length
  /-- `tens.ops` and `op.outputs` describe the same relation, without repetitions -/
  prodOut : ∀ o < G.ops.length, ∀ t < G.tensors.length, o ∈ (G.tensor t).ops ↔ t ∈ (G.op o).outputs
  opsNodup : ∀ t < G.tensors.length, (G.tensor t).ops.Nodup
  outputsNodup : ∀ o < G.ops.length, (G.op o).outputs.Nodup
  /-- `consumers()` is what `update_consumers` builds: one entry per input position, one `None` per graph output -/
  consCount : ∀ t < G.tensors.length, ∀ c < G.ops.length, (G.tensor t).consumers.count (some c) = (G.op c).inputs.count (some t)
  noneCount : ∀ t < G.tensors.length, (G.tensor t).consumers.count none = G.outputs.count t
  /-- acyclic: a rank that grows from producer to consumer -/
  acyclic : ∃ rk : Nat → Nat, ∀ c < G.ops.length, ∀ pr ∈ producersOf G c, rk pr < rk c
  /-- nothing is dead (`update_consumers` only walks what the outputs need) -/
  needed : ∀ o < G.ops.length, Needed G o
  /-- Const / Placeholder / SubgraphInput have no inputs -/
  startupNoInputs : ∀ o < G.ops.length, startupInitOps.contains (G.op o).type = true → (G.op o).inputs = []
  /-- an operator does not read two different outputs of one producer -/
  noDoubleEdge : ∀ c < G.ops.length, ∀ t u, some t ∈ (G.op c).inputs → some u ∈ (G.op c).inputs → t ≠ u →
    ∀ pr, pr ∈ (G.tensor t).ops → pr ∈ (G.tensor u).ops → False

/-- executable check of `WF`; acyclicity is checked on the witness "rank = operator number" (the harness numbers the
    operators topologically) -/
def wfB (G : Graph) : Bool :=
  let no := G.ops.length
  let nt := G.tensors.length
  let opsR := List.range no
  let tensR := List.range nt
  opsR.all (fun o => (G.op o).inputs.all (fun i => match i with | none => true | some t => decide (t < nt)) &&
                     (G.op o).outputs.all (fun t => decide (t < nt))) &&
  tensR.all (fun t => (G.tensor t).ops.all (fun p => decide (p < no)) &&
                      (G.tensor t).consumers.all (fun c => match c with | none => true | some c => decide (c < no))) &&
  G.outputs.all (fun t => decide (t < nt)) &&
  opsR.all (fun o => tensR.all fun t => (G.tensor t).ops.contains o == (G.op o).outputs.contains t) &&
  tensR.all (fun t => decide ((G.tensor t).ops.Nodup)) &&
  opsR.all (fun o => decide ((G.op o).outputs.Nodup)) &&
  tensR.all (fun t => opsR.all (fun c => (G.tensor t).consumers.count (some c) == (G.op c).inputs.count (some t)) &&
                      (G.tensor t).consumers.count none == G.outputs.count t) &&
  opsR.all (fun c => (producersOf G c).all fun pr => decide (pr < c)) &&
  opsR.all (fun o => (neededIter G no []).contains o) &&
  opsR.all (fun o => !startupInitOps.contains (G.op o).type || (G.op o).inputs.isEmpty) &&
  opsR.all (fun c => (G.op c).inputs.all fun i => (G.op c).inputs.all fun j => match i, j with
    | some t, some u => t == u || (G.tensor t).ops.all fun pr => !(G.tensor u).ops.contains pr
    | _, _ => true)

end VelaVerif.PassPackingSpec
