import VelaVerif.Model.SoftmaxGraph
import VelaVerif.Spec.NpuWide
/-!
# Executing the lowered SOFTMAX program on one row, with the executor's own per-element functions

`SoftmaxGraph.lower` turns the 31 graph steps of `get_graph_8bit` into NPU-level steps. `runRow` executes them on ONE row
(the innermost dimension of the SOFTMAX input: the decomposition treats every (batch, height, width) position
independently — the depthwise max pool and REDUCE_SUM reduce over the depth, every other operation is elementwise with the
per-position tensors broadcast over the depth). A value is a vector over the depth or a per-position scalar.

Per element the functions are the ones `Spec/NpuWide.lean` runs on the decoded stream: `NpuWide.ewWideValue` (MUL / ADD /
SUB / CLZ / SHR / SHL on wide operands), `NpuWide.reduceSumValue`, `NpuWide.outPlain` and `NpuWide.lutOffset` (output stage
without / with a table). The 8-bit max pool is the expression of `NpuSem.poolValue` (sub-operation MAX) followed by the
activation clamp. The registers are built as Vela builds them: `OFM_SCALE = multiplier | shift << 32`, OPA = OPB scale 1,
no operand selected for scaling, global scale on for MUL / ADD / SUB.
-/
namespace VelaVerif.SoftmaxExec
open VelaVerif.SoftmaxGraph VelaVerif.Requant VelaVerif.NpuWide

inductive Val where
  | vec (l : List Int)
  | scal (v : Int)
deriving Repr, DecidableEq, Inhabited

def rounding : NRound → Rounding
  | .tfl => .tfl | .truncate => .truncate | .natural => .natural

/-- elementwise sub-operation number of `NPU_OP_ELEMENTWISE` -/
def ewMode : OpKind → Option Nat
  | .mul => some 0 | .add => some 1 | .sub => some 2 | .clz => some 7 | .shr => some 8 | .shl => some 9
  | .maxpool | .reduceSum => none

def operandVal (xs : List Int) (env : List Val) : Operand → Except String Val
  | .input => pure (.vec xs)
  | .pass n => match env[n]? with
    | some v => pure v
    | none => throw "operand is the OFM of a later pass"
  | .const v _ => pure (.scal v)

/-- the output stage of a step applied to the scaled value -/
def outStage (s : NStep) (table : List Int) (v : Int) : Except String Int :=
  match s.lut with
  | none => pure (outPlain s.ofm32 s.ozp s.actMin s.actMax v)
  | some (lo, bits) =>
    match lutOffset lo bits s.ozp s.actMin s.actMax v with
    | .error e => throw e
    | .ok off =>
      match table[off.toNat]? with
      | some e => pure e
      | none => throw "table entry missing"

/-- `OFM_SCALE` register value of a step -/
def ofsReg (s : NStep) : Nat := s.mult + s.shift * 4294967296

/-- one element of an elementwise step (`a`, `b` raw operand values) -/
def ewElem (s : NStep) (table : List Int) (mode : Nat) (a b : Int) : Except String Int :=
  match ewWideValue mode s.in32 true false (rounding s.rounding) 0 1 1 (ofsReg s) (a - s.aZp) (b - s.bZp) with
  | .error e => throw e
  | .ok v => outStage s table v

def mapE (f : Int → Except String Int) : List Int → Except String (List Int)
  | [] => pure []
  | x :: r => match f x with
    | .error e => throw e
    | .ok y => match mapE f r with
      | .error e => throw e
      | .ok ys => pure (y :: ys)

def zipE (f : Int → Int → Except String Int) : List Int → List Int → Except String (List Int)
  | x :: r, y :: r' => match f x y with
    | .error e => throw e
    | .ok z => match zipE f r r' with
      | .error e => throw e
      | .ok zs => pure (z :: zs)
  | _, _ => pure []

def vecOf (r : Except String (List Int)) : Except String Val :=
  match r with | .ok l => pure (.vec l) | .error e => throw e

def scalOf (r : Except String Int) : Except String Val :=
  match r with | .ok v => pure (.scal v) | .error e => throw e

/-- binary elementwise operation with the per-position operand broadcast over the depth -/
def binop (f : Int → Int → Except String Int) : Val → Val → Except String Val
  | .vec l, .scal b => vecOf (mapE (fun a => f a b) l)
  | .scal a, .vec l => vecOf (mapE (fun b => f a b) l)
  | .scal a, .scal b => scalOf (f a b)
  | .vec l1, .vec l2 =>
    if l1.length = l2.length then vecOf (zipE f l1 l2) else throw "operand extents differ"

def evalStep (table xs : List Int) (env : List Val) (s : NStep) : Except String Val :=
  match s.kind with
  | .maxpool =>
    match operandVal xs env s.a with
    | .ok (.vec (v0 :: rest)) => pure (.scal (clamp (rest.foldl max v0 - s.aZp + s.ozp) s.actMin s.actMax))
    | .ok _ => throw "max pool over the depth needs a non-empty vector"
    | .error e => throw e
  | .reduceSum =>
    match operandVal xs env s.a with
    | .ok (.vec l) => scalOf (outStage s table (reduceSumValue (rounding s.rounding) s.mult s.shift s.aZp l))
    | .ok _ => throw "REDUCE_SUM needs a vector"
    | .error e => throw e
  | .clz =>
    match operandVal xs env s.a with
    | .ok (.vec l) => vecOf (mapE (fun a => ewElem s table 7 a 0) l)
    | .ok (.scal a) => scalOf (ewElem s table 7 a 0)
    | .error e => throw e
  | k =>
    match ewMode k, s.b with
    | some mode, some b =>
      match operandVal xs env s.a, operandVal xs env b with
      | .ok va, .ok vb => binop (ewElem s table mode) va vb
      | .error e, _ => throw e
      | _, .error e => throw e
    | _, _ => throw "malformed step"

def runSteps (table xs : List Int) : List NStep → List Val → Except String (List Val)
  | [], env => pure env
  | s :: rest, env =>
    match evalStep table xs env s with
    | .error e => throw e
    | .ok v => runSteps table xs rest (env ++ [v])

/-- the lowered program on one row: the value of the last step, which has to be a vector -/
def runRow (prog : List NStep) (table xs : List Int) : Except String (List Int) :=
  match runSteps table xs prog [] with
  | .error e => throw e
  | .ok env =>
    match env.getLast? with
    | some (.vec l) => pure l
    | _ => throw "the program does not end in a vector"

/-- graph → lowering → execution -/
def runGraph8 (P : Params) (table xs : List Int) : Except String (List Int) :=
  match lower P (graph8 P) with
  | none => throw "lowering failed"
  | some prog => runRow prog table xs

end VelaVerif.SoftmaxExec
