import VelaVerif.Spec.Mem
import VelaVerif.Spec.AsyncHw
/-!
# Byte-level conflicts between decoded operations (specification side, C04)

Two operations conflict when some byte (external region or SHRAM) is touched by both and written by
at least one of them.  Footprints are the *exact* pieces `Spec/Footprint.lean` derives from the
register values of the decoded operation, not Vela's per-tile address hulls; so an emitted stream
may contain more waits than this relation needs, never fewer.

SHRAM (region `REGION_SHRAM` of a DMA): a kernel operation writes its IFM buffers `[0, IB_END)` and the
accumulators it really needs above `AB_START` (computed from the programmed OFM block and `ACC_FORMAT`,
not from any allocator's idea of where they end).  A table-lookup activation reads its table slot in the
LUT window, the last two banks of the SHRAM (bank counts are hand-written per configuration).
-/
namespace VelaVerif.Conflicts
open VelaVerif.Decode VelaVerif.Footprint VelaVerif.Mem VelaVerif.Isa

/-- Outstanding-operation limits of the hardware (hand-written; Ethos-U55: one DMA, Ethos-U65: two DMAs
    in flight; two kernel operations on both).  `Props/C04.lean` proves that the limits Vela assumes
    (`max_outstanding_dma`, `max_outstanding_kernels`, regenerated) are not smaller. -/
def hwCaps (isU65 : Bool) : AsyncHw.Caps := ⟨if isU65 then 2 else 1, 2⟩

/-- SHRAM of an accelerator configuration (hand-written hardware facts, independent of Vela's
    `ArchitectureFeatures`): number of 1 KiB banks; the activation LUT occupies the last two banks. -/
structure Shram where
  totalBytes : Nat
  lutBase : Nat
  lutBytes : Nat := 2048
deriving Repr, DecidableEq, Inhabited

def bankBytes : Nat := 1024

/-- SHRAM banks by configuration name: Ethos-U55-32/64: 16, Ethos-U55-128: 24, Ethos-U55-256 and
    Ethos-U65-256/512: 48 (`Props/C04.lean`, `shram_table_agrees`: the regenerated table says the same). -/
def hwShramBanks (name : String) : Nat :=
  if name = "ethos-u55-32" ∨ name = "ethos-u55-64" then 16
  else if name = "ethos-u55-128" then 24
  else 48

def hwShram (name : String) : Shram :=
  let banks := hwShramBanks name
  { totalBytes := banks * bankBytes, lutBase := (banks - 2) * bankBytes, lutBytes := 2 * bankBytes }

def seg (lo hi : Nat) : List Piece := if lo < hi then [⟨lo, hi - lo, 0⟩] else []

/-- accumulator element width by `ACC_FORMAT`: 0 = 32 bit, 1 = 40 bit, 2 = 16 bit -/
def accBits (accFormat : Nat) : Nat := if accFormat = 1 then 40 else if accFormat = 2 then 16 else 32

/-- Bytes of the accumulators a kernel operation really uses, from the programmed OFM block and
    accumulator format only: two buffers (ping-pong) of `H·W·round_up(D, 8)` accumulators, each buffer
    rounded up to whole banks.  (A 1-row OFM with a 1-row kernel accumulates one row.)  This is a lower
    bound of what any allocator must have set aside above `AB_START` — no bank granule is added. -/
def accBytes (b : BlockOp) : Nat :=
  let h := if b.ofm.height = 1 ∧ b.kernelH = 1 then 1 else b.blkH
  let one := (h * b.blkW * (ceilDiv b.blkD 8 * 8) * accBits b.accFormat) / 8
  2 * (ceilDiv one bankBytes * bankBytes)

/-- SHRAM bytes a kernel operation writes: the IFM buffers `[0, IB_END)` as programmed, and — for every
    operation that accumulates (all but elementwise) — the accumulators `[AB_START, AB_START + accBytes)`. -/
def shramWrites (s : Shram) (b : BlockOp) : List Access :=
  [ ⟨REGION_SHRAM, true, "SHRAM-IB", seg 0 (min (b.ibEnd * bankBytes) s.totalBytes)⟩ ] ++
  (if b.kind == .elementwise then []
   else [⟨REGION_SHRAM, true, "SHRAM-AB", seg (b.abStart * bankBytes) (min (b.abStart * bankBytes + accBytes b) s.totalBytes)⟩])

/-- the table slot a table-lookup activation reads -/
def lutRead (s : Shram) (b : BlockOp) : List Access :=
  match lutIndex b.activation with
  | some idx =>
    -- 8-bit tables: 256-byte slot `idx`; wider tables take the whole window
    let sz := if b.ifm.elemBytes = 1 ∧ b.ofm.elemBytes = 1 then 256 else s.lutBytes
    let lo := s.lutBase + idx * sz
    [⟨REGION_SHRAM, false, "LUT", seg lo (min (lo + sz) (s.lutBase + s.lutBytes))⟩]
  | none => []

def blockShram (s : Shram) (b : BlockOp) : List Access := shramWrites s b ++ lutRead s b

def blockAcc (s : Shram) (b : BlockOp) : List Access :=
  [ ⟨b.ifm.region, false, "IFM", fmPieces b.ifm 0 0 0⟩ ] ++
  (match b.ifm2 with
   | some f => [⟨f.region, false, "IFM2", fmPieces f 0 0 0⟩]
   | none => []) ++
  b.weights.map (fun w => ⟨w.region, false, "WEIGHTS", rangePiece w⟩) ++
  b.scales.map (fun w => ⟨w.region, false, "SCALES", rangePiece w⟩) ++
  [ ⟨b.ofm.region, true, "OFM", fmPieces b.ofm 0 0 0⟩ ] ++
  blockShram s b

def opAcc (s : Shram) : DecOp → List Access
  | .block b => blockAcc s b
  | .dma d => dmaAccesses d

/-! ## overlap of two piece lists -/

/-- non-empty `(start, end)` intervals, ascending by start -/
def intervals (ps : List Piece) : List (Nat × Nat) :=
  ((ps.filter (fun p => p.len > 0)).map fun p => (p.addr, p.addr + p.len)).mergeSort (fun a b => a.1 ≤ b.1)

/-- sweep over two start-sorted lists of non-empty intervals (`Lemmas/Conflicts.lean`: equals the
    quadratic definition) -/
def sweep : List (Nat × Nat) → List (Nat × Nat) → Bool
  | [], _ => false
  | _ :: _, [] => false
  | a :: as, b :: bs =>
    if max a.1 b.1 < min a.2 b.2 then true
    else if a.1 < b.1 then sweep as (b :: bs)
    else sweep (a :: as) bs
termination_by x y => x.length + y.length

def piecesOverlap (x y : List Piece) : Bool :=
  match hull x, hull y with
  | some (xl, xh), some (yl, yh) => if max xl yl < min xh yh then sweep (intervals x) (intervals y) else false
  | _, _ => false

def accessConflict (a b : Access) : Bool :=
  a.region = b.region && (a.write || b.write) && piecesOverlap a.pieces b.pieces

/-- RAW, WAR or WAW on some byte -/
def conflict (x y : List Access) : Bool := x.any fun a => y.any fun b => accessConflict a b

def describe (x y : List Access) : String :=
  match x.findSome? (fun a => (y.find? (fun b => accessConflict a b)).map fun b => (a, b)) with
  | some (a, b) => s!"{a.what}({if a.write then "W" else "R"})/{b.what}({if b.write then "W" else "R"}) region {a.region}"
  | none => "?"

/-! ## the stream as a command list of the asynchronous machine -/

def isDmaOp : DecOp → Bool
  | .dma _ => true
  | .block _ => false

/-- commands in stream order; operations are named by their index -/
def toCmds (ops : List StreamOp) : List (AsyncHw.Cmd Nat) :=
  ops.zipIdx.flatMap fun (so, i) =>
    (match so.kernelWait with | some n => [AsyncHw.Cmd.kernWait n] | none => []) ++
    (match so.dmaWait with | some n => [AsyncHw.Cmd.dmaWait n] | none => []) ++
    [if isDmaOp so.op then AsyncHw.Cmd.dma i else AsyncHw.Cmd.kern i]

structure Verdict where
  lazy : Bool
  first : Option (Nat × Nat)         -- (operation issued, conflicting operation possibly outstanding)
  why : String
  explored : String                  -- exhaustive explorer: "1" / "0", "skip" for long streams, "fuel" if it ran out
deriving Repr, Inhabited

def checkStream (caps : AsyncHw.Caps) (s : Shram) (ops : List StreamOp) (exploreUpTo : Nat) : Verdict :=
  let acc := (ops.map fun so => opAcc s so.op).toArray
  let conf : Nat → Nat → Bool := fun y o => conflict (acc.getD y []) (acc.getD o [])
  let cmds := toCmds ops
  let lz := AsyncHw.lazyCheck caps conf cmds [] []
  let first := if lz then none else AsyncHw.lazyFirst caps conf cmds [] [] 0
  let why := match first with
    | some (o, y) => describe (acc.getD y []) (acc.getD o [])
    | none => ""
  let ex := if ops.length ≤ exploreUpTo then
      (match AsyncHw.hazardFree caps conf cmds with | some true => "1" | some false => "0" | none => "fuel")
    else "skip"
  { lazy := lz, first := first, why := why, explored := ex }

end VelaVerif.Conflicts
