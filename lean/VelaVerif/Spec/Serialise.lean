/-!
# C12 (second sentence) / C02 extents — what the published memory tensors must satisfy, independent of the serialiser

Judged on REAL values: the constants tensor, the scratch tensors and the operand list are read from the OUTPUT FILE with the
plain flatbuffer walker; the source constants are the encoded streams captured when `encode_weight_and_scale_tensor` returned
them and the values of the constant feature maps of the graph; addresses and storage sizes are read from Vela's tensors.

(a) `flashProblems`     every source constant is found byte for byte at `[address, address + length)` of the constants tensor
                        (integer constants little-endian at their element size), inside the tensor; two ranges overlap only
                        when they are the same range with the same bytes
(b) `spanProblems`      a scratch tensor starts at offset 0 and its size is at least `address + storage size` of every tensor
                        of its memory
(c) `orderProblems`     operands 0..3 of the Ethos-U operator are command stream, constants, scratch, fast scratch and region n
                        of the command stream is operand n + 1
(d) `reportProblems`    a reported figure is at least the extent it stands for
-/
namespace VelaVerif.Spec.Serialise

/-- a source constant: raw bytes (encoded weights / scales) or integer elements of a given byte size -/
inductive Src where
  | raw (bytes : List Nat)
  | ints (elemSize : Nat) (vals : List Int)
deriving Repr, DecidableEq

/-- byte `k` of the two's-complement little-endian representation of `v` in `size` bytes -/
def elemByte (size : Nat) (v : Int) (k : Nat) : Nat := ((v % (256 : Int) ^ size) / (256 : Int) ^ k % 256).toNat

def Src.bytes : Src → List Nat
  | .raw b => b
  | .ints sz vals => vals.flatMap fun v => (List.range sz).map (elemByte sz v)

structure Placed where
  addr : Nat
  src : Src
deriving Repr, DecidableEq

def slice (l : List Nat) (a n : Nat) : List Nat := (l.drop a).take n

/-- (a) -/
def flashProblems (flash : List Nat) (ps : List Placed) : List String :=
  let bs := (ps.map fun p => (p.addr, p.src.bytes)).zipIdx
  (bs.filterMap fun ((a, b), i) =>
    if a + b.length > flash.length then some s!"constant {i} [{a},{a + b.length}) ends outside the constants tensor ({flash.length} bytes)"
    else if slice flash a b.length != b then some s!"constants tensor differs from constant {i} at [{a},{a + b.length})"
    else none) ++
  (bs.flatMap fun ((a, bp), i) => bs.filterMap fun ((c, bq), j) =>
    if i < j && bp.length > 0 && bq.length > 0 && a < c + bq.length && c < a + bp.length && !(a == c && bp == bq) then
      some s!"constants {i} [{a},{a + bp.length}) and {j} [{c},{c + bq.length}) overlap and differ"
    else none)

def flashOk (flash : List Nat) (ps : List Placed) : Bool := (flashProblems flash ps).isEmpty

/-- (b): `offset` = the tensor's entry in the published plan, `size` = its published byte size, `tens` = (address, storage size) -/
def spanProblems (what : String) (offset : Int) (size : Nat) (tens : List (Nat × Nat)) : List String :=
  (if offset ≠ 0 then [s!"{what} tensor is at plan offset {offset} (must be 0)"] else []) ++
  tens.zipIdx.filterMap fun (t, i) =>
    if t.1 + t.2 > size then some s!"tensor {i} of the {what} memory ends at {t.1 + t.2}, the {what} tensor has {size} bytes" else none

def spanOk (offset : Int) (size : Nat) (tens : List (Nat × Nat)) : Bool := (spanProblems "scratch" offset size tens).isEmpty

/-- (c): `kinds` = what operands 0.. of the operator are (0 command stream, 1 constants, 2 scratch, 3 fast scratch, 9 other),
    `regions` = (region number the generator uses for a memory type, kind of the memory tensor holding that type) -/
def orderProblems (kinds : List Nat) (regions : List (Nat × Nat)) : List String :=
  (if kinds.take 4 ≠ [0, 1, 2, 3] then [s!"operands 0..3 of the Ethos-U operator are {kinds.take 4}, expected [0, 1, 2, 3]"] else []) ++
  (if (kinds.drop 4).any (· ≠ 9) then ["a memory tensor appears again behind operand 3"] else []) ++
  regions.filterMap fun (r, k) =>
    if kinds[r + 1]? ≠ some k then some s!"region {r} is operand {r + 1} = {kinds[r + 1]?}, but its tensors live in memory tensor {k}" else none

def orderOk (kinds : List Nat) (regions : List (Nat × Nat)) : Bool := (orderProblems kinds regions).isEmpty

/-- (d): (name, reported bytes, extent bytes) -/
def reportProblems (figs : List (String × Nat × Nat)) : List String :=
  figs.filterMap fun (n, rep, ext) => if rep < ext then some s!"{n}: reported {rep} < extent {ext}" else none

def reportOk (figs : List (String × Nat × Nat)) : Bool := (reportProblems figs).isEmpty

/-- console: a figure printed with two decimals of a KiB may round down by half a hundredth -/
def consoleCovers (hundredths : Nat) (extent : Nat) : Bool := decide (extent * 100 ≤ hundredths * 1024 + 512)

end VelaVerif.Spec.Serialise
