import VelaVerif.Model.LutState
import VelaVerif.Spec.LutWindow
/-!
# From a high-level command stream and the pass's decisions to window events

`Refine` is what the Spec needs to know about the objects of a stream beyond what the pass reads: the byte-content class of
each table object and the table each pass's operation reads (`None`: no table lookup). The original, unoptimised stream is
read with `OrigOk`: it is the stream of a compiler that has one table slot — every kernel with a table lookup runs while
the table loaded last is the one it needs, loaded for it, and no kernel without table ran in between on a configuration
where such a kernel destroys the window.

Two readings of the optimised stream:
* `eventsAt`: every command with the address / index the pass gave *when it processed the command*;
* `eventsFinal`: every command with the address its tensor object and the index its pass's operation hold *when the pass
  is over* — this is what `high_level_command_to_npu_op` programs (`create_dma_op` reads `cmd.out_tensor.address`,
  `create_npu_activation` reads `op.activation.lut_index`, both after `optimize_high_level_cmd_stream` has returned).
  `ActivationFunction.lut_index` starts at 0 (operation.py), a tensor that was never given an address is never loaded.
-/
namespace VelaVerif.Spec.LutRefine
open VelaVerif.Model.LutState VelaVerif.Spec.LutWindow

structure Refine where
  content : Nat → Nat            -- tensor object ↦ class of its bytes
  passTab : Nat → Option Nat     -- pass ↦ the table object its operation looks up in

def geomOf (c : Ctx) : Geom := ⟨c.lutStart, c.lutSize, c.reserved == 0⟩

/-- the unoptimised stream makes sense; `cur` = (pass, table) of the table load still standing -/
def OrigOk (c : Ctx) (r : Refine) : Option (Nat × Nat) → List Cmd → Prop
  | _, [] => True
  | _, .lutDma p t :: rest => OrigOk c r (some (p, t)) rest
  | cur, .other :: rest => OrigOk c r cur rest
  | cur, .stripe p :: rest =>
    match r.passTab p with
    | some t => cur = some (p, t) ∧ OrigOk c r cur rest
    | none => OrigOk c r (if c.reserved == 0 then none else cur) rest

def origOkB (c : Ctx) (r : Refine) : Option (Nat × Nat) → List Cmd → Bool
  | _, [] => true
  | _, .lutDma p t :: rest => origOkB c r (some (p, t)) rest
  | cur, .other :: rest => origOkB c r cur rest
  | cur, .stripe p :: rest =>
    match r.passTab p with
    | some t => decide (cur = some (p, t)) && origOkB c r cur rest
    | none => origOkB c r (if c.reserved == 0 then none else cur) rest

/-- event of a stripe of pass `p` whose operation holds table index `i` -/
def stripeEv (c : Ctx) (r : Refine) (p i : Nat) : Ev :=
  match r.passTab p with
  | some t => .use (r.content t) (c.size t) i
  | none => .kernel

/-- the optimised stream with the values given at decision time (one event per command, `nop` for a dropped DMA) -/
def eventsAt (c : Ctx) (r : Refine) : PS → List Cmd → List Ev
  | _, [] => []
  | s, cmd :: rest =>
    match step c s cmd with
    | .error _ => []
    | .ok (s', act) =>
      (match cmd, act with
        | .lutDma _ t, .placed a _ => Ev.load (r.content t) (c.size t) a
        | .stripe p, _ => stripeEv c r p ((lookup s.env.idx p).getD 0)
        | _, _ => Ev.nop) :: eventsAt c r s' rest

/-- the optimised stream with the values the objects hold after the pass -/
def eventsFinal (c : Ctx) (r : Refine) (env : Env) : List Cmd → List Act → List Ev
  | cmd :: cs, act :: as =>
    (match cmd with
      | .lutDma _ t =>
        if act.kept then
          match lookup env.addr t with
          | some a => Ev.load (r.content t) (c.size t) a
          | none => Ev.nop
        else Ev.nop
      | .stripe p => stripeEv c r p ((lookup env.idx p).getD 0)
      | .other => Ev.nop) :: eventsFinal c r env cs as
  | _, _ => []

/-- every assignment the pass made to a tensor address / an operation's index is still the value at the end -/
def stable (env : Env) : Bool :=
  (env.addr.all fun e => lookup env.addr e.1 == some e.2) && (env.idx.all fun e => lookup env.idx e.1 == some e.2)

/-- tables the pass takes for equivalent are the same bytes (in particular the same number of bytes). For the code as it
    stands "equivalent" is "values compare equal" — and the statement can be false (a uint8 and an int32 table with the
    same numbers). With `widthAware` (C03-10) equivalent is "equal values and equal storage size", and the statement is
    what is assumed of real tensors: same numbers in the same element width are the same bytes. -/
def EqualValuesEqualBytes (c : Ctx) (r : Refine) : Prop :=
  ∀ t u, c.vals t = c.vals u → (c.widthAware = true → c.size t = c.size u) → c.size t = c.size u ∧ r.content t = r.content u

/-- every table DMA loads the table its own pass's operation reads (what the command stream generator emits) -/
def DmaOwn (r : Refine) (cmds : List Cmd) : Prop := ∀ p t, Cmd.lutDma p t ∈ cmds → r.passTab p = some t

def dmaOwnB (r : Refine) (cmds : List Cmd) : Bool :=
  cmds.all fun | .lutDma p t => r.passTab p == some t | _ => true

def PassesAgree (c : Ctx) (r : Refine) : Prop := ∀ p, c.passLut p = (r.passTab p).isSome

end VelaVerif.Spec.LutRefine
