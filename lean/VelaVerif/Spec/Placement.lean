import VelaVerif.Spec.Preserve
/-!
# C16 Spec, pipeline level: where did every source operator go?

The property speaks about *every* operator instance of the network: one that satisfies the documented constraints
is placed on the NPU, one that violates a constraint stays on the CPU **unchanged**.  Read on a compiled file this
means that every source operator is accounted for **exactly once**:

* `cpu`    — exactly one operator of the output file that is not an Ethos-U custom operator produces tensors with
             the names of its results, and it lies in no Ethos-U slice;
* `npu`    — no such operator, and it lies in the slice of an Ethos-U custom operator (the backward closure, in the
             SOURCE graph, from the tensors named like that operator's results down to the tensors named like its
             operands: `Preserve.absorbs`);
* `folded` — neither, but its value is known at compile time (`Preserve.foldable`: SHAPE, all operands constant);
* `dead`   — neither, and no subgraph output depends on it;
* `lost`   — neither, although an output depends on it: the operator **vanished** (it is executed nowhere);
* `both`   — kept on the CPU *and* inside an Ethos-U slice;
* `twice`  — kept more than once.

The last three are violations whatever the report predicts.  The counting is the one of C11
(`Spec/Preserve.lean`: `matchTable`, `matchCount`, `absorbs`, `foldable`, `reach`), applied here to *all* source
operators and combined with the documented placement of each; the verbatim comparison of the CPU-resident
operators is `Preserve.matchProblems` (builtin code, custom code, version, option fields, custom options, operand
wiring incl. shape / type / quantisation / constant data of every operand, results).

Nothing here looks at Vela: both graphs come from the plain flatbuffer walk (harness/preserve_dump.py).
-/
namespace VelaVerif.Placement
open VelaVerif.Preserve

inductive Fate
  | cpu | npu | folded | dead | lost | both | twice
deriving DecidableEq, Repr, Inhabited

def Fate.toString : Fate → String
  | .cpu => "cpu" | .npu => "npu" | .folded => "folded" | .dead => "dead"
  | .lost => "lost" | .both => "both" | .twice => "twice"

instance : ToString Fate := ⟨Fate.toString⟩

/-- what the output file did with source operator `j` (`table` = `matchTable src out`, `abs` = `absorbs src out`) -/
def fate (src : PGraph) (table : List (Nat × Nat)) (abs : List Absorb) (j : Nat) : Fate :=
  let m := matchCount table j
  if m > 1 then .twice
  else if m == 1 then (if isAbsorbed abs j then .both else .cpu)
  else if isAbsorbed abs j then .npu
  else if (foldable src).contains j then .folded
  else if !(reach src).contains j then .dead
  else .lost

/-- accounted for exactly once (or legitimately nowhere: compile-time constant / dead code) -/
def Fate.accounted : Fate → Bool
  | .lost | .both | .twice => false
  | _ => true

/-- The property on one operator instance: documented placement (`npu`, `cpu <bullet>`, `silent` = the report does
    not list the operator, anything else = the prediction could not be computed) vs the operator's fate.
    * an unaccounted operator is a violation whatever the prediction;
    * documented `npu`: it is not kept on the CPU;
    * documented `cpu` / `silent`: it is kept on the CPU (or is dead code). A CPU operator that is "folded" is not
      where the report says it stays. -/
def judge (pred : String) (f : Fate) : Bool :=
  f.accounted &&
    (if pred == "npu" then f != .cpu
     else if pred == "cpu" || pred == "silent" then f == .cpu || f == .dead
     else true)

def unaccountedProblem (src : PGraph) (j : Nat) (f : Fate) : Option Problem :=
  let bi := (src.ops[j]?.map (·.builtin)).getD 0
  match f with
  | .lost => some ⟨"operator-lost", s!"source operator {j} (builtin {bi}) reaches an output but is neither kept on the CPU, inside an Ethos-U operator, nor foldable: it vanished"⟩
  | .both => some ⟨"preserved-and-absorbed", s!"source operator {j} (builtin {bi}) is kept on the CPU and also lies inside an Ethos-U operator"⟩
  | .twice => some ⟨"operator-duplicated", s!"source operator {j} (builtin {bi}) appears more than once in the output"⟩
  | _ => none

structure Report where
  pre : List Problem          -- the source itself is outside the domain (not a violation)
  fates : List Fate           -- one per source operator, file order
  problems : List Problem
  ethosu : Nat
deriving Repr

def fates (src out : PGraph) : List Fate :=
  (List.range src.ops.length).map (fate src (matchTable src out) (absorbs src out))

/-- structural part of the verdict (independent of the predictions): every non-Ethos-U operator of the output is
    exactly one source operator, verbatim; every source operator is accounted for; the Ethos-U slices are closed and
    only end in operands of their operator; the fixpoints were reached; the output is well formed and ordered. -/
def structureProblems (src out : PGraph) : List Problem :=
  let abs := absorbs src out
  matchProblems src out ++
  ((fates src out).zipIdx.filterMap fun (f, j) => unaccountedProblem src j f) ++
  abs.flatMap (absorbProblems src) ++ closedProblems src abs ++ wellFormedProblems out ++ topoProblems out

def report (src out : PGraph) : Report :=
  { pre := wellFormedProblems src ++ topoProblems src,
    fates := fates src out,
    problems := structureProblems src out,
    ethosu := (out.ops.filter isEthosU).length }

/-- all predictions judged against the fates (positions without a prediction judge only "accounted") -/
def judgeAll (preds : List String) (fs : List Fate) : List Bool :=
  fs.zipIdx.map fun (f, j) => judge (preds.getD j "-") f

end VelaVerif.Placement
