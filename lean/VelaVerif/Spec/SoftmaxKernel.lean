import VelaVerif.Spec.Gemmlowp
import VelaVerif.Spec.Requant
/-!
# Integer SOFTMAX of TensorFlow Lite (specification side, import-free)

Transcribed from `reference_ops::Softmax` (`kernels/internal/reference/softmax.h`, the 8-bit kernel and the
int16 kernel `SoftmaxInt16`), `PreprocessSoftmaxScaling` / `CalculateInputRadius`
(`kernels/internal/quantization_util.cc`), `GetReciprocal` (`kernels/internal/common.h`) and gemmlowp
`one_over_one_plus_x_for_x_in_0_1` / `RoundingHalfSum` (`fixedpoint/fixedpoint.h`). The gemmlowp primitives
(`SaturatingRoundingDoublingHighMul`, `RoundingDivideByPOT`, `Rescale`, `exp_on_negative_values`) are those of
`Spec/Gemmlowp.lean`.

The C sources are not available offline; the kernels are written from memory of the published sources, as the
rest of the reference side is (see design.d/C01.md, "What is trusted").
-/
namespace VelaVerif.SoftmaxKernel
open VelaVerif.Gemmlowp VelaVerif.Requant

/-- gemmlowp `RoundingHalfSum(int32 a, int32 b)`: `(a + b + sign) / 2` in 64 bits, truncating division -/
def roundingHalfSum (a b : Int) : Int :=
  let sum := a + b
  let sign : Int := if sum ≥ 0 then 1 else -1
  cast32 (Int.tdiv (sum + sign) 2)

/-- one Newton–Raphson step of `one_over_one_plus_x_for_x_in_0_1` on raw values (`x` is F2, `halfDen` F0) -/
def nrStep (halfDen x : Int) : Int :=
  let hdx := srdhm32 halfDen x                 -- F0 * F2 → F2
  let oneMinus := sub32 (2 ^ 29) hdx           -- F2::One() − …
  let prod := srdhm32 x oneMinus               -- F2 * F2 → F4
  add32 x (rescale 4 2 prod)                   -- x + Rescale<2>(…)

/-- gemmlowp `one_over_one_plus_x_for_x_in_0_1(FixedPoint<int32, 0> a)` → raw F0 value of `1 / (1 + a)` -/
def oneOverOnePlusX (a : Int) : Int :=
  let halfDen := roundingHalfSum a int32Max    -- RoundingHalfSum(a, F0::One())
  let c48over17 : Int := 1515870810
  let cNeg32over17 : Int := -1010580540
  let x0 := add32 c48over17 (srdhm32 halfDen cNeg32over17)
  let x3 := nrStep halfDen (nrStep halfDen (nrStep halfDen x0))
  rescale 1 0 x3                               -- Rescale<0>(ExactMulByPot<-1>(x))

/-- `CountLeadingZeros(uint32_t)` -/
def clz32 (x : Int) : Nat :=
  let u := toU32 x
  if u = 0 then 32 else 31 - Nat.log2 u

/-- TFLite `GetReciprocal(int32 x, int x_integer_digits, int* num_bits_over_unit)` → (shifted scale, num_bits_over_unit) -/
def getReciprocal (x : Int) (xIntegerDigits : Int) : Int × Int :=
  let hp1 := clz32 x
  let shiftedSumMinusOne := cast32 (((toU32 x * 2 ^ hp1) % 2 ^ 32 : Nat) - (2 : Int) ^ 31)
  (oneOverOnePlusX shiftedSumMinusOne, xIntegerDigits - hp1)

/-- `MultiplyByQuantizedMultiplierGreaterThanOne(x, m, left_shift)` -/
def mbqmGreaterThanOne (x m : Int) (leftShift : Nat) : Int := srdhm32 (cast32 (x * 2 ^ leftShift)) m

/-- the value `exp_on_negative_values` is applied to and its result for one input difference (`none` below `diff_min`) -/
def expOfDiff (mult : Int) (leftShift : Nat) (diffMin : Int) (d : Int) : Option Int :=
  if d ≥ diffMin then some (expOnNegativeValues (mbqmGreaterThanOne d mult leftShift)) else none

/-- one row (innermost dimension) of the 8-bit kernel; `outMin`/`outMax` = numeric limits of the output type -/
def softmaxRow8 (xs : List Int) (mult : Int) (leftShift : Nat) (diffMin : Int) (outMin outMax : Int) : List Int :=
  match xs with
  | [] => []
  | x0 :: rest =>
    let mx := rest.foldl max x0
    let exps := xs.map fun x => expOfDiff mult leftShift diffMin (x - mx)
    -- FixedPointAccum (12 integer bits) sum of Rescale<12>(exp)
    let sum := exps.foldl (fun acc e => match e with | some e => add32 acc (rescale 0 12 e) | none => acc) 0
    let (scale, nbits) := getReciprocal sum 12
    exps.map fun e => match e with
      | some e =>
        let unsat := roundingDivideByPOT (srdhm32 scale e) (nbits + 31 - 8).toNat
        clamp (unsat + outMin) outMin outMax
      | none => outMin

/-- the 256-entry table of `exp_on_negative_values` over the possible input differences `x − 255` (what an
    implementation that tabulates the exponential has to hold): entry `x` belongs to difference `x − 255` -/
def expTable8 (mult : Int) (leftShift : Nat) (diffMin : Int) : List Int :=
  (List.range 256).map fun (x : Nat) => (expOfDiff mult leftShift diffMin ((x : Int) - 255)).getD 0

/-! ## Parameters from the float32 scale and beta (exact rational arithmetic)

`PreprocessSoftmaxScaling(beta, input_scale, 5, …)`: `min(double(beta) * double(scale) * 2^26, 2^31 − 1)` through
`QuantizeMultiplierGreaterThanOne`; `diff_min = −CalculateInputRadius(5, left_shift) =
−floor(31 · 2^26 / 2^left_shift)`. The product of two float32 values is exact in double. -/

def softmaxParams8 (betaBits scaleBits : Nat) : Option (Int × Int × Int) := do
  let (mb, eb) ← f32Decode betaBits
  let (ms, es) ← f32Decode scaleBits
  let (m, e) ← roundTo 53 (mb * ms) 1 (eb + es + 26)
  -- min with 2^31 − 1 (itself a double)
  let big : Bool := if e ≥ 0 then m * 2 ^ e.toNat ≥ 2 ^ 31 - 1 else m ≥ (2 ^ 31 - 1) * 2 ^ (-e).toNat
  let (m, e) ← if big then roundTo 53 (2 ^ 31 - 1) 1 0 else some (m, e)
  let (q, shift) := quantizeMultiplierOf 53 m e
  if shift < 0 ∨ shift > 31 then none else
  let diffMin : Int := -((31 * 2 ^ 26 / 2 ^ shift.toNat : Nat) : Int)
  some (q, shift, diffMin)

/-! ## int16 kernel (`SoftmaxInt16`): 513-entry tables with interpolation -/

/-- TFLite `LUTLookup(int16 value, const int16* lut)` for the 513-entry tables: 9-bit index, 7-bit offset -/
def lutLookup16 (lut : Array Int) (value : Int) : Int :=
  let index := (256 + (value >>> 7)).toNat
  let offset := value % 128
  let base := lut.getD index 0
  let slope := lut.getD (index + 1) 0 - base
  let delta := (slope * offset + 64) >>> 7
  cast16 (base + delta)

/-- TFLite `gen_lut(func, min, max, table, 513)` (`kernels/internal/common.h`), evaluated in double precision:
    sample value corrected by half the interpolation error at the midpoint of each interval -/
def genLut (f : Float → Float) (mn mx : Float) : Array Int := Id.run do
  let num := 513
  let step := (mx - mn) / Float.ofNat (num - 1)
  let halfStep := step / 2.0
  let r := fun (x : Float) => Float.round x
  let sat := fun (x : Float) => (if x < -32768.0 then -32768.0 else if x > 32767.0 then 32767.0 else x).toInt64.toInt
  let mut t : Array Int := Array.mkEmpty num
  for i in [0:num - 1] do
    let x := mn + Float.ofNat i * step
    let sampleVal := r (f x * 32768.0)
    let midInterp := r ((f (mn + Float.ofNat (i + 1) * step) * 32768.0 + r (f x * 32768.0)) / 2.0)
    let midVal := r (f (x + halfStep) * 32768.0)
    let bias := r ((midInterp - midVal) / 2.0)
    t := t.push (sat (sampleVal - bias))
  return t.push (sat (r (f mx * 32768.0)))

def expLut16 : Array Int := genLut Float.exp (-10.0) 0.0
def oneOverOnePlusXLut16 : Array Int := genLut (fun v => 1.0 / (1.0 + v)) 0.0 1.0

/-- one row of `SoftmaxInt16` -/
def softmaxRow16 (expLut ooLut : Array Int) (xs : List Int) (mult : Int) (shift : Int) : List Int :=
  match xs with
  | [] => []
  | x0 :: rest =>
    let mx := rest.foldl max x0
    let exps := xs.map fun x =>
      let scaledDiff := mbqm (x - mx) mult shift
      lutLookup16 expLut (clamp (scaledDiff + 32767) (-32768) 32767)
    let sum := exps.foldl (· + ·) 0                     -- Q16.15, int32
    let hp1 := clz32 sum
    let shiftedSum := (sum * 2 ^ (hp1 - 1) + 2 ^ 13) >>> 14
    let sym := shiftedSum - (2 ^ 15 + 2 ^ 16)
    let recip := lutLookup16 ooLut (clamp sym (-32768) 32767)
    let rightShift := 31 - hp1
    exps.map fun e => clamp ((e * recip + 2 ^ (rightShift - 1)) >>> rightShift) 0 32767

/-- `input->params.scale * params->beta / (10.0 / 65535.0)`: the product of the two `float`s is a `float`, the
    quotient by the `double` constant a `double`; then `QuantizeMultiplier` -/
def softmaxParams16 (betaBits scaleBits : Nat) : Option (Int × Int) := do
  let (mb, eb) ← f32Decode betaBits
  let (ms, es) ← f32Decode scaleBits
  let (mp, ep) ← roundTo 24 (mb * ms) 1 (eb + es)
  let (mc, ec) ← roundTo 53 10 65535 0
  let (m, e) ← roundTo 53 mp mc (ep - ec)
  some (quantizeMultiplierOf 53 m e)

end VelaVerif.SoftmaxKernel
