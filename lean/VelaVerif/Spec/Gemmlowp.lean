/-!
# Reference semantics for property C19: gemmlowp `fixedpoint.h`, TFLite `common.h`, TFLite-Micro
  `hard_swish.h` / `leaky_relu.h` / `requantize.h`, written with C semantics

Independent of the Python under test (`fp_math.py`) and of `Model/FpMath.lean`:
* values of type `int16_t`/`int32_t`/`int64_t` are `Int`s; every place where C stores a wider value in
  a narrower type is an explicit two's-complement `cast32`/`cast16`;
* C integer division `/` is `Int.tdiv` (truncation toward zero);
* `>>` on signed values is the arithmetic shift (`Int.shiftRight`), as on every target gemmlowp supports;
* `BitAnd` on `int32_t` is the bitwise and of the two's-complement bit patterns (`Nat.land` on the
  unsigned reinterpretation);
* `MaskIfLessThan`/`MaskIfGreaterThan` followed by `BitAnd(…, one)` is `if … then 1 else 0`.

The C sources are not available offline; the functions below are transcribed from gemmlowp
`fixedpoint/fixedpoint.h` (Apache-2.0, "Copyright 2015 The Gemmlowp Authors", which `fp_math.py`
cites as its origin) and TFLite as quoted in Vela's own comments.
-/
namespace VelaVerif.Gemmlowp

def int32Min : Int := -(2 ^ 31)
def int32Max : Int := 2 ^ 31 - 1
def int16Min : Int := -(2 ^ 15)
def int16Max : Int := 2 ^ 15 - 1

/-- unsigned reinterpretation of an `int32_t` bit pattern -/
def toU32 (x : Int) : Nat := (x % 2 ^ 32).toNat
/-- `static_cast<int32_t>(v)`: keep the low 32 bits, reinterpret as signed -/
def cast32 (x : Int) : Int :=
  let u : Int := x % 2 ^ 32
  if u ≥ 2 ^ 31 then u - 2 ^ 32 else u
/-- `static_cast<int16_t>(v)` -/
def cast16 (x : Int) : Int :=
  let u : Int := x % 2 ^ 16
  if u ≥ 2 ^ 15 then u - 2 ^ 16 else u

/-- `BitAnd(a, b)` on `int32_t` -/
def bitAnd32 (a b : Int) : Int := cast32 (Int.ofNat (Nat.land (toU32 a) (toU32 b)))

/-- gemmlowp `SaturatingRoundingDoublingHighMul(std::int32_t a, std::int32_t b)` -/
def srdhm32 (a b : Int) : Int :=
  let overflow := a == b && a == int32Min
  let ab64 : Int := a * b                                         -- int64 product, exact
  let nudge : Int := if ab64 ≥ 0 then 2 ^ 30 else 1 - 2 ^ 30
  let abX2High32 := cast32 (Int.tdiv (ab64 + nudge) (2 ^ 31))     -- `/ (1ll << 31)`, then cast
  if overflow then int32Max else abX2High32

/-- gemmlowp `SaturatingRoundingDoublingHighMul(std::int16_t a, std::int16_t b)` -/
def srdhm16 (a b : Int) : Int :=
  let overflow := a == b && a == int16Min
  let ab32 : Int := a * b
  let nudge : Int := if ab32 ≥ 0 then 2 ^ 14 else 1 - 2 ^ 14
  let abX2High16 := cast16 (Int.tdiv (ab32 + nudge) (2 ^ 15))
  if overflow then int16Max else abX2High16

/-- TFLite `SaturatingDoublingHighMul(int16_t a, int16_t b)` (hard_swish.h): no rounding nudge -/
def sdhm16 (a b : Int) : Int :=
  let overflow := a == b && a == int16Min
  let ab32 : Int := a * b
  let abX2High16 := cast16 (Int.tdiv ab32 (2 ^ 15))
  if overflow then int16Max else abX2High16

/-- gemmlowp `RoundingDivideByPOT(int32 x, int exponent)`, `0 ≤ exponent ≤ 31`:
    ```
    mask      = (1ll << exponent) - 1
    remainder = x & mask
    threshold = (mask >> 1) + (x < 0 ? 1 : 0)
    return (x >> exponent) + (remainder > threshold ? 1 : 0)
    ``` -/
def roundingDivideByPOT (x : Int) (exponent : Nat) : Int :=
  let mask : Int := cast32 (2 ^ exponent - 1)
  let remainder := bitAnd32 x mask
  let threshold := (mask >>> 1) + (if x < 0 then 1 else 0)
  (x >>> exponent) + (if remainder > threshold then 1 else 0)

/-- the mathematical meaning of `RoundingDivideByPOT`: `x / 2^e` rounded to nearest, ties away from
    zero.  `2·|x| + 2^e` over `2^(e+1)`, truncated, with the sign of `x`. -/
def roundHalfAwayDiv (x : Int) (exponent : Nat) : Int :=
  let absx : Int := if x < 0 then -x else x
  let n : Int := 2 * absx + 2 ^ exponent
  let q := n / 2 ^ (exponent + 1)
  if x < 0 then -q else q

/-- gemmlowp `ShiftLeft(std::int32_t a, int offset)`: saturating, computed in 64 bits -/
def shiftLeft32 (a : Int) (offset : Nat) : Int :=
  let wide := a * 2 ^ offset
  if wide < int32Min then int32Min else if wide > int32Max then int32Max else cast32 wide

/-- gemmlowp `ShiftLeft(std::int16_t a, int offset)` / TFLite `SaturatingLeftShift(int16_t, int)` -/
def shiftLeft16 (a : Int) (offset : Nat) : Int :=
  let wide := a * 2 ^ offset
  if wide < int16Min then int16Min else if wide > int16Max then int16Max else cast16 wide

/-- gemmlowp `SaturatingRoundingMultiplyByPOT<Exponent>(int32 x)` for `Exponent > 0`
    (`ImplSaturatingRoundingMultiplyByPOT<Exponent, int32, 1>`) -/
def srmbpPos (x : Int) (exponent : Nat) : Int :=
  let threshold : Int := 2 ^ (32 - 1 - exponent) - 1
  let result := shiftLeft32 x exponent
  let result := if x > threshold then int32Max else result
  if x < -threshold then int32Min else result

/-- gemmlowp `SaturatingRoundingMultiplyByPOT<Exponent>` dispatch on the sign of `Exponent` -/
def saturatingRoundingMultiplyByPOT (x : Int) (exponent : Int) : Int :=
  if exponent > 0 then srmbpPos x exponent.toNat
  else if exponent < 0 then roundingDivideByPOT x (-exponent).toNat
  else x

/-- gemmlowp `Rescale<tIntegerBitsDst>(FixedPoint<int32, tIntegerBitsSrc>)` -/
def rescale (src dst : Int) (x : Int) : Int := saturatingRoundingMultiplyByPOT x (src - dst)

/-- `FixedPoint` `operator+` on raw `int32_t` (wrapping add, `AddSaturatingIf16Bit` is plain add for int32) -/
def add32 (a b : Int) : Int := cast32 (a + b)
def sub32 (a b : Int) : Int := cast32 (a - b)

/-- gemmlowp `exp_on_interval_between_negative_one_quarter_and_0_excl(FixedPoint<int32,0> a)` -/
def expOnInterval (a : Int) : Int :=
  let constantTerm : Int := 1895147668       -- exp(-1/8) in Q0.31
  let constant1Over3 : Int := 715827883      -- 1/3 in Q0.31
  let x := add32 a (2 ^ 28)                  -- a + ConstantPOT<-3>
  let x2 := srdhm32 x x
  let x3 := srdhm32 x2 x
  let x4 := srdhm32 x2 x2
  let x4Over4 := saturatingRoundingMultiplyByPOT x4 (-2)
  let poly := saturatingRoundingMultiplyByPOT
                (add32 (srdhm32 (add32 x4Over4 x3) constant1Over3) x2) (-1)
  add32 constantTerm (srdhm32 constantTerm (add32 x poly))

/-- the `GEMMLOWP_EXP_BARREL_SHIFTER(Exponent, FixedPointMultiplier)` table: exp(-2^Exponent) in Q0.31 -/
def expBarrel : List (Int × Int) :=
  [(-2, 1672461947), (-1, 1302514674), (0, 790015084), (1, 290630308),
   (2, 39332535), (3, 720401), (4, 242)]

/-- gemmlowp `exp_on_negative_values(FixedPoint<int32, 5> a)` → `FixedPoint<int32, 0>` -/
def expOnNegativeValues (a : Int) : Int :=
  let kFractionalBits : Int := 26
  let kIntegerBits : Int := 5
  let kOneQuarter : Int := 2 ^ 24
  let mask := sub32 kOneQuarter 1
  let aModQuarterMinusOneQuarter := sub32 (bitAnd32 a mask) kOneQuarter
  let result := expOnInterval (rescale 5 0 aModQuarterMinusOneQuarter)
  let remainder := sub32 aModQuarterMinusOneQuarter a
  let result := expBarrel.foldl (fun (res : Int) (st : Int × Int) =>
      if kIntegerBits > st.1 then
        let kShiftAmount := (kFractionalBits + st.1).toNat
        if bitAnd32 remainder (2 ^ kShiftAmount) ≠ 0 then srdhm32 res st.2 else res
      else res) result
  if a == 0 then int32Max else result            -- SelectUsingMask(MaskIfZero(a), One(), result)

/-- TFLite `MultiplyByQuantizedMultiplier(int32_t x, int32_t quantized_multiplier, int shift)`
    (`shift` in TFLite's convention: positive = left) -/
def multiplyByQuantizedMultiplier (x quantizedMultiplier : Int) (shift : Int) : Int :=
  let leftShift : Nat := if shift > 0 then shift.toNat else 0
  let rightShift : Nat := if shift > 0 then 0 else (-shift).toNat
  roundingDivideByPOT (srdhm32 (cast32 (x * 2 ^ leftShift)) quantizedMultiplier) rightShift

/-- TFLite reference `LeakyRelu` quantised kernel, one element -/
def leakyReluRef (qmin qmax inputOffset outputOffset : Int)
    (multIdentity : Int) (shiftIdentity : Int) (multAlpha : Int) (shiftAlpha : Int) (q : Int) : Int :=
  let inputValue := q - inputOffset
  let unclamped :=
    if inputValue ≥ 0 then outputOffset + multiplyByQuantizedMultiplier inputValue multIdentity shiftIdentity
    else outputOffset + multiplyByQuantizedMultiplier inputValue multAlpha shiftAlpha
  min qmax (max qmin unclamped)

/-- TFLite reference `Requantize` (int8→int8 / int16→int16), one element -/
def requantizeRef (qmin qmax inputZp outputZp mult : Int) (shift : Int) (q : Int) : Int :=
  let output := multiplyByQuantizedMultiplier (q - inputZp) mult shift + outputZp
  max (min output qmax) qmin

/-! ### TFLite `Quantize` prepare step: the multiplier of a requantisation comes from the **double** quotient
    of the two (float32) tensor scales: `QuantizeMultiplier(double(in_scale) / double(out_scale))`.
    Exact integer arithmetic; a positive finite double is `m · 2^e` with `m > 0`. -/

/-- IEEE-754 round-to-nearest-even quotient of two positive doubles `m1·2^e1 / (m2·2^e2)` as `(q, k)` meaning
    `q · 2^(-k)` with `2^52 ≤ q < 2^53` (normal range assumed: scales are far from overflow/underflow) -/
def doubleQuotient (m1 : Nat) (e1 : Int) (m2 : Nat) (e2 : Int) : Nat × Int :=
  -- smallest scaling k0 with floor(m1·2^k0 / m2) ≥ 2^52; bit lengths give it up to one
  let l1 := Nat.log2 m1
  let l2 := Nat.log2 m2
  let k0 : Int := 52 + (l2 : Int) - (l1 : Int)
  let quot (k : Int) : Nat × Nat × Nat :=          -- (floor, remainder, denominator) of m1·2^k / m2
    if k ≥ 0 then let n := m1 * 2 ^ k.toNat; (n / m2, n % m2, m2)
    else let d := m2 * 2 ^ (-k).toNat; (m1 / d, m1 % d, d)
  let k := if (quot k0).1 ≥ 2 ^ 52 then k0 else k0 + 1
  let (q, r, d) := quot k
  let q := if 2 * r > d then q + 1 else if 2 * r = d ∧ q % 2 = 1 then q + 1 else q
  -- value = q · 2^(-k) · 2^(e1 - e2)
  if q = 2 ^ 53 then (2 ^ 52, k - 1 - (e1 - e2)) else (q, k - (e1 - e2))

/-- TFLite `QuantizeMultiplier(double d, int32* quantized_multiplier, int* shift)` for `d = q·2^(-k)`,
    `2^52 ≤ q < 2^53`: `frexp`, `round(q · 2^31)`, the `== 2^31` renormalisation.  Returns (multiplier, TFLite shift). -/
def quantizeMultiplier (q : Nat) (k : Int) : Int × Int :=
  let shift : Int := 53 - k                      -- frexp exponent: d = (q / 2^53) · 2^(53 - k)
  let qFixed : Nat := (q + 2 ^ 21) / 2 ^ 22       -- round(q/2^53 · 2^31), ties away (std::round)
  -- `if (q_fixed == (1LL << 31)) { q_fixed /= 2; ++*shift; }` (two plain `if`s: a destructuring `let` of an `if` makes
  -- the definition's unfolding lemma intractable for the elaborator)
  let qFixed' : Nat := if qFixed = 2 ^ 31 then qFixed / 2 else qFixed
  let shift' : Int := if qFixed = 2 ^ 31 then shift + 1 else shift
  if shift' < -31 then (0, 0) else ((qFixed' : Int), shift')

/-- reference `Requantize` of one constant with the multiplier derived from the tensor scales -/
def requantizeRefScales (qmin qmax inputZp outputZp : Int) (m1 : Nat) (e1 : Int) (m2 : Nat) (e2 : Int) (v : Int) : Int :=
  let d := doubleQuotient m1 e1 m2 e2
  let ms := quantizeMultiplier d.1 d.2
  requantizeRef qmin qmax inputZp outputZp ms.1 ms.2 v

/-- TFLite(-Micro) reference `HardSwish` quantised kernel, one element.
    `reluishExp`/`outputExp` are TFLite-convention exponents (`outputExp ≤ 0` is a `DCHECK` there). -/
def hardSwishRef (qmin qmax inputZp outputZp outMult16 : Int) (outputExp : Int)
    (reluMult16 : Int) (reluishExp : Int) (q : Int) : Int :=
  let inputValue := cast16 (q - inputZp)
  let hires := cast16 (inputValue * 2 ^ 7)
  let preshift := srdhm16 hires outMult16
  let reluish := hires
  let reluish := if reluishExp > 0 then shiftLeft16 reluish (reluishExp - 1).toNat else reluish
  let reluish := srdhm16 reluish reluMult16
  let reluish := if reluishExp > 0 then shiftLeft16 reluish 1 else reluish
  let reluish := if reluishExp < 0 then cast16 (roundingDivideByPOT reluish (-reluishExp).toNat) else reluish
  let reluish := cast16 ((reluish + 2 ^ 15) >>> 1)
  let preshiftOutput := sdhm16 reluish preshift
  let output := cast16 (roundingDivideByPOT preshiftOutput (-outputExp).toNat)
  let output := cast16 (output + outputZp)
  let output := min output qmax
  max output qmin

end VelaVerif.Gemmlowp
