import VelaVerif.Model.MlwDecode
import VelaVerif.Model.MlwFrame
import VelaVerif.Model.Reorder
/-!
# C07 — what a correct weight stream is

Stated over plain data (the byte stream an encoder returned, the source volume, the traversal
parameters); applied by the check to the *implementation's own* output.

* `Lossless stream expected`: the reference decoder accepts the stream and returns `expected`
  followed only by zeros; the stream length is a multiple of 16 bytes.
* `Framed`: after the last slice the stream holds exactly the end-of-stream marker and the minimal
  all-ones padding to the next 128-bit boundary (nothing else is appended).
* `Covers p cs`: the coordinate list `cs` visits every in-range coordinate of the volume exactly
  once and every other entry is padding — the traversal is a bijection plus zero padding.
-/
namespace VelaVerif.MlwSpec
open VelaVerif.Mlw VelaVerif.Reorder

/-- the signed 9-bit sign/magnitude range of the weight stream; anything else must be *rejected* by an encoder -/
def WeightsInRange (src : List Int) : Prop := ∀ v ∈ src, -255 ≤ v ∧ v ≤ 255

def weightsInRange (src : List Int) : Bool := src.all fun v => decide (-255 ≤ v) && decide (v ≤ 255)

/-- `l = expected ++ zeros` -/
def ZeroPadded (l expected : List Int) : Prop := ∃ k, l = expected ++ List.replicate k 0

def zeroPadded (l expected : List Int) : Bool :=
  l.take expected.length == expected && (l.drop expected.length).all (· == 0)

/-- losslessness of one stream against the expected (already reordered) weight sequence -/
def Lossless (stream : List Nat) (expected : List Int) : Prop :=
  ∃ d, decode stream = .ok d ∧ ZeroPadded d.weights expected ∧ stream.length % 16 = 0

/-- nothing but the end-of-stream marker and minimal padding follows the last slice -/
def Framed (stream : List Nat) : Prop :=
  ∃ d, decode stream = .ok d ∧ (bytesToBits stream).drop d.sliceEnd = frameBits d.sliceEnd

inductive Verdict where
  | ok (extraZeros : Nat) (d : Decoded)
  | decodeError (e : DecErr)
  | notMultipleOf16 (len : Nat)
  | mismatch (index : Nat) (got expected : Option Int) (d : Decoded)
  | badFrame (d : Decoded)

/-- first index where the decoded list is not `expected ++ zeros` -/
def firstMismatch : Nat → List Int → List Int → Option (Nat × Option Int × Option Int)
  | _, [], [] => none
  | i, a :: as, b :: bs => if a == b then firstMismatch (i + 1) as bs else some (i, some a, some b)
  | i, [], b :: _ => some (i, none, some b)
  | i, a :: as, [] => if a == 0 then firstMismatch (i + 1) as [] else some (i, some a, none)

/-- the executable checker applied to real encoder output -/
def checkStream (stream : List Nat) (expected : List Int) : Verdict :=
  match decode stream with
  | .error e => .decodeError e
  | .ok d =>
    if stream.length % 16 != 0 then .notMultipleOf16 stream.length
    else if zeroPadded d.weights expected then
      if (bytesToBits stream).drop d.sliceEnd == frameBits d.sliceEnd then .ok (d.weights.length - expected.length) d
      else .badFrame d
    else match firstMismatch 0 d.weights expected with
      | some (i, a, b) => .mismatch i a b d
      | none => .mismatch 0 none none d

/-- every coordinate of the volume -/
def allCoords (p : Params) : List Coord :=
  (List.range p.ofmDepth).flatMap fun o => (List.range p.kh).flatMap fun y =>
  (List.range p.kw).flatMap fun x => (List.range p.ifmDepth).map fun i => ⟨o, y, x, i⟩

/-- the traversal is a bijection onto the volume plus padding -/
def Covers (p : Params) (cs : List (Option Coord)) : Prop :=
  (∀ c, p.inRange c = true → cs.count (some c) = 1) ∧ (∀ c, some c ∈ cs → p.inRange c = true)

def covers (p : Params) (cs : List (Option Coord)) : Bool :=
  (allCoords p).all (fun c => cs.count (some c) == 1) &&
  cs.all fun | none => true | some c => p.inRange c

end VelaVerif.MlwSpec
