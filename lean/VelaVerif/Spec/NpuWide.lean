import VelaVerif.Spec.NpuSem
/-!
# Executable semantics of the "wide" Ethos-U operations (specification side)

Additions to `Spec/NpuSem.lean` kept in their own file: everything that involves a 32-bit feature map
(IFM, IFM2 or OFM), the elementwise operations CLZ / SHR / SHL, REDUCE_SUM pooling, table lookups with
32-bit table entries (8-bit index → 32-bit value; 16-bit index → interpolated value) and convolutions /
depthwise convolutions that write their accumulators as a 32-bit OFM. These are the operations Vela's
decompositions of SOFTMAX, MEAN, ARG_MAX … are made of.

`execBlockX` dispatches: an operation that needs none of the above goes to `NpuSem.execBlock` unchanged.

Every rule below that is not forced by the register names is an assumption about the hardware; they are
listed (A7 …) in `design.d/C01.md` together with where each comes from. None of them is taken from what
Vela emits for one network; where Vela's own comments are the only source this is said there.
-/
namespace VelaVerif.NpuWide
open VelaVerif.Decode VelaVerif.Footprint VelaVerif.Requant VelaVerif.TfliteRef VelaVerif.Isa VelaVerif.NpuSem

def INT32_LO : Int := -2147483648
def INT32_HI : Int := 2147483647

/-- a left shift has to be representable in 32 bits; what the hardware does otherwise (wrap or saturate) is
    not modelled -/
def fits32 (v : Int) : Except String Int :=
  if v < INT32_LO ∨ v > INT32_HI then throw "unsupported:int32-overflow" else pure v

/-- number of leading zero bits of the 32-bit two's complement pattern of `v` -/
def clz32 (v : Int) : Int :=
  let u := (v % (2 : Int) ^ 32).toNat
  if u = 0 then 32 else ((31 - Nat.log2 u : Nat) : Int)

def is32 (fm : FM) : Bool := fm.elemBytes = 4

/-- the operations this file owns -/
def isWide (b : BlockOp) : Bool :=
  is32 b.ifm || is32 b.ofm || (match b.ifm2 with | some f => is32 f | none => false)
  || (b.kind == .elementwise && b.subOp ≥ 7)
  || (b.kind == .pool && b.subOp = 2)
  || (b.activation % 4096 ≥ 16 && b.activation % 4096 < 24 && (b.ofm.elemBytes ≠ 1 || b.activation ≥ 4096))

def read32 (m : Mem) (addr : Nat) : Except String Nat := m.readUnsigned REGION_SHRAM addr 4

/-- value range the table index is taken from: (lowest value, number of index bits) -/
def lutDomain (b : BlockOp) : Except String (Int × Nat) := do
  let clip := b.activation / 4096 % 8
  if is32 b.ofm then
    if clip = 2 then pure (0, 8) else if clip = 3 then pure (-128, 8) else if clip = 5 then pure (-32768, 16)
    else throw "unsupported:lut-int32-without-forced-range"
  else
    if clip ≠ 0 then throw "unsupported:lut-forced-range" else
    let (lo, _) := ofmRange b.ofm
    pure (lo, 8 * b.ofm.elemBytes)

/-- output stage without a table (A7): a 32-bit OFM receives `v` saturated to the int32 range (no zero point, no
    ACTIVATION_MIN/MAX clamp); a narrower OFM receives `clamp (v + zero point)`.  (Factored out of `finishWide` so that
    `Spec/SoftmaxExec.lean` interprets the SOFTMAX program with the same function the executor runs.) -/
def outPlain (ofm32 : Bool) (ozp actMin actMax : Int) (v : Int) : Int :=
  if ofm32 then clamp v INT32_LO INT32_HI else clamp (v + ozp) actMin actMax

/-- offset of the table entry a TABLE_LOOKUP output stage selects (A8): `v + zero point` clamped to
    ACTIVATION_MIN/MAX, relative to the lowest value `lo` of the index range of `bits` bits -/
def lutOffset (lo : Int) (bits : Nat) (ozp actMin actMax : Int) (v : Int) : Except String Int :=
  let w := clamp (v + ozp) actMin actMax
  let off := w - lo
  if off < 0 ∨ off ≥ (2 : Int) ^ bits then throw "lut index out of range" else pure off

/-- Output stage of a wide operation, applied to the scaled value `v` (before the zero point):
    * no table: a 32-bit OFM receives `v` saturated to the int32 range (no zero point, no ACTIVATION_MIN/MAX
      clamp); narrower OFMs receive `clamp (v + zero point)`;
    * TABLE_LOOKUP: `v + zero point` is clamped to ACTIVATION_MIN/MAX, which must lie inside the index range
      (OFM type, or the range forced by ACTIVATION bits 14:12 for a 32-bit OFM); 8 index bits select one
      entry (a byte for an 8-bit OFM, a 32-bit word for a 32-bit OFM); 16 index bits select one of 512 32-bit
      entries by the upper 9 bits and interpolate with the lower 7:
      `base + ((slope * frac + 64) >> 7)` with base = low half, slope = high half (both signed 16 bit). -/
def finishWide (m : Mem) (ctx : Ctx) (b : BlockOp) (v : Int) : Except String Int := do
  let act := b.activation % 4096
  let ozp := b.ofm.zeroPoint
  if act = 0 then
    pure (outPlain (is32 b.ofm) ozp b.actMin b.actMax v)
  else if act ≥ 16 ∧ act < 24 then
    let (lo, bits) ← lutDomain b
    let off ← lutOffset lo bits ozp b.actMin b.actMax v
    let tableBase := ctx.lutBase + (act - 16) * 256
    if bits = 8 then
      if b.ofm.elemBytes = 1 then
        let raw ← m.readByte REGION_SHRAM (tableBase + off.toNat)
        pure (if b.ofm.signed then toSigned raw 8 else raw)
      else if is32 b.ofm then
        let raw ← read32 m (tableBase + 4 * off.toNat)
        pure (if b.ofm.signed then toSigned raw 32 else raw)
      else throw "unsupported:lut8-with-16-bit-ofm"
    else
      let idx := off.toNat / 128
      let frac : Int := ((off.toNat % 128 : Nat) : Int)
      let raw ← read32 m (tableBase + 4 * idx)
      let base := toSigned (raw % 65536) 16
      let slope := toSigned (raw / 65536) 16
      let r := base + (slope * frac + 64) / 128
      if b.ofm.elemBytes = 2 then
        if r < -32768 ∨ r > 32767 then throw "unsupported:lut16-result-overflow" else pure r
      else if is32 b.ofm then pure r
      else throw "unsupported:lut16-with-8-bit-ofm"
  else throw s!"unsupported:activation{act}"

/-- second operand of a binary elementwise operation as a logical array with its extents -/
def gatherIfm2 (m : Mem) (b : BlockOp) (regs : RegFile) (unaryOp : Bool) : Except String (Array Int × Nat × Nat × Nat) := do
  let ifm2Prec := regs.get0D IFM2_PRECISION 0
  match b.ifm2, b.ifm2Scalar with
  | some fm, _ => do pure (← gather m fm, fm.height, fm.width, fm.depth)
  | none, some s =>
    let p := ifm2Prec / 4 % 4
    if p = 2 then throw "unsupported:int32-scalar-operand" else
    let bits := if p = 0 then 8 else 16
    let sv : Int := if ifm2Prec % 2 = 1 then (if bits = 8 then toSigned (s % 256) 8 else s16 s) else (s % 2 ^ bits : Nat)
    pure (#[sv], 1, 1, 1)
  | none, none => if unaryOp then pure (#[], 1, 1, 1) else throw "binary elementwise operation without second operand"

/-- value of one element of a wide elementwise operation before the output stage: `a`, `bb` are the operands in
    OPA / OPB order with their zero points removed (the loop body of `execElementwiseWide`; a function of its own so that
    `Spec/SoftmaxExec.lean` interprets the SOFTMAX program with it) -/
def ewWideValue (mode : Nat) (in32 globalScale bits16 : Bool) (rounding : Rounding) (opToScale opa opb ofs : Nat)
    (a bb : Int) : Except String Int :=
  match mode with
  | 0 =>                                                                                   -- MUL
    if in32 then pure (npuScale rounding (a * bb) 1 (hi6 ofs))
    else pure (npuScale rounding (a * bb) (lo32 ofs) (hi6 ofs))
  | 1 | 2 =>                                                                               -- ADD / SUB
    if !globalScale then throw "unsupported:add-without-scaling" else
    if in32 then
      if opToScale ≠ 0 ∨ lo32 opa % 65536 ≠ 1 ∨ lo32 opb % 65536 ≠ 1 ∨ lo32 ofs ≠ 1 then throw "unsupported:int32-add-with-scaling" else
      pure (npuScale rounding (if mode = 1 then a + bb else a - bb) 1 (hi6 ofs))
    else
      let (sa, sb) := addOperands opToScale bits16 a bb (lo32 opa) (hi6 opa) (lo32 opb)
      pure (npuScale rounding (if mode = 1 then sa + sb else sa - sb) (lo32 ofs) (hi6 ofs))
  | 3 => pure (min a bb)
  | 4 => pure (max a bb)
  | 5 => if in32 then throw "unsupported:int32-lrelu" else
         pure (if a ≥ 0 then a else npuScale rounding a (lo32 ofs) (hi6 ofs))             -- LRELU
  | 6 => if in32 then throw "unsupported:int32-abs" else
         pure (npuScale rounding (if a ≥ 0 then a else -a) (lo32 ofs) (hi6 ofs))           -- ABS
  | 7 => pure (clz32 a)                                                                    -- CLZ
  | 8 =>                                                                                   -- SHR (rounded by the OFM rounding mode)
    if bb < 0 ∨ bb > 63 then throw "unsupported:shr-amount-out-of-range" else
    pure (npuScale rounding a 1 bb.toNat)
  | 9 =>                                                                                   -- SHL
    if bb < 0 ∨ bb > 31 then throw "unsupported:shl-amount-out-of-range" else
    fits32 (a * (2 : Int) ^ bb.toNat)
  | _ => throw s!"unsupported:elementwise{mode}"

def execElementwiseWide (m : Mem) (ctx : Ctx) (b : BlockOp) (regs : RegFile) (rounding : Rounding) : Except String Mem := do
  let mode := b.subOp
  if mode > 9 then throw s!"unsupported:elementwise{mode}"
  let globalScale := b.ofmPrecision / 256 % 2 = 1
  let unaryOp := elementwiseIsUnary mode
  let ifm ← gather m b.ifm
  let W := b.ifm.width
  let C := b.ifm.depth
  if b.ifm.height ≠ b.ofm.height ∨ W ≠ b.ofm.width ∨ C ≠ b.ofm.depth then throw "elementwise IFM / OFM extents differ"
  let zp := b.ifm.zeroPoint
  let ifm2Zp : Int := s16 (regs.get0D IFM2_ZERO_POINT 0)
  let (ifm2, h2, w2, d2) ← gatherIfm2 m b regs unaryOp
  let reversed := b.ifm2Broadcast / 64 % 2 = 1
  let opa := b.opaScale.getD 0
  let opb := b.opbScale.getD 0
  let ofs := b.ofmScale.getD 1
  let opToScale := b.ifmPrecision / 256 % 4
  -- 32-bit operands are not rescaled: operand scaling and the OFM scale multiplier do not apply to them
  let in32 := is32 b.ifm || (match b.ifm2 with | some f => is32 f | none => false)
  let oh := b.ofm.height
  let ow := b.ofm.width
  let od := b.ofm.depth
  let mut out : Array Int := Array.mkEmpty (oh * ow * od)
  for oy in [0:oh] do
    for ox in [0:ow] do
      for oc in [0:od] do
        let x1 := ifm.getD ((oy * W + ox) * C + oc) 0 - zp
        let x2 : Int := if unaryOp then 0 else
          ifm2.getD (((if h2 = 1 then 0 else oy) * w2 + (if w2 = 1 then 0 else ox)) * d2 + (if d2 = 1 then 0 else oc)) 0 - ifm2Zp
        let (a, bb) := if reversed then (x2, x1) else (x1, x2)
        let v ← ewWideValue mode in32 globalScale (b.ifm.elemBytes = 2) rounding opToScale opa opb ofs a bb
        out := out.push (← finishWide m ctx b v)
  scatter m b.ofm out

/-- REDUCE_SUM of the channels `vals` of one position (A11): sum of the zero-point-corrected values, then the global OFM scale -/
def reduceSumValue (rounding : Rounding) (scale shift : Nat) (zp : Int) (vals : List Int) : Int :=
  npuScale rounding (vals.foldl (fun acc x => acc + (x - zp)) (0 : Int)) scale shift

/-- REDUCE_SUM: the OFM has depth 1; element (y, x) is the sum of the IFM elements (y, x, ·) -/
def execReduceSum (m : Mem) (ctx : Ctx) (b : BlockOp) (rounding : Rounding) : Except String Mem := do
  if b.kernelH ≠ 1 ∨ b.kernelW ≠ 1 ∨ b.strideX ≠ 1 ∨ b.strideY ≠ 1 ∨ b.padTop + b.padBottom + b.padLeft + b.padRight ≠ 0 then
    throw "unsupported:reduce_sum-with-window"
  if b.ofm.depth ≠ 1 then throw "reduce_sum with OFM depth other than 1"
  let ifm ← gather m b.ifm
  let W := b.ifm.width
  let C := b.ifm.depth
  if b.ifm.height ≠ b.ofm.height ∨ W ≠ b.ofm.width then throw "reduce_sum IFM / OFM extents differ"
  let globalScale := b.ofmPrecision / 256 % 2 = 1
  let (scale, shift) ← if globalScale then
      match b.ofmScale with
      | some s => pure (lo32 s, hi6 s)
      | none => throw "global scale selected but OFM_SCALE never written"
    else pure (1, 0)
  let mut out : Array Int := Array.mkEmpty (b.ofm.height * W)
  for oy in [0:b.ofm.height] do
    for ox in [0:W] do
      let s := reduceSumValue rounding scale shift b.ifm.zeroPoint ((List.range C).map fun c => ifm.getD ((oy * W + ox) * C + c) 0)
      out := out.push (← finishWide m ctx b s)
  scatter m b.ofm out

/-- convolution / depthwise convolution with a 32-bit OFM: the scaled accumulator is written as it is -/
def execConvWide (m : Mem) (ctx : Ctx) (b : BlockOp) (w : Option Weights) (rounding : Rounding) : Except String Mem := do
  if is32 b.ifm then throw "unsupported:convolution-with-int32-ifm"
  let some w := w | throw "weights of the operation were not supplied"
  let ifm ← gather m b.ifm
  let H := b.ifm.height
  let W := b.ifm.width
  let C := b.ifm.depth
  let od := b.ofm.depth
  let kh := (b.kernelH - 1) / b.dilationY + 1
  let kw := (b.kernelW - 1) / b.dilationX + 1
  let chanSize := w.kh * w.kw * w.ic
  let uniform := (List.range w.oc).all fun o => (List.range chanSize).all fun i => w.vals.getD (o * chanSize + i) 0 == w.vals.getD i 0
  if w.kh ≠ kh ∨ w.kw ≠ kw ∨ w.oc < od ∨ (w.oc > od ∧ !uniform) then
    throw s!"supplied weights {w.oc}x{w.kh}x{w.kw}x{w.ic} do not fit kernel {kh}x{kw} depth {od}"
  if b.kind == .conv ∧ w.ic ≠ C then throw "supplied weights do not fit the IFM depth"
  if b.kind == .depthwise ∧ (w.ic ≠ 1 ∨ C ≠ od) then throw "depthwise weights / depth mismatch"
  let recs ← (List.range od).mapM fun c => readScaleRec m b.scales ctx.ncores c
  let recs := recs.toArray
  let ifmAt := fun y x c => ifm.getD ((y * W + x) * C + c) 0
  let zp := b.ifm.zeroPoint
  let mut out : Array Int := Array.mkEmpty (b.ofm.height * b.ofm.width * od)
  for oy in [0:b.ofm.height] do
    for ox in [0:b.ofm.width] do
      for oc in [0:od] do
        let acc := if b.kind == .conv then
            NpuSem.convAcc H W C ifmAt kh kw (fun ky kx ic => w.at oc ky kx ic) b.strideY b.strideX b.dilationY b.dilationX b.padTop b.padLeft zp oy ox
          else
            NpuSem.dwAcc H W (fun y x => ifmAt y x oc) kh kw (fun ky kx => w.at oc ky kx 0) b.strideY b.strideX b.dilationY b.dilationX b.padTop b.padLeft zp oy ox
        let r := recs.getD oc default
        out := out.push (← finishWide m ctx b (npuScale rounding (acc + r.bias) r.scale r.shift))
  scatter m b.ofm out

/-- MAX / AVERAGE pooling whose output stage is a wide one (16-bit table lookup) -/
def execPoolWide (m : Mem) (ctx : Ctx) (b : BlockOp) (rounding : Rounding) : Except String Mem := do
  if is32 b.ifm ∨ is32 b.ofm then throw "unsupported:pooling-with-int32-operand"
  if b.dilationX ≠ 1 ∨ b.dilationY ≠ 1 then throw "pooling with dilation"
  let globalScale := b.ofmPrecision / 256 % 2 = 1
  let (scale, shift) ← if globalScale then
      match b.ofmScale with
      | some s => pure (lo32 s, hi6 s)
      | none => throw "global scale selected but OFM_SCALE never written"
    else pure (1, 0)
  let ifm ← gather m b.ifm
  let H := b.ifm.height
  let W := b.ifm.width
  let C := b.ifm.depth
  let zp := b.ifm.zeroPoint
  let mut out : Array Int := Array.mkEmpty (b.ofm.height * b.ofm.width * b.ofm.depth)
  for oy in [0:b.ofm.height] do
    for ox in [0:b.ofm.width] do
      for oc in [0:b.ofm.depth] do
        let vals := windowVals H W (fun y x => ifm.getD ((y * W + x) * C + oc) 0) b.kernelH b.kernelW b.strideY b.strideX b.padTop b.padLeft oy ox
        let v ← match vals with
          | [] => throw "pooling window without a valid element"
          | v0 :: rest =>
            if b.subOp = 0 then pure (rest.foldl max v0 - zp)
            else
              let s := vals.foldl (fun acc x => acc + (x - zp)) 0
              if globalScale then pure (npuScale rounding s scale shift) else pure (divRoundAway s vals.length)
        out := out.push (← finishWide m ctx b v)
  scatter m b.ofm out

def execBlockWide (m : Mem) (ctx : Ctx) (b : BlockOp) (regs : RegFile) (w : Option Weights) : Except String Mem := do
  if b.upscale ≠ 0 then throw "unsupported:upscale-with-wide-operation"
  if b.accFormat = 2 then throw "unsupported:fp16acc"
  let some rounding := Rounding.ofBits (b.ofmPrecision / 16384 % 4) | throw "reserved rounding mode"
  match b.kind with
  | .elementwise => execElementwiseWide m ctx b regs rounding
  | .pool =>
    if b.subOp = 2 then execReduceSum m ctx b rounding
    else if b.subOp ≤ 1 then execPoolWide m ctx b rounding
    else throw "unsupported:pooling-mode"
  | .conv | .depthwise => execConvWide m ctx b w rounding
  | .dma => throw "dma is not a block operation"

def execBlockX (m : Mem) (ctx : Ctx) (b : BlockOp) (regs : RegFile) (w : Option Weights) : Except String Mem :=
  if isWide b then execBlockWide m ctx b regs w else execBlock m ctx b regs w

/-- `NpuSem.execStream` with the wide operations -/
def execStreamX (m : Mem) (lutBase : Nat) (words : List Nat) (weights : Nat → Option Weights) : Except String (Mem × Nat) := do
  let (ops, ncores) ← opsWithRegs words
  let ctx : Ctx := { ncores := ncores, lutBase := lutBase }
  let mut mem := m
  let mut k := 0
  let mut blocks := 0
  for (op, regs) in ops do
    match op with
    | .dma d => mem ← execDma mem d
    | .block b =>
      mem ← (execBlockX mem ctx b regs (weights k)).mapError fun e => if e.startsWith "unsupported:" then s!"{e} (op {k})" else s!"op {k}: {e}"
      blocks := blocks + 1
    k := k + 1
  return (mem, blocks)

/-- `NpuSem.runProgram` with the wide operations -/
def runProgramX (flash : ByteArray) (p : Program) (inputs : List Tensor) : Except String (List Tensor × Nat) := do
  if inputs.length ≠ p.ins.length then throw "custom operator input count"
  let mut mem : Mem := { regions := #[flash, poison p.scratchSize, poison p.fastSize, poison p.shramSize] }
  for (pl, t) in p.ins.zip inputs do
    mem ← writeTensor mem pl t
  let (mem', blocks) ← execStreamX mem p.lutBase p.words (fun k => p.weights.getD k none)
  let outs ← p.outs.mapM fun pl => readTensor mem' pl
  return (outs, blocks)

/-- the Ethos-U operator of an output model executed *in place* on the tensor arena: region 1 is the arena
    the CPU operators of the model read and write as well (TensorFlow Lite Micro with the offline
    allocation), so anything the stream overwrites is seen by later operators -/
def runProgramArena (flash : ByteArray) (p : Program) (arena : ByteArray) : Except String (ByteArray × Nat) := do
  let arena := if arena.size < p.scratchSize then arena ++ poison (p.scratchSize - arena.size) else arena
  let mem : Mem := { regions := #[flash, arena, poison p.fastSize, poison p.shramSize] }
  let (mem', blocks) ← execStreamX mem p.lutBase p.words (fun k => p.weights.getD k none)
  return (mem'.regions.getD 1 ByteArray.empty, blocks)

/-! ## Tables of exponentials a stream installs (for the SOFTMAX table correspondence)

The 8-bit SOFTMAX decomposition looks the exponential up in a 256-entry table of 32-bit words that a DMA
copies from the constants region into the table area. `expTables` replays only the DMAs into SHRAM and
returns the table every operation with a 32-bit table lookup (8 index bits, 32-bit OFM) sees. -/
def expTables (flash : ByteArray) (shramSize lutBase : Nat) (words : List Nat) : Except String (List (List Int)) := do
  let (ops, _) ← opsWithRegs words
  let mut mem : Mem := { regions := #[flash, ByteArray.empty, ByteArray.empty, poison shramSize] }
  let mut acc : List (List Int) := []
  for (op, _) in ops do
    match op with
    | .dma d => if d.dst.region = REGION_SHRAM ∧ d.src.region = 0 then mem ← execDma mem d
    | .block b =>
      let act := b.activation % 4096
      if act ≥ 16 ∧ act < 24 ∧ is32 b.ofm ∧ (b.activation / 4096 % 8 = 2 ∨ b.activation / 4096 % 8 = 3) then
        let t ← (List.range 256).mapM fun i => do
          let raw ← read32 mem (lutBase + (act - 16) * 256 + 4 * i)
          pure (toSigned raw 32)
        acc := t :: acc
  return acc.reverse

end VelaVerif.NpuWide
