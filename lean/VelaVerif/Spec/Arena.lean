/-!
# C12 — the offline arena plan of an output model (specification checker)

Everything here is computed from the output file alone (plain flatbuffer walk): tensors with their
byte sizes and `OfflineMemoryAllocation` offsets, the operator list, subgraph inputs/outputs.
-/
namespace VelaVerif.Arena

structure ATensor where
  size : Nat
  offset : Option Nat        -- arena offset, `none` = allocated online (−1 in the metadata)
  isVariable : Bool
deriving Repr, DecidableEq, Inhabited

structure AOp where
  ethosu : Bool
  builtin : Nat              -- builtin operator code
  inputs : List Nat          -- tensor indices (−1 entries already removed)
  outputs : List Nat
  /-- Ethos-U operators: `(region, lo, hi)` of every write of the decoded command stream (OFM hull of each
      kernel operation, destination of each DMA); `none` = not supplied (every output counts as written) -/
  writes : Option (List (Nat × Nat × Nat)) := none
deriving Repr, DecidableEq, Inhabited

structure Plan where
  tensors : List ATensor
  ops : List AOp
  inputs : List Nat
  outputs : List Nat
  scratch : Option Nat       -- index of the Ethos-U scratch tensor (the arena as the NPU sees it)
  fast : Option Nat          -- index of the fast-scratch tensor (a different memory in Dedicated-SRAM modes)
  align : Nat
deriving Repr, Inhabited

/-- first time index at which tensor `t` holds a value: 0 for graph inputs, variables and tensors no
    operator produces; `k + 1` for the output of operator `k`. Time `k + 1` is "during operator k". -/
def born (p : Plan) (t : Nat) : Nat :=
  match (p.ops.zipIdx.find? fun (o, _) => o.outputs.contains t) with
  | some (_, k) => k + 1
  | none => 0

/-- last time index at which `t` is needed: ∞ (= ops.length + 1) for graph outputs and variables; otherwise the last
    operator that reads OR WRITES it. Every result of an operator of the output graph is written by the runtime
    while that operator runs, whether anybody reads it or not (the unread second result of a two-output CPU
    operator, TOPK_V2 of which only the indices are used, …): it occupies its bytes at that operator. -/
def dies (p : Plan) (t : Nat) : Nat :=
  if p.outputs.contains t ∨ ((p.tensors[t]?.map (·.isVariable)).getD false) then p.ops.length + 1 else
  (p.ops.zipIdx.foldl (fun acc (o, k) => if o.inputs.contains t || o.outputs.contains t then max acc (k + 1) else acc) (born p t))

/-- `t` holds a value that must survive time `τ` (time `k + 1` is "while operator `k` runs") -/
def liveAt (p : Plan) (t τ : Nat) : Prop := born p t ≤ τ ∧ τ ≤ dies p t

/-- memory-only operators whose input and output are the same bytes by definition:
    RESHAPE 22, SQUEEZE 43, EXPAND_DIMS 70 -/
def memoryOnly (builtin : Nat) : Bool := builtin = 22 || builtin = 43 || builtin = 70

/-- May `a` (dying at time k) and `b` (born at time k) share bytes at operator k−1 ?
    * at an Ethos-U operator: yes — ordering inside the command stream is checked by C03;
    * at a memory-only CPU operator: only as exactly the same buffer. -/
def handoverAllowed (p : Plan) (a b : Nat) (ta tb : ATensor) : Bool :=
  let k := born p b
  if k = 0 ∨ dies p a ≠ k then false else
  match p.ops[k - 1]? with
  | none => false
  | some o =>
    if !(o.inputs.contains a && o.outputs.contains b) then false
    else if o.ethosu then true
    else memoryOnly o.builtin && ta.offset == tb.offset && ta.size == tb.size

/-- arena bytes touched by a stream write: region 1 is the arena, region 2 the fast-scratch tensor (at that
    tensor's arena offset when it has one; a separate memory otherwise) -/
def arenaRange (p : Plan) (w : Nat × Nat × Nat) : Option (Nat × Nat) :=
  if w.1 = 1 then some (w.2.1, w.2.2)
  else if w.1 = 2 then
    match p.fast.bind (fun f => p.tensors[f]?) |>.bind (·.offset) with
    | some off => some (off + w.2.1, off + w.2.2)
    | none => none
  else none

/-- does the command stream of operator `o` write a byte of `t`? -/
def writtenBy (p : Plan) (o : AOp) (t : ATensor) : Bool :=
  match o.writes, t.offset with
  | none, _ => true
  | _, none => true
  | some ws, some off =>
    ws.any fun w => match arenaRange p w with
      | some (lo, hi) => lo < off + t.size && off < hi
      | none => false

/-- An Ethos-U operator whose stream never writes output `b` leaves in `b` whatever the bytes held: `b` is
    the same buffer as an input `a` at exactly the same bytes (Vela emits no operation for an operator that
    turned out to be the identity). Both may be live together; anything else that overlaps either of them
    is still judged on its own. -/
def aliasAllowed (p : Plan) (a b : Nat) (ta tb : ATensor) : Bool :=
  ta.offset == tb.offset && ta.size == tb.size &&
  p.ops.any fun o => o.ethosu && o.inputs.contains a && o.outputs.contains b && !(writtenBy p o tb)

/-- outputs of Ethos-U operators that the stream never writes and that are no alias of an input -/
def undefinedOutputs (p : Plan) : List String :=
  p.ops.zipIdx.flatMap fun (o, k) =>
    if !o.ethosu then [] else
    o.outputs.filterMap fun b =>
      match p.tensors[b]? with
      | some tb =>
        if tb.offset.isNone || tb.size = 0 || writtenBy p o tb then none
        else if o.inputs.any (fun a => match p.tensors[a]? with
            | some ta => ta.offset == tb.offset && ta.size == tb.size
            | none => false) then none
        else some s!"output {b} of Ethos-U operator {k} is never written by its command stream and is no input's buffer"
      | none => none

def bytesOverlap (ta tb : ATensor) : Bool :=
  match ta.offset, tb.offset with
  | some oa, some ob => ta.size > 0 && tb.size > 0 && oa < ob + tb.size && ob < oa + ta.size
  | _, _ => false

def liveOverlap (p : Plan) (a b : Nat) : Bool :=
  born p a ≤ dies p b && born p b ≤ dies p a

/-- arena tensors of the plan (the memory tensors themselves are not planned tensors) -/
def planned (p : Plan) : List (Nat × ATensor) :=
  (p.tensors.zipIdx.filter fun (t, i) => t.offset.isSome && some i ≠ p.scratch && some i ≠ p.fast).map fun (t, i) => (i, t)

def conflicts (p : Plan) : List (Nat × Nat) :=
  let l := planned p
  l.flatMap fun (a, ta) => l.filterMap fun (b, tb) =>
    if a < b && bytesOverlap ta tb && liveOverlap p a b &&
       !(handoverAllowed p a b ta tb) && !(handoverAllowed p b a tb ta) &&
       !(aliasAllowed p a b ta tb) && !(aliasAllowed p b a tb ta) then some (a, b) else none

def misaligned (p : Plan) : List Nat :=
  (planned p).filterMap fun (i, t) => match t.offset with
    | some o => if p.align > 0 && o % p.align ≠ 0 then some i else none
    | none => none

/-- highest arena byte + 1 the plan needs -/
def requiredExtent (p : Plan) : Nat :=
  (planned p).foldl (fun acc (_, t) => max acc (t.offset.getD 0 + t.size)) 0

/-- the scratch tensor starts at 0 and spans every planned tensor that an Ethos-U operator touches -/
def scratchProblems (p : Plan) : List String :=
  match p.scratch with
  | none => []
  | some s =>
    match p.tensors[s]? with
    | none => ["scratch tensor index out of range"]
    | some st =>
      (if st.offset ≠ some 0 then [s!"scratch tensor offset is {st.offset} (must be 0)"] else []) ++
      (p.ops.zipIdx.flatMap fun (o, k) =>
        if !o.ethosu then [] else
        (o.inputs ++ o.outputs).filterMap fun t =>
          match p.tensors[t]? with
          | some tt =>
            (match tt.offset with
             | some off => if some t ≠ p.scratch && some t ≠ p.fast && off + tt.size > st.size then
                 some s!"operand {t} of Ethos-U operator {k} ends at {off + tt.size}, scratch extent {st.size}" else none
             | none => none)
          | none => none)

/-- A file carries exactly one offline plan.  The runtime takes its tensor offsets from *a* metadata entry named
    `OfflineMemoryAllocation` (TensorFlow Lite Micro walks the list and keeps the last one it meets); two entries are two
    claims about where the same tensors live, and a compiled Ethos-U operator has the addresses of only one of them baked
    into its command stream.  `n` = number of metadata entries with that name. -/
def onePlan (n : Nat) : Bool := n == 1

structure Verdict where
  conflicts : List (Nat × Nat)
  misaligned : List Nat
  scratch : List String
  required : Nat
deriving Repr

def check (p : Plan) : Verdict :=
  { conflicts := conflicts p, misaligned := misaligned p, scratch := scratchProblems p ++ undefinedOutputs p,
    required := requiredExtent p }

end VelaVerif.Arena
