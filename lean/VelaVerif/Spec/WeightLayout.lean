/-!
# Spec for property C08 — "encoded weight and scale tensors cover each output channel exactly once"

Written independently of `Model/WeightLayout.lean` (imports nothing).  It speaks about an
*artefact*: the byte buffer Vela assembled, the table of per-(core, slice) ranges it recorded and
the two double-buffer sizes — whoever produced them (the real `encode_weight_and_scale_tensor` in
the harness, the Lean model in the theorems).

Hardware contract assumed (Ethos-U65 multi-core, from the register documentation quoted in
DESIGN.md): an OFM depth slice that starts at channel `off` is split over the cores by the
channel's index *within the slice* modulo the core count; each core reads, from its own 16-byte
aligned address, first `10`-byte records `[bias:40 signed | multiplier:32 | shift:6 | 0:2]`, one per
channel it owns, in ascending channel order, then (16-byte aligned) its weight stream.
-/
namespace VelaVerif.WeightSpec

/-! ### the 80-bit record -/

structure Rec where
  bias : Int
  mult : Nat
  shift : Nat
deriving Repr, DecidableEq

/-- decode one 10-byte little-endian record; `none` if it is not 10 bytes, a byte is ≥ 256 or
    the two reserved top bits are set -/
def decodeRecord : List Nat → Option Rec
  | [b0, b1, b2, b3, b4, s0, s1, s2, s3, sh] =>
    if b0 < 256 ∧ b1 < 256 ∧ b2 < 256 ∧ b3 < 256 ∧ b4 < 256 ∧ s0 < 256 ∧ s1 < 256 ∧ s2 < 256 ∧ s3 < 256
        ∧ sh < 64 then
      let u := b0 + 256 * b1 + 65536 * b2 + 16777216 * b3 + 4294967296 * b4
      some { bias := if u < 2 ^ 39 then (u : Int) else (u : Int) - 2 ^ 40,
             mult := s0 + 256 * s1 + 65536 * s2 + 16777216 * s3,
             shift := sh }
    else none
  | _ => none

/-- split a scale section into 10-byte records; `none` if the length is not a multiple of 10 or a
    record is malformed -/
def decodeRecords : List Nat → Option (List Rec)
  | [] => some []
  | b0 :: b1 :: b2 :: b3 :: b4 :: s0 :: s1 :: s2 :: s3 :: sh :: rest =>
    match decodeRecord [b0, b1, b2, b3, b4, s0, s1, s2, s3, sh], decodeRecords rest with
    | some r, some rs => some (r :: rs)
    | _, _ => none
  | _ => none

/-! ### which channels belong to which (core, slice) -/

/-- channels of the slice `[off, off+len)` whose in-slice index is `≡ core (mod ncores)`, ascending -/
def chanOf (ncores core off len : Nat) : List Nat :=
  ((List.range len).filter (fun j => j % ncores = core)).map (fun j => off + j)

structure SReq where
  ncores : Nat
  fullDepth : Nat
  blockDepth : Nat
  offsets : List Nat
deriving Repr, DecidableEq

/-- the requests the property quantifies over: at least one core, every core owns part of a block,
    depth offsets strictly increasing from 0 to the OFM depth -/
def ValidReq (q : SReq) : Prop :=
  1 ≤ q.ncores ∧ q.ncores ≤ q.blockDepth ∧ 2 ≤ q.offsets.length ∧
  q.offsets.head? = some 0 ∧ q.offsets.getLast? = some q.fullDepth ∧ q.offsets.Pairwise (· < ·)

instance (q : SReq) : Decidable (ValidReq q) := by unfold ValidReq; infer_instance

/-- `(slice index, offset, length)` for consecutive offsets -/
def slicesFrom : Nat → List Nat → List (Nat × Nat × Nat)
  | i, a :: b :: rest => (i, a, b - a) :: slicesFrom (i + 1) (b :: rest)
  | _, _ => []

def slices (offsets : List Nat) : List (Nat × Nat × Nat) := slicesFrom 0 offsets

structure Expect where
  slice : Nat
  core : Nat
  off : Nat
  len : Nat
deriving Repr, DecidableEq

def activeCores (q : SReq) : Nat := min q.ncores q.fullDepth

/-- the (core, slice) pairs that must have a range, in stream order: slice-major, core-minor -/
def expected (q : SReq) : List Expect :=
  (slices q.offsets).flatMap fun s => (List.range (activeCores q)).map fun c => ⟨s.1, c, s.2.1, s.2.2⟩

def Expect.chans (q : SReq) (e : Expect) : List Nat := chanOf q.ncores e.core e.off e.len

/-- an intermediate slice (not the last) whose length is not a multiple of the core count -/
def raggedMid (q : SReq) (e : Expect) : Bool :=
  e.slice + 2 < q.offsets.length && e.len % q.ncores != 0

/-! ### the artefact -/

structure ARange where
  core : Nat
  depth : Nat
  offset : Nat
  scaleBytes : Nat
  weightOffset : Nat
  weightBytes : Nat
deriving Repr, DecidableEq

/-- first byte after the range (scale section and weight section) -/
def ARange.stop (r : ARange) : Nat := r.offset + max r.scaleBytes (r.weightOffset + r.weightBytes)
def roundUp16 (n : Nat) : Nat := (n + 15) / 16 * 16

structure Artefact where
  bufLen : Nat
  ranges : List ARange
  dbs0 : Nat
  dbs1 : Nat
  hasWeights : Bool        -- false for a scale-only tensor (weights come from a cached tensor)
deriving Repr, DecidableEq

/-- exactly the expected keys, in stream order (so: one range per (core, slice), none missing, none extra) -/
def KeysOk (q : SReq) (a : Artefact) : Prop :=
  a.ranges.map (fun r => (r.core, r.depth)) = (expected q).map (fun e => (e.core, e.off))

/-- every range, its weight section and the section length are 16-byte aligned -/
def AlignedOk (a : Artefact) : Prop :=
  ∀ r ∈ a.ranges, r.offset % 16 = 0 ∧ r.weightOffset % 16 = 0 ∧ r.weightBytes % 16 = 0

/-- ranges are pairwise disjoint, in stream order, inside the buffer; sections do not overlap inside a range -/
def OrderedOk (a : Artefact) : Prop :=
  a.ranges.Pairwise (fun r s => r.stop ≤ s.offset) ∧
  ∀ r ∈ a.ranges, r.stop ≤ a.bufLen ∧ (a.hasWeights = true → r.scaleBytes ≤ r.weightOffset)

/-- one 10-byte record per channel of the (core, slice) -/
def ScaleCountAt (q : SReq) (e : Expect) (r : ARange) : Prop := r.scaleBytes = 10 * (e.chans q).length

def ScaleCountOk (q : SReq) (a : Artefact) : Prop :=
  ∀ p ∈ (expected q).zip a.ranges, ScaleCountAt q p.1 p.2

def bytesAt (buf : List Nat) (start len : Nat) : List Nat := (buf.drop start).take len

/-- the scale section decodes to exactly the records of the channels of the (core, slice), in order -/
def ScaleRecordsAt (q : SReq) (buf : List Nat) (exp : List Rec) (e : Expect) (r : ARange) : Prop :=
  (decodeRecords (bytesAt buf r.offset r.scaleBytes)).map (fun l => l.map some) = some ((e.chans q).map (exp[·]?))
  ∧ r.offset + r.scaleBytes ≤ buf.length

def sliceRanges (a : Artefact) (off : Nat) : List ARange := a.ranges.filter (fun r => r.depth = off)

/-- bytes the DMA of a slice moves (`create_dma_op`): 16-byte rounded size of each core's range -/
def dmaBytes (rs : List ARange) : Nat := (rs.map fun r => roundUp16 (r.scaleBytes + r.weightBytes)).sum

def dbsOf (a : Artefact) (i : Nat) : Nat := if i % 2 = 0 then a.dbs0 else a.dbs1

/-- slice `i` occupies buffer `i mod 2`, whose recorded size must hold the bytes its DMA moves -/
def DbsOk (q : SReq) (a : Artefact) : Prop :=
  ∀ s ∈ slices q.offsets, dmaBytes (sliceRanges a s.2.1) ≤ dbsOf a s.1

instance (q : SReq) (a : Artefact) : Decidable (KeysOk q a) := by unfold KeysOk; infer_instance
instance (a : Artefact) : Decidable (AlignedOk a) := by unfold AlignedOk; infer_instance
instance (a : Artefact) : Decidable (OrderedOk a) := by unfold OrderedOk; infer_instance
instance (q : SReq) (e : Expect) (r : ARange) : Decidable (ScaleCountAt q e r) := by unfold ScaleCountAt; infer_instance
instance (q : SReq) (a : Artefact) : Decidable (ScaleCountOk q a) := by unfold ScaleCountOk; infer_instance
instance (q : SReq) (buf : List Nat) (exp : List Rec) (e : Expect) (r : ARange) :
    Decidable (ScaleRecordsAt q buf exp e r) := by unfold ScaleRecordsAt; infer_instance
instance (q : SReq) (a : Artefact) : Decidable (DbsOk q a) := by unfold DbsOk; infer_instance

/-- The layout part of C08 for one encoded tensor. -/
def LayoutOk (q : SReq) (a : Artefact) : Prop :=
  KeysOk q a ∧ AlignedOk a ∧ OrderedOk a ∧ ScaleCountOk q a ∧ DbsOk q a

instance (q : SReq) (a : Artefact) : Decidable (LayoutOk q a) := by unfold LayoutOk; infer_instance

/-! ### hardware order of a weight volume (what the weight section must decode to) -/

structure HwParams where
  ifmUblock : Nat
  ofmUblock : Nat
  ofmDepth : Nat          -- number of output channels in this (core, slice)
  kh : Nat
  kw : Nat
  ifmDepth : Nat
  ofmBlockDepth : Nat     -- per-core block depth
  depthwise : Bool
  partKernel : Bool
  ifmBits : Nat
  decompH : Nat
  decompW : Nat
deriving Repr, DecidableEq

/-- `0, step, 2·step, … < stop` -/
def rangeStep (stop step : Nat) : List Nat := (List.range ((stop + step - 1) / step)).map (· * step)

def roundUp (n m : Nat) : Nat := (n + m - 1) / m * m

/-- the order in which the NPU consumes a per-core weight volume: OFM block → IFM block → sub-kernel
    → (part-kernel: IFM micro-block) → OFM micro-block → kernel element → (depth-first: IFM
    micro-block) → OFM channel in micro-block → IFM channel in micro-block; positions outside the
    volume are 0.  `get ofm_z ky kx ifm_z`. -/
def hwOrder (p : HwParams) (get : Nat → Nat → Nat → Nat → Int) : List Int :=
  let ifmBlockDepth := if p.partKernel || p.ifmBits == 16 then 16 else 32
  (rangeStep p.ofmDepth p.ofmBlockDepth).flatMap fun obz =>
    let clippedOfm := min p.ofmBlockDepth (p.ofmDepth - obz)
    (rangeStep (if p.depthwise then 1 else p.ifmDepth) ifmBlockDepth).flatMap fun ibz =>
      let clippedIfm := if p.depthwise then p.ifmUblock
        else if p.partKernel then min ifmBlockDepth (p.ifmDepth - ibz) else ifmBlockDepth
      (rangeStep p.kh p.decompH).flatMap fun sky =>
        let subH := min (p.kh - sky) p.decompH
        (rangeStep p.kw p.decompW).flatMap fun skx =>
          let subW := min (p.kw - skx) p.decompW
          let el0 := subW * subH
          let elems :=
            if p.partKernel then
              (if p.ifmBits == 16 then roundUp el0 2 else if p.ifmBits == 8 then roundUp el0 4 else el0)
            else if p.depthwise then roundUp el0 4 else el0
          let outer := if p.partKernel then clippedIfm else 1
          let inner := if p.partKernel then 1 else clippedIfm
          (rangeStep outer p.ifmUblock).flatMap fun uo =>
            (rangeStep clippedOfm p.ofmUblock).flatMap fun ou =>
              (List.range elems).flatMap fun e =>
                let kx := e % subW
                let ky := e / subW
                (rangeStep inner p.ifmUblock).flatMap fun ui =>
                  (List.range p.ofmUblock).flatMap fun oz =>
                    (List.range (if p.depthwise then 1 else p.ifmUblock)).map fun iz =>
                      let ifmZ := ibz + ui + uo + iz
                      let ofmZ := obz + ou + oz
                      if ifmZ < p.ifmDepth ∧ ofmZ < p.ofmDepth ∧ ky < subH then get ofmZ (sky + ky) (skx + kx) ifmZ
                      else 0

/-- a weight tensor in Vela's HWIO layout, raw (stored) values and zero point(s) -/
structure WTensor where
  h : Nat
  w : Nat
  i : Nat
  o : Nat
  raw : Array Int
  zp : Array Int          -- one entry (per tensor) or `o` entries (per channel)
  flip : Bool             -- transpose convolution: kernel reversed in H and W
deriving Repr

def WTensor.zpOf (t : WTensor) (ch : Nat) : Int := if t.zp.size = 1 then t.zp[0]! else t.zp[ch]!

/-- zero-point corrected weight of output channel `ch` at kernel position (ky, kx), input channel iz -/
def WTensor.corrected (t : WTensor) (ch ky kx iz : Nat) : Int :=
  let ky' := if t.flip then t.h - 1 - ky else ky
  let kx' := if t.flip then t.w - 1 - kx else kx
  t.raw[((ky' * t.w + kx') * t.i + iz) * t.o + ch]! - t.zpOf ch

/-- number of block channels a core owns: in-block indices `≡ core (mod ncores)` -/
def coreBlockDepth (ncores blockDepth core : Nat) : Nat :=
  ((List.range blockDepth).filter (fun j => j % ncores = core)).length

structure CodecCfg where
  ifmUblock : Nat
  ofmUblock : Nat
  depthwise : Bool
  partKernel : Bool
  ifmBits : Nat
  decompH : Nat
  decompW : Nat
deriving Repr, DecidableEq

/-- what the weight section of (core, slice) `e` must decode to -/
def expectedWeights (q : SReq) (cc : CodecCfg) (t : WTensor) (e : Expect) : List Int :=
  let chans := (e.chans q).toArray
  hwOrder { ifmUblock := cc.ifmUblock, ofmUblock := cc.ofmUblock, ofmDepth := chans.size, kh := t.h, kw := t.w,
            ifmDepth := t.i, ofmBlockDepth := coreBlockDepth q.ncores q.blockDepth e.core,
            depthwise := cc.depthwise, partKernel := cc.partKernel, ifmBits := cc.ifmBits,
            decompH := cc.decompH, decompW := cc.decompW }
    (fun oz ky kx iz => t.corrected chans[oz]! ky kx iz)

def WeightsAt (q : SReq) (cc : CodecCfg) (t : WTensor) (e : Expect) (decoded : List Int) : Prop :=
  decoded = expectedWeights q cc t e

instance (q : SReq) (cc : CodecCfg) (t : WTensor) (e : Expect) (d : List Int) : Decidable (WeightsAt q cc t e d) := by
  unfold WeightsAt; infer_instance

/-! ### address ranges handed to the command stream generator -/

/-- every `(address, length)` is 16-byte aligned and lies inside `[base, base + size)` -/
def AddrOk (base size : Nat) (rs : List (Nat × Nat)) : Prop :=
  ∀ p ∈ rs, p.1 % 16 = 0 ∧ base ≤ p.1 ∧ p.1 + p.2 ≤ base + size

instance (base size : Nat) (rs : List (Nat × Nat)) : Decidable (AddrOk base size rs) := by unfold AddrOk; infer_instance

/-- What the command stream generator must be handed for the slice starting at channel `depth`:
    `sel` = the ranges of that slice in stream order.  Read in place (`buf = none`) a range sits at
    `base + offset`; through a buffered copy (`buf = some b`) the DMA moves the bytes from the first
    range's offset to the (16-byte rounded) end of the last one to `b`, so a range sits at
    `b + (offset − first offset)`.  Returns (weight ranges, scale ranges, DMA source, DMA destination). -/
def expectedAddrs (base : Nat) (buf : Option Nat) (rs : List ARange) (depth : Nat) :
    List (Nat × Nat) × List (Nat × Nat) × Option ((Nat × Nat) × (Nat × Nat)) :=
  let sel := rs.filter (fun r => r.depth = depth)
  match sel.head?, sel.getLast? with
  | some r0, some rl =>
    let org : ARange → Nat := fun r => match buf with
      | none => base + r.offset
      | some b => b + (r.offset - r0.offset)
    let span := roundUp16 rl.stop - r0.offset
    (sel.map (fun r => (org r + r.weightOffset, roundUp16 r.weightBytes)),
     sel.map (fun r => (org r, roundUp16 r.scaleBytes)),
     (if r0.core = 0 then some ((base + r0.offset, span), (buf.getD 0, span)) else none))
  | _, _ => ([], [], none)

/-! ### what one NPU stripe is handed -/

/-- An NPU stripe that produces output channels `[c0, c1)` looks its ranges up by the key
    `(core, c0)`.  For every active core the weight tensor must hold a range with that key, and the
    tensor carrying the scales (`sr`; the same table unless the scales are stand-alone) a range with
    that key holding one record per channel of `[c0, c1)` the core owns — so the stripe's channels are
    covered exactly once by what the *emitted* operation addresses, whatever the scheduler decided
    about slicing in between. -/
def StripeCoverOk (ncores fullDepth : Nat) (wr sr : List ARange) (c0 c1 : Nat) : Prop :=
  ∀ core ∈ List.range (min ncores fullDepth),
    (∃ r ∈ wr, r.core = core ∧ r.depth = c0) ∧
    (∃ r ∈ sr, r.core = core ∧ r.depth = c0 ∧ r.scaleBytes = 10 * (chanOf ncores core c0 (c1 - c0)).length)

instance (ncores fullDepth : Nat) (wr sr : List ARange) (c0 c1 : Nat) :
    Decidable (StripeCoverOk ncores fullDepth wr sr c0 c1) := by unfold StripeCoverOk; infer_instance

/-! ### buffers the scheduler allocates for the slices -/

/-- slice `i` (DMA size `sliceBytes[i]`) is copied into buffer `i mod n`; every buffer must hold every
    slice assigned to it.  No buffers = weights are read in place. -/
def BuffersOk (bufSizes sliceBytes : List Nat) : Prop :=
  bufSizes = [] ∨ ∀ p ∈ sliceBytes.zipIdx, p.1 ≤ bufSizes.getD (p.2 % bufSizes.length) 0

instance (b s : List Nat) : Decidable (BuffersOk b s) := by unfold BuffersOk; infer_instance

/-! ### executable verdict (what the harness prints) -/

/-- One failed clause: kind, slice, core, and whether it sits at a ragged intermediate slice of a
    two-core request on core 1 (the condition of the recorded finding). -/
structure Failure where
  kind : String
  slice : Nat
  core : Nat
  raggedCore1 : Bool
deriving Repr, DecidableEq

def failuresPerRange (q : SReq) (buf : List Nat) (exp : List Rec) (a : Artefact) : List Failure :=
  ((expected q).zip a.ranges).flatMap fun (e, r) =>
    let k := q.ncores == 2 && e.core == 1 && raggedMid q e
    (if decide (ScaleCountAt q e r) then [] else [⟨"scale-count", e.slice, e.core, k⟩]) ++
    (if decide (ScaleRecordsAt q buf exp e r) then [] else [⟨"scale-records", e.slice, e.core, k⟩])

def failures (q : SReq) (buf : List Nat) (exp : List Rec) (a : Artefact) : List Failure :=
  (if decide (ValidReq q) then [] else [⟨"invalid-request", 0, 0, false⟩]) ++
  (if decide (a.bufLen = buf.length) then [] else [⟨"buffer-length", 0, 0, false⟩]) ++
  (if decide (KeysOk q a) then [] else [⟨"keys", 0, 0, false⟩]) ++
  (if decide (AlignedOk a) then [] else [⟨"aligned", 0, 0, false⟩]) ++
  (if decide (OrderedOk a) then [] else [⟨"ordered", 0, 0, false⟩]) ++
  (if decide (DbsOk q a) then [] else [⟨"double-buffer", 0, 0, false⟩]) ++
  failuresPerRange q buf exp a

/-! ### cache transparency

`encode_weight_and_scale_tensor` answers from a process-wide memo table.  The table exists so that reuse is
*invisible*: whatever a request is answered with must be what the same request returns when the table is
bypassed.  An answer is a weights tensor and, for a "weights-only hit", a stand-alone scale tensor; a
bypassing call always returns one tensor that holds both.  What the rest of the compiler can observe of an
answer: the range table of the weights tensor (keys, offsets, section sizes: the address derivation and the
DMA sizes read them), its double-buffer sizes and traversal flag, the bytes of every weight section, and the
bytes of every scale section *of the tensor that carries the scales*. -/

/-- an encoded tensor as its holder sees it -/
structure ETensor where
  buf : List Nat
  ranges : List ARange
  dbs0 : Nat
  dbs1 : Nat
  partKernel : Bool
deriving Repr, DecidableEq

def ARange.key (r : ARange) : Nat × Nat := (r.core, r.depth)

def ETensor.weightSections (t : ETensor) : List ((Nat × Nat) × List Nat) :=
  t.ranges.map fun r => (r.key, bytesAt t.buf (r.offset + r.weightOffset) r.weightBytes)

def ETensor.scaleSections (t : ETensor) : List ((Nat × Nat) × List Nat) :=
  t.ranges.map fun r => (r.key, bytesAt t.buf r.offset r.scaleBytes)

/-- everything downstream code reads of an answer `(w, s)` -/
structure Observation where
  ranges : List ARange                           -- of the weights tensor
  dbs : Nat × Nat
  partKernel : Bool
  weights : List ((Nat × Nat) × List Nat)
  scales : List ((Nat × Nat) × List Nat)         -- of the tensor that carries the scales
  scaleSizes : List Nat                          -- `scale_bytes` recorded on that tensor
deriving Repr, DecidableEq

def observe (w : ETensor) (s : Option ETensor) : Observation :=
  let h := s.getD w
  ⟨w.ranges, (w.dbs0, w.dbs1), w.partKernel, w.weightSections, h.scaleSections, h.ranges.map (·.scaleBytes)⟩

/-- the answer `(w, s)` is indistinguishable from the bypassing answer `fresh` -/
def CacheTransparent (w : ETensor) (s : Option ETensor) (fresh : ETensor) : Prop :=
  observe w s = observe fresh none

instance (w : ETensor) (s : Option ETensor) (f : ETensor) : Decidable (CacheTransparent w s f) := by
  unfold CacheTransparent; infer_instance

/-- which observable differs (executable verdict; empty = transparent) -/
def transparencyFailures (w : ETensor) (s : Option ETensor) (fresh : ETensor) : List String :=
  let a := observe w s
  let b := observe fresh none
  (if a.ranges = b.ranges then [] else ["ranges"]) ++
  (if a.dbs = b.dbs then [] else ["double-buffer-sizes"]) ++
  (if a.partKernel = b.partKernel then [] else ["traversal"]) ++
  (if a.weights = b.weights then [] else ["weight-sections"]) ++
  (if a.scales = b.scales then [] else ["scale-sections"]) ++
  (if a.scaleSizes = b.scaleSizes then [] else ["scale-sizes"])

/-! ### constants an *emitted* operation designates

The registers of an NPU operation name, per active core, an address range for the scales and one for the
weights (`SCALE`/`SCALE1`, `WEIGHT`/`WEIGHT1` base and length, one region register each).  Whatever the
scheduler, the cache and the address derivation did on the way, the bytes these ranges designate — in the
constants region of the output file, or in a buffer that an earlier DMA of the same stream filled from it —
must be this operation's own: for core `k` one 10-byte record per channel of the stripe `[c0, c1)` with
in-stripe index `≡ k`, carrying that channel's bias / multiplier / shift, and a weight stream that decodes to
the operation's own filter for exactly those channels. -/

structure Rng where
  region : Nat
  addr : Nat
  len : Nat
deriving Repr, DecidableEq

/-- what a DMA left behind: `bytes = none` when its source could not be resolved to constants -/
structure MemWrite where
  region : Nat
  addr : Nat
  len : Nat
  bytes : Option (List Nat)
deriving Repr, DecidableEq

structure ConstMem where
  constRegion : Nat
  image : Array Nat              -- the constants tensor of the output file
  writes : List MemWrite         -- most recent first
deriving Repr

def ConstMem.read (m : ConstMem) (r : Rng) : Option (List Nat) :=
  if r.region = m.constRegion then
    if r.addr + r.len ≤ m.image.size then some (m.image.extract r.addr (r.addr + r.len)).toList else none
  else
    match m.writes.find? (fun w => w.region = r.region ∧ w.addr < r.addr + r.len ∧ r.addr < w.addr + w.len) with
    | some w =>
      if w.addr ≤ r.addr ∧ r.addr + r.len ≤ w.addr + w.len then w.bytes.map (fun b => bytesAt b (r.addr - w.addr) r.len)
      else none
    | none => none

def ConstMem.dma (m : ConstMem) (src dst : Rng) : ConstMem :=
  { m with writes := ⟨dst.region, dst.addr, dst.len, m.read src⟩ :: m.writes }

structure OpConsts where
  ncores : Nat
  c0 : Nat
  c1 : Nat
  scales : List Rng
  weights : List Rng
deriving Repr, DecidableEq

/-- cores that own at least one channel of the stripe -/
def OpConsts.cores (o : OpConsts) : List Nat :=
  (List.range o.ncores).filter fun k => (chanOf o.ncores k o.c0 (o.c1 - o.c0)).length ≠ 0

/-- one scale range per owning core; it is 16-byte aligned, as long as the records rounded up to 16, and the
    designated bytes start with exactly the records of the channels the core owns (`exp` is indexed by the
    absolute channel number) -/
def ScaleRegsOk (m : ConstMem) (exp : List Rec) (o : OpConsts) : Prop :=
  o.scales.length = o.cores.length ∧
  ∀ p ∈ o.cores.zip o.scales,
    let chans := chanOf o.ncores p.1 o.c0 (o.c1 - o.c0)
    p.2.addr % 16 = 0 ∧ p.2.len = roundUp16 (10 * chans.length) ∧
    ((m.read ⟨p.2.region, p.2.addr, 10 * chans.length⟩).bind decodeRecords).map (fun l => l.map some)
      = some (chans.map (exp[·]?))

/-- one weight range per owning core; the designated bytes are `own[k]`, which the caller has shown to decode
    to the operation's own weights of the core's channels -/
def WeightRegsOk (m : ConstMem) (o : OpConsts) (own : List (List Nat)) : Prop :=
  o.weights.length = o.cores.length ∧ own.length = o.cores.length ∧
  ∀ p ∈ o.weights.zip own, p.1.addr % 16 = 0 ∧ p.1.len = p.2.length ∧ m.read p.1 = some p.2

instance (m : ConstMem) (exp : List Rec) (o : OpConsts) : Decidable (ScaleRegsOk m exp o) := by
  unfold ScaleRegsOk; infer_instance
instance (m : ConstMem) (o : OpConsts) (own : List (List Nat)) : Decidable (WeightRegsOk m o own) := by
  unfold WeightRegsOk; infer_instance

end VelaVerif.WeightSpec
