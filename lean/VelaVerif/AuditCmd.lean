import Lean
/-! `#audit_module M` prints, for every theorem declared in module `M` (non-internal names), the
axioms it depends on:  `THEOREM <name> AXIOMS [<a>, …]`.  Used by the harness to *count*
obligations and discharged obligations per run. -/
open Lean Elab Command

elab "#audit_module " m:ident : command => do
  let env ← getEnv
  let some idx := env.getModuleIdx? m.getId | throwError "unknown module {m.getId}"
  let mut names : Array Name := #[]
  for (n, ci) in env.constants.map₁.toList do
    if env.getModuleIdxFor? n == some idx then
      if let .thmInfo _ := ci then
        -- equation lemmas the elaborator derives on demand (`f.eq_def`, `f.eq_1`, …) are not obligations
        let last := match n with | .str _ s => s | _ => ""
        let derived := last == "eq_def" || (last.startsWith "eq_" && (last.drop 3).all Char.isDigit) ||
          last == "congr_simp" || last == "induct" || last == "induct_unfolding" || last == "fun_cases"
        if !n.isInternalDetail && !n.isInternal && !derived then
          names := names.push n
  let sorted := names.qsort (fun a b => a.toString < b.toString)
  for n in sorted do
    let axs ← Lean.collectAxioms n
    let axsS := axs.qsort (fun a b => a.toString < b.toString)
    logInfo m!"THEOREM {n} AXIOMS {axsS.toList}"
  logInfo m!"AUDIT-END {m.getId} {sorted.size}"
